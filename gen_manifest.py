#!/usr/bin/env python3
"""Regenerates /verif/MANIFEST.json from the table below (kept in one place so the manifest is
always valid and in sync with the checks that exist in the checker)."""
import json, subprocess, sys

ALL = ["C%02d" % i for i in range(1, 21)]

# property -> (technique, level text, level note, design ref)
CLAIMED = {
    "C15": (
        "SSA CFG reachability after deleting fact-establishing edges (GUARD), store-before-error-return reachability, slice provenance (in/out aliasing), call-site dominance order",
        "Decides the structural clauses of the transcript specification on the current source for all histories: refusal guards dominate every accepting return of Bind/ComputeChallenge, no state write can precede an error return, no caller slice is retained and no internal slice is returned, and the hash input sites are ordered id < previous value (iff position != 0) < bindings (ascending) < Sum. It does not decide the digest value.",
        "Trusts go/types+go/ssa as model of the source and the std contract of hash.Hash (Write does not retain, Sum(nil) is fresh). Value of the hash is out of reach (behavioural remainder).",
        "DESIGN.md section 4 C15",
    ),
}

NOT_YET = "check not built yet in this revision of /verif (see DESIGN.md section 4 for the planned structural clauses); the value-level core is not decidable by static analysis"

def main():
    checks = []
    for pid in ALL:
        if pid not in CLAIMED:
            continue
        tech, text, note, ref = CLAIMED[pid]
        checks.append({
            "property_id": pid,
            "quick_cmd": "./check.sh %s quick" % pid,
            "thorough_cmd": "./check.sh %s thorough" % pid,
            "evidence_file": "/verif/evidence/%s.json" % pid,
            "replay_cmd_template": "bin/gcverif -explain {path}",
            "engine": "gcverif",
            "level_claimed": {"category": "other", "text": text, "design_ref": ref},
            "level_note": note,
            "technique": "static analysis: " + tech,
        })
    na = []
    reasons = json.load(open("/verif/not_applicable.json"))
    for pid in ALL:
        if pid in CLAIMED:
            continue
        na.append({"property_id": pid, "reason": reasons.get(pid, NOT_YET)})
    m = {
        "version": 1,
        "setup_cmd": "./setup.sh",
        "hooks": {
            "guard": "verif",
            "enable": "none needed: the checker reads /repo's source (go/packages), nothing is instrumented",
            "baseline_off_cmd": "cd /repo && go build ./... && go test -vet=off -count=1 -timeout 25m ./...",
            "source_commits": [],
            "add_only": True,
        },
        "engines": [{
            "name": "gcverif",
            "path": "/verif/checker",
            "serves_properties": sorted(CLAIMED),
            "kind_free_text": "repository-specific static analyser on go/packages + go/ssa + VTA call graph (x/tools v0.29.0): GUARD (accept-dominance), EFFECTS (mod/ref, alias hazards), PARITY (build-tag siblings), small dataflow lints",
        }],
        "checks": checks,
        "not_applicable": na,
        "notes": "Technique family: static analysis only; no repository code is executed by any check. Known findings: /verif/known_findings.json. Seeded mutants: /verif/seeded/.",
    }
    json.dump(m, open("/verif/MANIFEST.json", "w"), indent=1)
    # validate
    try:
        import jsonschema
        jsonschema.validate(m, json.load(open("/root/.vp/MANIFEST.schema.json")))
        print("MANIFEST.json valid;", len(checks), "checks,", len(na), "not_applicable")
    except ImportError:
        print("jsonschema missing; written without validation")

if __name__ == "__main__":
    main()
