#!/usr/bin/env python3
"""Regenerates /verif/MANIFEST.json from the table below (kept in one place so the manifest is
always valid and in sync with the checks that exist in the checker)."""
import json, subprocess, sys

ALL = ["C%02d" % i for i in range(1, 21)]

# property -> (technique, level text, level note, design ref)
CLAIMED = {
    "C15": (
        "SSA CFG reachability after deleting fact-establishing edges (GUARD), store-before-error-return reachability, slice provenance (in/out aliasing), call-site dominance order",
        "Decides the structural clauses of the transcript specification on the current source for all histories: refusal guards dominate every accepting return of Bind/ComputeChallenge, no state write can precede an error return, no caller slice is retained and no internal slice is returned, and the hash input sites are ordered id < previous value (iff position != 0) < bindings (ascending) < Sum. It does not decide the digest value.",
        "Trusts go/types+go/ssa as model of the source and the std contract of hash.Hash (Write does not retain, Sum(nil) is fresh). Value of the hash is out of reach (behavioural remainder).",
        "DESIGN.md section 4 C15",
    ),
}

CLAIMED["C19"] = (
    "interprocedural mod/ref + read-after-write hazard summaries over access paths (SSA, call graph), flow-sensitive per function",
    "For every exported arithmetic method z.Op(x,...) of field, tower, point, twisted-Edwards, polynomial and vector types (about 1400 methods per configuration) decides (i) no execution writes receiver memory and later reads an operand at an overlapping access path, except identity copies, and (ii) operands are never written. (i)+(ii) imply that the aliased call computes what the unaliased call computes, given the trusted base. Thorough re-decides it under the purego and arm64 build configurations.",
    "Trusted: assembly stubs (destination parameter by declared name, inputs loaded before the element is stored), math/big aliasing tolerance, go/ssa as model. Sub-object aliasing (operand pointing inside the receiver) is outside the property. Value correctness of the operations is not decided.",
    "DESIGN.md section 4 C19",
)
CLAIMED["C18"] = (
    "interprocedural mod/ref summaries (who may write which parameter / global), documented-destination table",
    "Decides for every exported function and method of the library packages (about 5300) that no pointer/slice/map parameter other than the receiver is written, directly or through callees, unless it is a documented destination listed with a reason. This is the structural necessary condition of 'calling again with the same argument objects returns the same result' and of read-only sharing between goroutines; it found MillerLoopFixedQ scaling the caller's lines (fixed).",
    "Trusted: assembly stubs write only their destination parameter, std-library summaries (table), VTA call graph for dynamic calls. Absence of data races in general and equality of results are not decided.",
    "DESIGN.md section 4 C18",
)

CLAIMED["C07"] = (
    "per-return GUARD (CFG reachability after deleting fact edges) on all point/GT decoders, definite-assignment and exposed-read analysis, who-may-call (strict parsers), error-discipline and raw-Read lints on the stream codec, parallel-validation protocol check, guarded-slicing prover",
    "Decides, for every point decoder of the 10 curves, the 8 twisted-Edwards packages and the 7 GT types: each accepting return is the zero-payload infinity branch or has every coordinate parsed strictly with the error tested and recovered coordinates backed by a checked square root; subgroup membership dominates acceptance when enabled; on-curve membership on every accepting return (17 known findings: raw decoding with NoSubgroupChecks); destinations fully written and never read first; no lenient parser; every codec error inspected and not overwritten in loops; no raw Read; the parallel phase of Decoder.Decode counts every failure and the counter is tested before accepting.",
    "Trusts IsInSubGroup/IsOnCurve/isZeroed as named (C02), go/ssa as model. Round-trip equality of values and the exact acceptance set beyond these facts are not decided.",
    "DESIGN.md section 4 C07",
)
CLAIMED["C08"] = (
    "GUARD on strict decoders, definite-assignment / exposed-read analysis of every Element setter, parallel-validation protocol of AsyncReadFrom, pool typestate, codec error lint",
    "Decides for the 23 field packages: ByteOrder.Element / SetBytesCanonical / Vector.ReadFrom accept only after the canonical comparison and exact-length facts; every setter (322 methods) writes the whole element on accept and never reads it first (so no limb of a previous value survives); AsyncReadFrom's worker counts non-canonical elements and the collector reports them before closing; pooled big.Int are defined before being read, not used after Put, not leaked.",
    "Trusts smallerThanModulus (constants checked in C01), math/big summaries. Value-level round trips and text formatting are not decided.",
    "DESIGN.md section 4 C08",
)
CLAIMED["C12"] = (
    "GUARD tables written from the schemes (flow-sensitive descriptions distinguish the r and s range checks), definite assignment, byte-count constant evaluation, raw-Read and error lints",
    "Decides for 8 EdDSA and 10 ECDSA packages: signature and key decoders accept only with exact length, separate 0 < component < modulus/order tests, parsed and on-curve points; Verify returns true only after a parsed signature and the final equalities (ECDSA: x reduced mod n compared with r; EdDSA: both coordinates, hFunc != nil, A on curve); destinations fully defined; reported byte counts equal consumed bytes; no raw Read; errors inspected.",
    "Trusts G1Affine.SetBytes / PointAffine.SetBytes (decided in C07) and std crypto contracts. 'Honest signatures verify' and agreement with an independent implementation are not decided.",
    "DESIGN.md section 4 C12",
)
CLAIMED["C14"] = (
    "guarded-slicing prover, GUARD tables, must-write comparison SetState vs Reset, slice provenance, lazy-init dominance over the call graph, registry/table agreement by constant evaluation of declarations",
    "Decides: Write/SetState/Compress/SIS.Hash never slice the caller's bytes beyond proven bounds and accept only canonical, well-sized input; SetState redefines everything Reset redefines; MiMC Sum/State are fresh and Write/SetState do not retain; round constants are read only after once.Do; every hash.Hash constant is registered once in the matching package, digestSize equals the registered hasher's digest size, String() and hash/all cover all; BlockSize equals the length Compress requires.",
    "Equality with the Miyaguchi-Preneel / Poseidon2 / SIS definitions is not decided (value level). The Merkle-Damgard wrapper's Sum(b) absorbing b and exposing its state slice is noted in DESIGN.md, not claimed.",
    "DESIGN.md section 4 C14",
)

CLAIMED["C11"] = (
    "GUARD tables with provenance-described arguments, binding completeness of the Fiat-Shamir challenge, backward data-flow slice (every input influences the pairing check), mod/ref summaries",
    "Decides for the 7 KZG packages: size refusals of Commit/Open/BatchOpen; Verify accepts only on the success edge of the pairing check whose arguments depend on commitment, quotient, claimed value, point and key; batch verification = fold then verify with the length agreements; gamma binds point, every digest, every claimed value and the extra data; no entry point writes its arguments (keys reusable); the ceremony verifier checks sizes, subgroups, the update proof and the same-ratio relation on the contribution being verified (found and fixed: it was applied to the previous setup).",
    "Trusts the pairing (C05), the transcript (C15), the codec (C07). Completeness/soundness as algebra are not decided.",
    "DESIGN.md section 4 C11",
)
CLAIMED["C16"] = (
    "GUARD tables, guarded-indexing prover, call/store order rule, parallel write-partition rule",
    "Decides: VerifyProof returns true only through the final root comparison after root != nil and index < numLeaves, and never indexes the proof set beyond its length; the vortex proof verifier and Open accept only positions in [0, 2^depth) (found and fixed) and compare with the root; Push/PushSubTree advance the leaf index only after the join that consumes it; the parallel level build writes only its own index range.",
    "Collision resistance and equality of the root with the recursive tree hash are value-level: not decided.",
    "DESIGN.md section 4 C16",
)
CLAIMED["C17"] = (
    "GUARD tables written from the scheme definitions (one per verifier, 85 functions), binding completeness, type-switch arm agreement, guarded indexing",
    "Decides for Pedersen, SHPLONK, fflonk, permutation, plookup, FRI, Vortex and the ceremony update proofs that every check the scheme prescribes dominates every accepting return, with arguments identified by provenance (which input each check is applied to); that each challenge binds the listed data; that count/collect type switches agree. Found and fixed: Vortex never compared opened columns with the linear combination; the KZG ceremony checked the wrong setup.",
    "Sufficiency of the listed checks (soundness proper) and honest-proof completeness are not decided.",
    "DESIGN.md section 4 C17",
)

CLAIMED["C04"] = (
    "GUARD tables, symbolic channel-capacity accounting (capacity term = trip-count bound of every pushing loop), acquire/release/send counting per path under both values of the nil-semaphore predicate, goroutine join reachability, mod/ref",
    "Decides for the 16 MSM instances: MultiExp refuses mismatched lengths and task counts above 1024; the token channel of _innerMsm has capacity equal to the sum of the bounds of the loops that push tokens (so neither the dispatcher nor a worker can block on a send whatever the chunk statistics) - the condition for termination under every schedule; every chunk processor receives and returns the token exactly once and sends exactly one result, release before send; the recursive split is awaited; points and scalars are never written.",
    "The value of the sum, bucket arithmetic and digit recoding are value-level: not decided.",
    "DESIGN.md section 4 C04",
)
CLAIMED["C05"] = (
    "GUARD tables, call-structure data flow (which call's result is returned), guard-at-instruction (filter), mod/ref",
    "Decides for the 7 pairing curves: size mismatches are errors in both Miller loops; Pair = FinalExponentiation of MillerLoop and PairingCheck = comparison of Pair with one (same for the fixed-argument variants), so the variants share one pipeline; pairs are kept only when neither member is infinite; no entry point writes its point lists or precomputed lines (found and fixed: MillerLoopFixedQ scaled the caller's lines).",
    "Bilinearity, non-degeneracy and equality of the two Miller loops as values are not decided.",
    "DESIGN.md section 4 C05",
)
CLAIMED["C09"] = (
    "cross-configuration loading (amd64 default, purego; thorough: arm64) with sibling discovery, predicate evaluation of entry decision lists over a finite set of length orderings x CPU-flag values, callee-set comparison",
    "Decides for every function whose body differs between build configurations (116 pairs quick, 240 thorough): identical signatures; for the 80 with slice inputs, identical panic-or-not behaviour for every assignment of representative lengths and every value of the CPU feature flags (explicit panics, &s[0], s[a:], inlined generic helpers); functions branching on a CPU flag call every generic helper their purego sibling calls. Found and fixed: Vector.Add/Sub/InnerProduct on empty or mismatched vectors.",
    "Assembly is a trusted base: bit-equality of assembly and Go results is not decided.",
    "DESIGN.md section 4 C09",
)
CLAIMED["C10"] = (
    "GUARD on the domain codec, mod/ref (domain read-only), interprocedural write-partition rule for parallel closures, goroutine join path rule, switch exhaustiveness on the AST",
    "Decides for the 10 FFT packages: Domain.ReadFrom accepts only fully read, canonical data (any reader chunking) and WriteTo tests every write; FFT/FFTInverse never write the domain; every parallel closure writes only its own index range (also through forwarded range helpers); spawned recursive halves are awaited on every path and close their done channel by defer; the decimation switch is exhaustive with a panicking default.",
    "The linear map computed, twiddle values and unrolled kernels are value-level: not decided (a wrong scaling factor in one option combination is out of reach).",
    "DESIGN.md section 4 C10",
)
CLAIMED["C13"] = (
    "GUARD tables, guarded-slicing prover on the output buffer, must-pass-through (dominance) for cofactor clearing and isogeny, raw-limb discipline (Montgomery limbs are not numbers)",
    "Decides: ExpandMsgXmd errors on negative/oversized requests and oversized tags, hashes msg, length, dst and dst length with every write tested, and never slices its caller-sized buffer out of bounds (found and fixed: outputs shorter than 32 bytes panicked); every field's Hash delegates with count*L; every EncodeTo/HashTo/MapTo of a group with a cofactor passes through ClearCofactor before returning and through the isogeny first on SSWU curves; outside the field packages no Montgomery-form limb is used as a number (sgn0 must read Bits()).",
    "RFC 9380 vectors, the map formulas and subgroup membership of the values are not decided.",
    "DESIGN.md section 4 C13",
)
CLAIMED["C20"] = (
    "abstract interpretation of (basis, layout) typestate on the AST with the fft contract as transfer table, degenerate-operand lint, clone field completeness, index-normalisation idiom",
    "Decides for the 7 iop packages: every arm of the five conversion methods, from each form it lists, applies FFT/FFTInverse/BitReverse calls whose preconditions hold and ends in the form it records (224 arm x form obligations); no arithmetic on a never-assigned local element (found and fixed: Evaluate for shifts > 5); Clone/ShallowClone define every field; GetCoeff reduces its position into [0,n) (found and fixed: negative shifts).",
    "Evaluation values, barycentric formula, ratio builders, multilinear folding are value-level: not decided.",
    "DESIGN.md section 4 C20",
)

CLAIMED["C01"] = (
    "constant agreement by evaluating the declarations with big integers (no repository code run), GUARD on special-case branches, SIBLING agreement between the 23 instances of the field template",
    "Decides for the 23 field packages the structural part of 'field arithmetic is exact': the baked constants agree with each other (modulus limbs = hex modulus of init, q odd, qInvNeg*q = -1 mod 2^w, rSquare = 2^(2wN) mod q, SetOne stores 2^(wN) mod q, Bits/Bytes, qElement, the (q-1)/2+1 threshold of LexicographicallyLargest, smallerThanModulus compares limb i with q_i); Neg has its zero branch, Exp inverts the base exactly under the negative-exponent test, Sqrt has a nil return; the integer whose bits drive Exp is the exponent parameter or its negation; every function of a field package agrees with the same function in the sibling packages of equal limb count in the module operations it reaches, the objects it writes and the checks that dominate each operation (summaries that a behaviour-preserving restructuring leaves unchanged), except template variants listed with a reason.",
    "The carry chains, Montgomery reduction, the inversion algorithm and the assembly kernels are NOT decided to compute the field operations: a change made consistently in the template (all siblings) that keeps calls and constants is out of reach. Sibling agreement is a necessary condition only in the sense that the instances are generated from one template; it does not see a change of operands or constants inside one instance.",
    "DESIGN.md section 4 C01",
)
CLAIMED["C02"] = (
    "GUARD (accept-dominance) on membership / equality predicates, dispatch facts at the doubling hand-over, definite-assignment + exposed-read analysis of every fluent point operation, SIBLING agreement between the 17 groups and 8 twisted-Edwards instances",
    "Decides for all groups: IsInSubGroup accepts only after the on-curve test and, for groups with a cofactor, the order-killing test; Jacobian Equal accepts only both-infinite or neither-infinite-and-scaled-equal; every addition routine reaches the generic formula only after both infinity tests and hands over to doubling exactly under equality tests on computed (scaled) coordinates; every operation returning its receiver defines all coordinates on every return and, unless documented in-place, never reads the receiver's old coordinates (found and fixed: stark-curve doubleMixed used the destination's old ZZ); instances agree with their siblings.",
    "That the straight-line formulas compute the chord-and-tangent / Edwards law is value-level and not decided.",
    "DESIGN.md section 4 C02",
)
CLAIMED["C03"] = (
    "L-ABS sign discipline over math/big magnitude accessors (with call-graph hoisting for unexported helpers), L-SCAN backward slice of scan-loop start indices, definite assignment, accumulator initialisation, SIBLING agreement",
    "Decides for every scalar-multiplication routine of the curve, twisted-Edwards and ecc packages: a routine that scans |s| consults the sign of s or scans a value derived from one whose sign was consulted (found and fixed: stark-curve mulWindowed ignored the sign); a descending scan loop over several sub-scalars starts from an index computed from every one of them; the accumulator starts at the neutral element; entry points fully define their receiver; the 17 instances agree.",
    "[s]P = repeated addition, the lattice decomposition and digit recoding are value-level: not decided.",
    "DESIGN.md section 4 C03",
)
CLAIMED["C06"] = (
    "L-ABS / L-SCAN on exponentiations, belief-contradiction lint (operand known to vanish), guarded-divisor rule on Karabina decompression, definite assignment + exposed reads of every tower operation, SIBLING agreement between tower instances",
    "Decides for the fptower and small-field extension packages: exponentiations handle the exponent's sign and scan all sub-exponents; no product uses an operand known to be zero on that branch and the coordinate selecting Karabina's fallback formula feeds the divisor of the other branch (found and fixed: E12.DecompressKarabina tested g5 instead of g3, failing inputs in /verif/findings/karabina); every operation returning its receiver defines it completely (documented partial operations listed) and, unless in-place, does not read its old value; instances of one template agree.",
    "That the products, squarings, Frobenius tables and assembly kernels compute the ring operations of the documented quotient rings is value-level and not decided.",
    "DESIGN.md section 4 C06",
)

SHARED = {
    "C01": "constant conditions, narrow-before-reduce",
    "C02": "constant conditions",
    "C03": "constant conditions, argument roles",
    "C04": "constant conditions, co-indexed lengths / tiling, range offset, chunk remainder",
    "C05": "constant conditions, argument roles",
    "C06": "constant conditions, zero-known operand",
    "C07": "constant conditions, zero-known operand, stale capacity",
    "C08": "constant conditions, narrow-before-reduce",
    "C09": "constant conditions, element alias, narrow-before-reduce",
    "C10": "constant conditions, co-indexed lengths / tiling, range offset, chunk remainder, shared field storage",
    "C11": "constant conditions, co-indexed lengths / tiling, range offset",
    "C12": "constant conditions",
    "C13": "constant conditions, narrow-before-reduce",
    "C14": "co-indexed lengths, shared field storage, narrow-before-reduce",
    "C16": "constant conditions, co-indexed lengths, range offset",
    "C17": "constant conditions, co-indexed lengths, range offset, chunk remainder",
    "C18": "stale capacity, cache publication",
    "C19": "element alias",
    "C20": "constant conditions, co-indexed lengths, stale capacity",
}

NOT_YET = "check not built yet in this revision of /verif (see DESIGN.md section 4 for the planned structural clauses); the value-level core is not decidable by static analysis"

def main():
    checks = []
    for pid in ALL:
        if pid not in CLAIMED:
            continue
        tech, text, note, ref = CLAIMED[pid]
        if pid in SHARED:
            extra = SHARED[pid]
            if pid not in ("C18", "C19"):
                extra += ", ignored observations, error propagation, rotation without temporary, dead accumulators"
            tech += "; shared necessary-condition lints over the property's packages: " + extra + " (DESIGN.md 3.6)"
        checks.append({
            "property_id": pid,
            "quick_cmd": "./check.sh %s quick" % pid,
            "thorough_cmd": "./check.sh %s thorough" % pid,
            "evidence_file": "/verif/evidence/%s.json" % pid,
            "replay_cmd_template": "bin/gcverif -explain {path}",
            "engine": "gcverif",
            "level_claimed": {"category": "other", "text": text, "design_ref": ref},
            "level_note": note,
            "technique": "static analysis: " + tech,
        })
    na = []
    reasons = json.load(open("/verif/not_applicable.json"))
    for pid in ALL:
        if pid in CLAIMED:
            continue
        na.append({"property_id": pid, "reason": reasons.get(pid, NOT_YET)})
    m = {
        "version": 1,
        "setup_cmd": "./setup.sh",
        "hooks": {
            "guard": "verif",
            "enable": "none needed: the checker reads /repo's source (go/packages), nothing is instrumented",
            "baseline_off_cmd": "cd /repo && go build ./... && go test -vet=off -count=1 -timeout 25m ./...",
            "source_commits": [],
            "add_only": True,
        },
        "engines": [{
            "name": "gcverif",
            "path": "/verif/checker",
            "serves_properties": sorted(CLAIMED),
            "kind_free_text": "repository-specific static analyser on go/packages + go/ssa + VTA call graph (x/tools v0.29.0): GUARD (accept-dominance with callee outcome facts), EFFECTS (mod/ref, alias hazards), DEFASSIGN, PARITY (build-tag siblings), SIBLING (operations/effects/guards agreement), inlined-view order rules, small dataflow lints",
        }],
        "checks": checks,
        "not_applicable": na,
        "notes": "Technique family: static analysis only; no repository code is executed by any check. Known findings: /verif/known_findings.json. Seeded mutants: /verif/seeded/. Rules were also exercised against 320 behaviour-preserving edits and 240 property-preserving feature commits (DESIGN.md 7.3).",
    }
    json.dump(m, open("/verif/MANIFEST.json", "w"), indent=1)
    # validate
    try:
        import jsonschema
        jsonschema.validate(m, json.load(open("/root/.vp/MANIFEST.schema.json")))
        print("MANIFEST.json valid;", len(checks), "checks,", len(na), "not_applicable")
    except ImportError:
        print("jsonschema missing; written without validation")

if __name__ == "__main__":
    main()
