#!/bin/bash
# usage: runall.sh [quick|thorough]  — runs every registered property check, prints one summary line each
cd "$(dirname "$0")" || exit 2
tier=${1:-quick}
rc=0
for i in $(seq -w 1 20); do
  out=$(./check.sh C$i $tier 2>&1); e=$?
  echo "$out" | grep "^== C$i:" || echo "== C$i: exit=$e (no summary)"
  if [ $e -ne 0 ]; then rc=1; echo "$out" | grep -v "^rule\|^    key" | head -8 | cut -c1-300; fi
done
exit $rc
