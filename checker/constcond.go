package main

// CONSTANT CONDITION (belief contradiction, Engler et al.): a branch condition whose outcome is
// fixed by what the function has already established has a dead arm — and a dead arm in arithmetic
// code is a special case that is never taken (the zero operand, the longer of two scalars).
//
//   (1) a comparison of two values that are the same observation of the same unchanged object:
//       `m := k1.BitLen(); if k1.BitLen() > m` — never true;
//   (2) an observer P(x) tested where a dominating branch has already fixed P(x) on the unchanged
//       x, or has established Q(x) for an observer Q that excludes P (IsOne excludes IsZero):
//       `if !t.IsOne() { return nil }; if t.IsZero() { ... }` — the second arm is unreachable.
//
// "Observer": a method from a closed list of read-only predicates / measures of this library and
// of math/big. "Unchanged": no store to the object and no call that may write it (mod summaries;
// unresolved callees count as writers) on any path between the two observations.

import (
	"fmt"
	"go/token"
	"go/types"
	"strings"

	"golang.org/x/tools/go/ssa"
)

var observerNames = map[string]bool{
	"BitLen": true, "Sign": true, "IsZero": true, "IsOne": true, "IsInfinity": true, "IsUint64": true,
	"IsInt64": true, "Uint64": true, "Int64": true, "LexicographicallyLargest": true, "Legendre": true,
	"Cmp": true, "CmpAbs": true, "Equal": true, "Bit": true, "IsOnCurve": true, "IsInSubGroup": true,
}

// exclusive observers: at most one of them holds for a value
var exclusiveObservers = map[string]bool{"IsZero": true, "IsOne": true}

type observation struct {
	call *ssa.Call
	name string
	args []ssa.Value // receiver first
}

func observationOf(v ssa.Value) *observation {
	c, ok := v.(*ssa.Call)
	if !ok {
		return nil
	}
	if b, ok := c.Call.Value.(*ssa.Builtin); ok {
		if b.Name() == "len" {
			return &observation{c, "len", c.Call.Args}
		}
		return nil
	}
	if c.Call.IsInvoke() {
		return nil
	}
	cal := c.Call.StaticCallee()
	if cal == nil || cal.Signature.Recv() == nil || !observerNames[cal.Name()] {
		return nil
	}
	return &observation{c, types.TypeString(derefType(cal.Signature.Recv().Type()), func(*types.Package) string { return "" }) + "." + cal.Name(), c.Call.Args}
}

// sameObject: the two address / value operands denote the same object.
func sameObject(a, b ssa.Value) bool {
	if a == b {
		return true
	}
	fa, ok1 := a.(*ssa.FieldAddr)
	fb, ok2 := b.(*ssa.FieldAddr)
	if ok1 && ok2 && fa.Field == fb.Field {
		return sameObject(fa.X, fb.X)
	}
	ia, ok1 := a.(*ssa.IndexAddr)
	ib, ok2 := b.(*ssa.IndexAddr)
	if ok1 && ok2 {
		return sameObject(ia.X, ib.X) && sameValue(ia.Index, ib.Index, 0)
	}
	if ka, ok := constInt(a); ok {
		if kb, ok := constInt(b); ok {
			return ka == kb
		}
	}
	return false
}

func addrBase(v ssa.Value) ssa.Value {
	for {
		switch x := v.(type) {
		case *ssa.FieldAddr:
			v = x.X
		case *ssa.IndexAddr:
			v = x.X
		default:
			return v
		}
	}
}

// unchangedBetween: no instruction that may execute after `from` and before `to` writes the object
// behind obj.
func unchangedBetween(fn *ssa.Function, obj ssa.Value, from, to ssa.Instruction) bool {
	if _, isPtr := obj.Type().Underlying().(*types.Pointer); !isPtr {
		if _, isSlice := obj.Type().Underlying().(*types.Slice); !isSlice {
			return true // a value: immutable in SSA
		}
	}
	base := addrBase(obj)
	switch base.(type) {
	case *ssa.Alloc, *ssa.Parameter, *ssa.FreeVar:
	default:
		// a loaded pointer, a call result: identity is not tracked
		if _, isCall := base.(*ssa.Call); !isCall {
			return false
		}
	}
	for _, b := range fn.Blocks {
		for _, in := range b.Instrs {
			if in == from || in == to {
				continue
			}
			touches := false
			switch x := in.(type) {
			case *ssa.Store:
				touches = addrBase(x.Addr) == base
			case ssa.CallInstruction:
				if ob := observationOf(callValue(x)); ob != nil {
					continue
				}
				com := x.Common()
				for _, a := range com.Args {
					if addrBase(a) == base && (com.IsInvoke() || callMayWriteArg(fn, x, a)) {
						touches = true
					}
				}
				if com.IsInvoke() && addrBase(com.Value) == base {
					touches = true
				}
				// closures capturing the object
				if mc, ok := com.Value.(*ssa.MakeClosure); ok {
					for _, bnd := range mc.Bindings {
						if addrBase(bnd) == base {
							touches = true
						}
					}
				}
			case *ssa.MakeClosure:
				for _, bnd := range x.Bindings {
					if addrBase(bnd) == base {
						touches = true
					}
				}
			}
			if touches && instrMayPrecede(fn, from, in) && instrMayPrecede(fn, in, to) {
				return false
			}
		}
	}
	return true
}

func callValue(ci ssa.CallInstruction) ssa.Value {
	if c, ok := ci.(*ssa.Call); ok {
		return c
	}
	return nil
}

func sameObservation(fn *ssa.Function, a, b *observation) bool {
	if a == nil || b == nil || a.name != b.name || len(a.args) != len(b.args) {
		return false
	}
	if a.call == b.call {
		return true
	}
	for i := range a.args {
		if !sameObject(a.args[i], b.args[i]) {
			return false
		}
	}
	first, second := a.call, b.call
	if !instrMayPrecede(fn, first, second) || (instrMayPrecede(fn, second, first) && !first.Block().Dominates(second.Block())) {
		first, second = second, first
	}
	if !first.Block().Dominates(second.Block()) {
		return false
	}
	for _, arg := range a.args {
		if !unchangedBetween(fn, arg, first, second) {
			return false
		}
	}
	return true
}

// constantConditions: see the comment at the top of the file.
func constantConditions(p *Program, fn *ssa.Function) (int, []Finding) {
	n := 0
	var hits []Finding
	for _, b := range fn.Blocks {
		if len(b.Instrs) == 0 {
			continue
		}
		iff, ok := b.Instrs[len(b.Instrs)-1].(*ssa.If)
		if !ok {
			continue
		}
		a := atomOf(iff.Cond)
		switch a.Kind {
		case "cmp":
			ox, oy := observationOf(stripWidening(a.X)), observationOf(stripWidening(a.Y))
			if ox == nil || oy == nil || ox.call == oy.call {
				continue
			}
			n++
			if sameObservation(fn, ox, oy) {
				outcome := "always true"
				deadSucc := 1
				if a.Op == token.LSS || a.Op == token.GTR || a.Op == token.NEQ {
					outcome = "never true"
					deadSucc = 0
				}
				if !armIsDead(b, deadSucc) {
					continue // the code behind the dead edge is reachable another way (a merged condition): nothing is lost
				}
				hits = append(hits, Finding{fn, iff.Cond.Pos(), "constant-condition(" + descValue(iff.Cond, 0) + ")",
					fmt.Sprintf("%s: the condition compares %s with the same observation of the same unchanged object: it is %s, so one arm is dead — the comparison was meant for another operand", funcKey(fn), ox.name, outcome)})
			}
		case "call":
			ob := observationOf(a.Call)
			if ob == nil || len(ob.args) != 1 {
				continue
			}
			n++
			// facts on the dominating edges
			for d := b; d != nil; d = d.Idom() {
				id := d.Idom()
				if id == nil {
					break
				}
				piff, ok := id.Instrs[len(id.Instrs)-1].(*ssa.If)
				if !ok || len(d.Preds) != 1 {
					continue
				}
				pa := atomOf(piff.Cond)
				if pa.Kind != "call" {
					continue
				}
				pob := observationOf(pa.Call)
				if pob == nil || len(pob.args) != 1 {
					continue
				}
				holds := !pa.Neg
				if id.Succs[1] == d {
					holds = !holds
				}
				if id.Succs[0] == id.Succs[1] {
					continue
				}
				if !sameObject(pob.args[0], ob.args[0]) {
					continue
				}
				known := ""
				value := false // what the tested call returns
				if pob.name == ob.name {
					known = fmt.Sprintf("%s has already returned %v for this object on every path to here", ob.name, holds)
					value = holds
				} else if holds && exclusiveObservers[pob.call.Call.StaticCallee().Name()] && exclusiveObservers[ob.call.Call.StaticCallee().Name()] &&
					types.Identical(pob.call.Call.StaticCallee().Signature.Recv().Type(), ob.call.Call.StaticCallee().Signature.Recv().Type()) {
					known = fmt.Sprintf("%s returned true for this object on every path to here, which excludes %s", pob.name, ob.name)
				}
				if known == "" {
					continue
				}
				if !pob.call.Block().Dominates(ob.call.Block()) || !unchangedBetween(fn, ob.args[0], pob.call, ob.call) {
					continue
				}
				// the edge taken when the condition is true is dead iff the call returns false (xor the negation)
				condTrue := value != a.Neg
				deadSucc := 0
				if condTrue {
					deadSucc = 1
				}
				if !armIsDead(b, deadSucc) {
					continue
				}
				hits = append(hits, Finding{fn, iff.Cond.Pos(), "constant-condition(" + descValue(iff.Cond, 0) + ")",
					fmt.Sprintf("%s: %s: the condition is constant and one arm is dead — a special case that can never be taken, or a test on the wrong operand", funcKey(fn), known)})
				break
			}
		}
	}
	return n, hits
}

// ignoredObservations: the result of an observer (a read-only predicate or measure) is used. A call
// whose only purpose is its result and whose result is dropped is a check that was prepared and
// lost (`p.IsInSubGroup()` on a line of its own).
func ignoredObservations(p *Program, fn *ssa.Function) (int, []Finding) {
	n := 0
	var hits []Finding
	for _, b := range fn.Blocks {
		for _, in := range b.Instrs {
			call, ok := in.(*ssa.Call)
			if !ok {
				continue
			}
			ob := observationOf(call)
			if ob == nil || ob.name == "len" {
				continue
			}
			n++
			used := false
			if call.Referrers() != nil {
				for _, r := range *call.Referrers() {
					if _, isDbg := r.(*ssa.DebugRef); !isDbg {
						used = true
					}
				}
			}
			if !used {
				hits = append(hits, Finding{fn, call.Pos(), "observation-used(" + ob.name + ")",
					fmt.Sprintf("%s: the result of %s is dropped: the call has no effect, a test was prepared and lost", funcKey(fn), ob.name)})
			}
		}
	}
	return n, hits
}

func constCondLint(c *Ctx, p *Program, pkgPats ...string) {
	rule := c.Prop + ".constcond"
	n := 0
	var hits []Finding
	registerScanProgram(p)
	for _, fn := range libFuncs(p, pkgPats...) {
		k, h := constantConditions(p, fn)
		n += k
		hits = append(hits, h...)
		k, h = ignoredObservations(p, fn)
		n += k
		hits = append(hits, h...)
		k, h = lowWordTests(p, fn)
		n += k
		hits = append(hits, h...)
	}
	if n == 0 {
		return // the property's packages test no observer: nothing to claim
	}
	c.Rule(rule, "CONSTANT CONDITION (belief contradiction): no branch tests an observer (IsZero, IsOne, BitLen, Sign, Cmp, len, ...) whose outcome is already fixed on every path to it — the same observation of the same unchanged object compared with itself, a predicate repeated on an unchanged object, IsZero after IsOne held. One arm of such a branch is dead: the special case it was written for is never taken. And the result of every observer call is used (a predicate called on a line of its own is a test that was lost). A *big.Int is not tested through x.Uint64() / x.Int64() compared with a constant unless IsUint64 / IsInt64 / BitLen / Sign / Cmp of the same object was tested on the way (the low word of a multiple of 2^64 is zero)", 0)
	c.Instance(rule, n)
	reportFindings(c, p, rule, nil, hits, "")
	c.Ob(rule, "-", "-", "observer-conditions-scanned", "-", true, "")
}

// stripWidening removes integer conversions that cannot change the value (same or larger size,
// same signedness or unsigned to larger signed).
func stripWidening(v ssa.Value) ssa.Value {
	for {
		cv, ok := v.(*ssa.Convert)
		if !ok {
			return v
		}
		from, ok1 := cv.X.Type().Underlying().(*types.Basic)
		to, ok2 := cv.Type().Underlying().(*types.Basic)
		if !ok1 || !ok2 || from.Info()&types.IsInteger == 0 || to.Info()&types.IsInteger == 0 {
			return v
		}
		sz := func(b *types.Basic) int {
			switch b.Kind() {
			case types.Int8, types.Uint8:
				return 8
			case types.Int16, types.Uint16:
				return 16
			case types.Int32, types.Uint32:
				return 32
			}
			return 64
		}
		fu, tu := from.Info()&types.IsUnsigned != 0, to.Info()&types.IsUnsigned != 0
		if sz(to) < sz(from) || (fu != tu && !(fu && sz(to) > sz(from))) {
			// int -> uint of the same size keeps len() values; allow non-negative sources only
			if !(sz(to) >= sz(from) && isLenCall(cv.X)) {
				return v
			}
		}
		v = cv.X
	}
}

func isLenCall(v ssa.Value) bool {
	c, ok := v.(*ssa.Call)
	if !ok {
		return false
	}
	b, ok := c.Call.Value.(*ssa.Builtin)
	return ok && b.Name() == "len"
}

// armIsDead: the successor #k of block b can only be entered through that edge (so that a dead
// edge makes the code behind it unreachable). With `A || B` conditions the shared target has other
// predecessors and stays live.
func armIsDead(b *ssa.BasicBlock, k int) bool {
	if k >= len(b.Succs) {
		return false
	}
	t := b.Succs[k]
	if len(t.Preds) != 1 {
		return false
	}
	// a defensive re-check (the arm only panics or returns an error built on the spot) loses
	// nothing when it is dead: the arm must do work — call into the module or store to memory
	work := false
	for _, in := range t.Instrs {
		switch x := in.(type) {
		case *ssa.Store:
			work = true
		case ssa.CallInstruction:
			if cal := x.Common().StaticCallee(); cal != nil && strings.HasPrefix(fnPkgPath(cal), modPath) {
				work = true
			}
		}
	}
	if !work {
		return false
	}
	// an empty forwarding block whose target has other predecessors is not an arm
	if len(t.Instrs) == 1 {
		if _, isJump := t.Instrs[0].(*ssa.Jump); isJump && len(t.Succs) == 1 && len(t.Succs[0].Preds) > 1 {
			// the join is reached anyway; a dead edge into it loses a phi value at most
			for _, in := range t.Succs[0].Instrs {
				if _, isPhi := in.(*ssa.Phi); isPhi {
					return true
				}
			}
			return false
		}
	}
	return true
}

// swallowedErrors: on the branch where a callee's error is known to be non-nil, a function that
// itself returns an error does not return a nil error (the failure would be reported as success).
func swallowedErrors(p *Program, fn *ssa.Function) (int, []Finding) {
	res := fn.Signature.Results()
	ei := -1
	for i := 0; i < res.Len(); i++ {
		if isErrorType(res.At(i).Type()) {
			ei = i
		}
	}
	if ei < 0 {
		return 0, nil
	}
	n := 0
	var hits []Finding
	for _, b := range fn.Blocks {
		if len(b.Instrs) == 0 {
			continue
		}
		iff, ok := b.Instrs[len(b.Instrs)-1].(*ssa.If)
		if !ok {
			continue
		}
		a := atomOf(iff.Cond)
		if a.Kind != "nilcmp" || !isErrorType(a.X.Type()) {
			continue
		}
		// the value is the error result of a call (not a parameter or a sentinel comparison)
		src := a.X
		if ex, ok := src.(*ssa.Extract); ok {
			src = ex.Tuple
		}
		if _, isCall := src.(*ssa.Call); !isCall {
			continue
		}
		n++
		// successor on which err != nil
		k := 1
		if a.Neg {
			k = 0
		}
		t := b.Succs[k]
		if len(t.Preds) != 1 {
			continue
		}
		ret, ok := t.Instrs[len(t.Instrs)-1].(*ssa.Return)
		if !ok || ei >= len(ret.Results) {
			continue
		}
		if isNilConst(ret.Results[ei]) {
			if reason, ok := swallowExceptions[fn.Name()+"|"+descValue(a.X, 0)]; ok && reason != "" {
				continue
			}
			hits = append(hits, Finding{fn, ret.Pos(), "error-propagated(" + descValue(a.X, 0) + ")",
				fmt.Sprintf("%s: on the branch where %s is non-nil the function returns a nil error: the failure is reported as success", funcKey(fn), descValue(a.X, 0))})
		}
	}
	return n, hits
}

// swallowExceptions: (function | error value) pairs where returning nil on the error branch is not a
// lost failure, with the reason (confirmed by reading).
var swallowExceptions = map[string]string{
	"NewSRS|Generator(4)#1": "kzg.NewSRS, benchmark shortcut for alpha = -1: fr.Generator(4) fails only for fields of 2-adicity < 2; every fr of the library has 2-adicity >= 28 (checked by C01.const against the generator tables), so the branch is unreachable",
}

// rotatedWithoutTemp (the broken swap): `o.f = g(o.h); o.h = g'(o.f)` — the second statement reads
// the field the first has just overwritten, so both fields end up as functions of the old o.h and
// the old o.f is lost. Recognised for fluent calls (destination receiver &o.f, operand &o.h) and
// for plain assignments, when the two statements follow each other in one block with no other
// access to o.f in between.
func rotatedWithoutTemp(p *Program, fn *ssa.Function) (int, []Finding) {
	type wr struct {
		in   ssa.Instruction
		dst  *ssa.FieldAddr
		srcs []*ssa.FieldAddr
	}
	asFA := func(v ssa.Value) *ssa.FieldAddr {
		if u, ok := v.(*ssa.UnOp); ok && u.Op == token.MUL {
			v = u.X
		}
		fa, _ := v.(*ssa.FieldAddr)
		return fa
	}
	n := 0
	var hits []Finding
	for _, b := range fn.Blocks {
		var ws []wr
		for _, in := range b.Instrs {
			switch x := in.(type) {
			case *ssa.Call:
				cal := x.Call.StaticCallee()
				if cal == nil || cal.Signature.Recv() == nil || len(x.Call.Args) < 2 {
					continue
				}
				dst := asFA(x.Call.Args[0])
				if dst == nil {
					continue
				}
				// fluent: the callee returns its receiver type and writes it
				if !types.Identical(x.Type(), x.Call.Args[0].Type()) {
					continue
				}
				w := wr{in: in, dst: dst}
				for _, a := range x.Call.Args[1:] {
					if fa := asFA(a); fa != nil {
						w.srcs = append(w.srcs, fa)
					}
				}
				ws = append(ws, w)
			case *ssa.Store:
				dst := asFA(x.Addr)
				if dst == nil {
					continue
				}
				w := wr{in: in, dst: dst}
				if fa := asFA(x.Val); fa != nil {
					w.srcs = append(w.srcs, fa)
				}
				ws = append(ws, w)
			}
		}
		for i := 0; i+1 < len(ws); i++ {
			a, c := ws[i], ws[i+1]
			n++
			sameField := func(x, y *ssa.FieldAddr) bool { return x.Field == y.Field && sameObject(x.X, y.X) }
			if sameField(a.dst, c.dst) {
				continue
			}
			// a: o.f <- ... o.h ...   (not reading o.f itself)
			readsH, readsF := false, false
			for _, s := range a.srcs {
				if sameField(s, c.dst) {
					readsH = true
				}
				if sameField(s, a.dst) {
					readsF = true
				}
			}
			if !readsH || readsF {
				continue
			}
			// c: o.h <- o.f only
			if len(c.srcs) != 1 || !sameField(c.srcs[0], a.dst) {
				continue
			}
			hits = append(hits, Finding{fn, c.in.Pos(), "rotation-through-temporary(" + fieldName(a.dst.X.Type(), a.dst.Field) + "," + fieldName(c.dst.X.Type(), c.dst.Field) + ")",
				fmt.Sprintf("%s: %s is computed from %s and then %s is set from the new %s: the previous %s is overwritten before it is copied (a swap / rotation written without a temporary)",
					funcKey(fn), fieldName(a.dst.X.Type(), a.dst.Field), fieldName(c.dst.X.Type(), c.dst.Field), fieldName(c.dst.X.Type(), c.dst.Field), fieldName(a.dst.X.Type(), a.dst.Field), fieldName(a.dst.X.Type(), a.dst.Field))})
		}
	}
	return n, hits
}

// lowWordTests: a branch that tests a *big.Int through x.Uint64() / x.Int64() compared with a
// constant looks at the low word only: unless x.IsUint64() / x.IsInt64() (or a BitLen / Sign /
// Cmp test of the same object) holds on the way, every multiple of 2^64 passes for zero.
func lowWordTests(p *Program, fn *ssa.Function) (int, []Finding) {
	n := 0
	var hits []Finding
	for _, b := range fn.Blocks {
		if len(b.Instrs) == 0 {
			continue
		}
		iff, ok := b.Instrs[len(b.Instrs)-1].(*ssa.If)
		if !ok {
			continue
		}
		a := atomOf(iff.Cond)
		if a.Kind != "cmp" {
			continue
		}
		var call *ssa.Call
		for _, side := range []ssa.Value{a.X, a.Y} {
			if c, ok := stripConv(side).(*ssa.Call); ok && !c.Call.IsInvoke() {
				if cl := calleeOf(&c.Call); cl.Pkg == "math/big" && cl.Recv == "Int" && (cl.Name == "Uint64" || cl.Name == "Int64") && len(c.Call.Args) == 1 {
					call = c
				}
			}
		}
		if call == nil {
			continue
		}
		if _, isConst := constInt(a.X); !isConst {
			if _, isConst := constInt(a.Y); !isConst {
				continue
			}
		}
		n++
		obj := call.Call.Args[0]
		guarded := false
		for d := b; d != nil && !guarded; d = d.Idom() {
			id := d.Idom()
			if id == nil {
				break
			}
			piff, ok := id.Instrs[len(id.Instrs)-1].(*ssa.If)
			if !ok || len(d.Preds) != 1 {
				continue
			}
			// any observation of the same object on the way (IsUint64, IsInt64, BitLen, Sign, Cmp)
			var obs []*ssa.Call
			pa := atomOf(piff.Cond)
			if pa.Kind == "call" {
				obs = append(obs, pa.Call)
			} else if pa.Kind == "cmp" {
				for _, side := range []ssa.Value{pa.X, pa.Y} {
					if c, ok := stripConv(side).(*ssa.Call); ok {
						obs = append(obs, c)
					}
				}
			}
			for _, oc := range obs {
				if oc.Call.IsInvoke() || len(oc.Call.Args) == 0 {
					continue
				}
				switch calleeOf(&oc.Call).Name {
				case "IsUint64", "IsInt64", "BitLen", "Sign", "Cmp", "CmpAbs":
					if sameObject(oc.Call.Args[0], obj) {
						guarded = true
					}
				}
			}
		}
		if !guarded {
			hits = append(hits, Finding{fn, call.Pos(), "low-word-test(" + descValue(obj, 0) + ")",
				fmt.Sprintf("%s: the branch tests %s through its low 64 bits only (no IsUint64 / BitLen / Sign / Cmp of it on the way): every value that is a multiple of 2^64 passes for the constant it is compared with", funcKey(fn), descValue(obj, 0))})
		}
	}
	return n, hits
}
