package main

import "regexp"

// siblingScope: per property, the template families whose instantiations are cross-checked and
// the functions (group-normalised names) that belong to the property's anchors.
type sibScope struct {
	fams   []string
	filter string
	floor  int
}

var siblingScopes = map[string]sibScope{
	"C01": {[]string{"ecc/*/fr#4", "ecc/*/fp#4", "ecc/*/fp#6", "ecc/*/fr#6"}, `.`, 150},
	"C02": {[]string{"ecc/*", "ecc/*/twistededwards"}, `^\(\*?[gG]N[A-Za-z]*\)\.(Add|AddAssign|AddMixed|Sub|SubAssign|Double|DoubleAssign|DoubleMixed|Neg|Equal|IsOnCurve|IsInSubGroup|IsInfinity|IsZero|FromAffine|FromJacobian|FromJacExtended|fromJacExtended|ToAffine|add|addMixed|subMixed|double|doubleMixed|doubleNegMixed|setInfinity|Set|ClearCofactor|unsafeFromJacExtended)$|^\(\*?Point[A-Za-z]*\)\.(Add|MixedAdd|Double|MixedDouble|Neg|Equal|IsOnCurve|IsZero|FromProj|FromAffine|FromExtended|Set)$|^BatchJacobianToAffineG[12N]$|^BatchProjectiveToAffineG[12N]$|^batchProjectiveToAffineG[12N]$`, 40},
	"C03": {[]string{"ecc/*", "ecc/*/twistededwards"}, `ScalarMultiplication|mulGLV|mulWindowed|JointScalarMultiplication|BatchScalarMultiplication|scalarMulWindowed|scalarMulGLV`, 12},
	"C04": {[]string{"ecc/*"}, `MultiExp|innerMsm|processChunk|partitionScalars|Fold|batchAdd|msmReduceChunk|getChunkProcessor|computeNbChunks|lastC`, 8},
	"C05": {[]string{"ecc/*"}, `^(Pair|PairingCheck|MillerLoop|FinalExponentiation|PairFixedQ|PairingCheckFixedQ|MillerLoopFixedQ|PrecomputeLines)$|[sS]tep|lineCompute|^\(\*gNProj\)|^\(\*lineEvaluation`, 6},
	"C06": {[]string{"ecc/*/internal/fptower"}, `.`, 60},
	"C07": {[]string{"ecc/*"}, `Decode|[eE]ncode|setBytes|SetBytes|Bytes|unsafe|Marshal|Unmarshal|isZeroed|isCompressed|isMaskInvalid|readUint|NewDecoder|NewEncoder`, 20},
	"C08": {[]string{"ecc/*/fr#4", "ecc/*/fp#4", "ecc/*/fp#6", "ecc/*/fr#6"}, `Set|Bytes|BigInt|String|Text|JSON|Marshal|Unmarshal|ReadFrom|WriteTo|Element$|Uint64|Bits|Regular`, 60},
	"C10": {[]string{"ecc/*/fr/fft#0", "ecc/*/fr/fft"}, `.`, 20},
	"C11": {[]string{"ecc/*/kzg"}, `.`, 30},
	"C12": {[]string{"ecc/*/ecdsa", "ecc/*/twistededwards/eddsa"}, `.`, 25},
	"C13": {[]string{"ecc/*", "ecc/*/hash_to_curve"}, `HashTo|EncodeTo|MapTo|Isogeny|Sgn0|SqrtRatio|MulByZ|NotZero|NotOne`, 6},
	"C14": {[]string{"ecc/*/fr/mimc", "ecc/*/fr/poseidon2", "ecc/*/fr/sis"}, `.`, 30},
	"C17": {[]string{"ecc/*/fr/pedersen", "ecc/*/shplonk", "ecc/*/fflonk", "ecc/*/fr/permutation", "ecc/*/fr/plookup", "ecc/*/fr/fri", "ecc/*/mpcsetup"}, `.`, 90},
	"C20": {[]string{"ecc/*/fr/iop", "ecc/*/fr/polynomial"}, `.`, 60},
}

// runSibling adds the sibling-agreement rule of the property, if it has one.
func runSibling(c *Ctx) {
	sc, ok := siblingScopes[c.Prop]
	if !ok {
		return
	}
	p := mustLoad(c, K1)
	rule := c.Prop + ".sibling"
	c.Rule(rule, "SIBLING-AGREEMENT (generated code is an instantiation of its template): every function defined in a file with the 'Code generated ... DO NOT EDIT' header that exists in at least 4 instantiations of its template (curves; G1/G2 of one curve; field packages with the same limb count) agrees with the strict majority of its siblings in three summaries that a behaviour-preserving restructuring leaves unchanged: OPERATIONS — the set of module operations it reaches, looking through the functions and closures of its own package (a member that lacks an operation all agreeing siblings reach is reported; additional operations are not); EFFECTS — which of receiver, parameters and captured variables it may write (from the EFFECTS engine); GUARDS — for every operation it performs, the checks (ok/not/noerr + callee) that dominate every call of it on the inlined view of the function, with predicates of the package seen through (a member where an operation lost a check is reported). Listed template variants are exempt and are never looked through; hand-written files take part in the comparison but are never reported. The exact statement multiset of earlier revisions is kept as a note only: it fired on every restructuring of a single generated file", sc.floor)
	SiblingCheck(c, p, rule, sc.fams, regexp.MustCompile(sc.filter))
}
