package main

import (
	"go/token"
	"go/types"
	"regexp"
	"strconv"

	"golang.org/x/tools/go/ssa"
)

func init() { register("C15", checkC15) }

// isLookupOk: v is the ok result of `m[k]` with m derived from (recv, mapPath) and k from key.
func isLookupOk(v ssa.Value, recv *ssa.Parameter, mapPath string, key *ssa.Parameter) bool {
	ex, ok := v.(*ssa.Extract)
	if !ok || ex.Index != 1 {
		return false
	}
	lk, ok := ex.Tuple.(*ssa.Lookup)
	if !ok {
		return false
	}
	return derivedFrom(lk.X, recv, mapPath) && derivedFrom(lk.Index, key, "")
}

func checkC15(c *Ctx) {
	p := mustLoad(c, K1)
	const pkg = "fiat-shamir"
	bind := p.Func(pkg, "Transcript", "Bind")
	cc := p.Func(pkg, "Transcript", "ComputeChallenge")
	if bind == nil || cc == nil {
		c.Undecided("anchor fiat-shamir.Transcript.Bind/ComputeChallenge not found")
		return
	}
	// ComputeChallenge kept as a thin wrapper of a generalised function (AppendChallenge(dst, id)):
	// the rules are about the function that does the work; ccID is the position of the id there
	ccID := 1
	if tgt, pm := thinWrapperTarget(cc); tgt != nil && pm[1] >= 1 && tgt.Signature.Recv() != nil {
		cc, ccID = tgt, pm[1]
	}
	ccIDTok := "p" + strconv.Itoa(ccID-1)
	// discover the state fields by type, not by name: the map of challenges, the pointer to the
	// previous challenge, the hash.
	recvT := bind.Params[0].Type().(*types.Pointer).Elem().Underlying().(*types.Struct)
	var fMap, fPrev, fHash string
	var chalT *types.Struct
	// fChal: the field that holds the challenge records — the map itself, or, when the map only
	// gives the position of a name, the slice of records it indexes
	fChal := ""
	for i := 0; i < recvT.NumFields(); i++ {
		f := recvT.Field(i)
		switch t := f.Type().Underlying().(type) {
		case *types.Map:
			fMap = f.Name()
			if st, ok := t.Elem().Underlying().(*types.Struct); ok {
				chalT, fChal = st, f.Name()
			}
		case *types.Pointer:
			fPrev = f.Name()
		case *types.Interface:
			fHash = f.Name()
		}
	}
	prevByIndex := false
	if chalT == nil && fMap != "" {
		for i := 0; i < recvT.NumFields(); i++ {
			f := recvT.Field(i)
			if sl, ok := f.Type().Underlying().(*types.Slice); ok {
				if st, ok := sl.Elem().Underlying().(*types.Struct); ok {
					chalT, fChal = st, f.Name()
				}
			}
		}
		// the previous challenge designated by its position in that slice
		if chalT != nil && fPrev == "" {
			n := 0
			for i := 0; i < recvT.NumFields(); i++ {
				f := recvT.Field(i)
				if b, ok := f.Type().Underlying().(*types.Basic); ok && b.Info()&types.IsInteger != 0 {
					fPrev = f.Name()
					n++
				}
			}
			if n == 1 {
				prevByIndex = true
			} else {
				fPrev = ""
			}
		}
	}
	// the previous challenge kept by value (a copy of the map entry, its computed flag telling
	// whether there is one) instead of through a pointer
	prevByValue := false
	fHasPrev := "" // a flag of the transcript saying that a previous challenge exists
	for i := 0; i < recvT.NumFields(); i++ {
		if b, ok := recvT.Field(i).Type().Underlying().(*types.Basic); ok && b.Kind() == types.Bool {
			fHasPrev = recvT.Field(i).Name()
		}
	}
	if fPrev == "" && chalT != nil && !prevByIndex {
		for i := 0; i < recvT.NumFields(); i++ {
			f := recvT.Field(i)
			if st, ok := f.Type().Underlying().(*types.Struct); ok && types.Identical(st, chalT) {
				fPrev = f.Name()
				prevByValue = true
			}
		}
	}
	var fPos, fBind, fVal, fComp string
	if chalT != nil {
		for i := 0; i < chalT.NumFields(); i++ {
			f := chalT.Field(i)
			switch t := f.Type().Underlying().(type) {
			case *types.Basic:
				if t.Kind() == types.Bool {
					fComp = f.Name()
				} else if t.Info()&types.IsInteger != 0 {
					fPos = f.Name()
				}
			case *types.Slice:
				if _, ok := t.Elem().Underlying().(*types.Slice); ok {
					fBind = f.Name()
				} else {
					fVal = f.Name()
				}
			}
		}
	}
	if fMap == "" || fPrev == "" || fHash == "" || fPos == "" || fBind == "" || fVal == "" || fComp == "" {
		c.Undecided("C15: could not identify the transcript state fields by type (map/prev/hash/position/bindings/value/computed)")
		return
	}
	mp := "." + fMap
	ch := "." + fChal + "[*]"

	// ---- GUARD (statements; checks packaged in predicates of the package are looked through)
	c.Rule("C15.guard", "GUARD: Bind returns nil only after Known(id) (ok edge of the lookup of the id in the challenge map) and NotComputed(id); ComputeChallenge returns nil error only after Known(id) and, for a non-first not-yet-computed challenge, previous != nil and previous.position == position-1", 2)
	q := regexp.QuoteMeta
	// the challenge being processed: the local copy of the map entry, or the entry itself
	cur := `(?:local:\w+|pr\.` + q(fChal) + `\[\*\])`
	known := Req{"Known(id)", `^has\(pr\.` + q(fMap) + `,p0\)$`}
	RequireFacts(c, p, "C15.guard", bind, AcceptNilErr, nil, []Req{
		known,
		{"NotComputed(id)", `^!` + cur + `\.` + q(fComp) + `$`},
	})
	RequireFacts(c, p, "C15.guard", cc, AcceptNilErr, nil, []Req{{"Known(id)", `^has\(pr\.` + q(fMap) + `,` + ccIDTok + `\)$`}})
	RequireFacts(c, p, "C15.guard", cc, AcceptNilErr,
		[]string{`^` + cur + `\.` + q(fComp) + `$`, `^0 == ` + cur + `\.` + q(fPos) + `$`, `^` + cur + `\.` + q(fPos) + ` <= 0$`},
		map[bool][]Req{true: {
			// the previous challenge is designated by its position (−1 before any is computed):
			// last == position-1 says both that it exists and that it is the predecessor
			{"PreviousIsPredecessor(last computed == position-1)", `^\(` + cur + `\.` + q(fPos) + `-1\) == pr\.` + q(fPrev) + `$|^pr\.` + q(fPrev) + ` == \(` + cur + `\.` + q(fPos) + `-1\)$|^\((?:1\+pr\.` + q(fPrev) + `|pr\.` + q(fPrev) + `\+1)\) == ` + cur + `\.` + q(fPos) + `$|^` + cur + `\.` + q(fPos) + ` == \((?:1\+pr\.` + q(fPrev) + `|pr\.` + q(fPrev) + `\+1)\)$`},
		}, false: {
			{"PreviousComputed(previous != nil)", map[bool]string{false: `^pr\.` + q(fPrev) + ` != nil$`, true: `^pr\.` + q(fPrev) + `\.` + q(fComp) + `$|^pr\.` + q(fHasPrev) + `$`}[prevByValue]},
			// previous.position == position-1, or the same equation with the 1 on the other side
			{"PreviousIsPredecessor(previous.position == position-1)", `^\(` + cur + `\.` + q(fPos) + `-1\) == pr\.` + q(fPrev) + `\.` + q(fPos) + `$|^pr\.` + q(fPrev) + `\.` + q(fPos) + ` == \(` + cur + `\.` + q(fPos) + `-1\)$|^\((?:1\+pr\.` + q(fPrev) + `\.` + q(fPos) + `|pr\.` + q(fPrev) + `\.` + q(fPos) + `\+1)\) == ` + cur + `\.` + q(fPos) + `$|^` + cur + `\.` + q(fPos) + ` == \((?:1\+pr\.` + q(fPrev) + `\.` + q(fPos) + `|pr\.` + q(fPrev) + `\.` + q(fPos) + `\+1)\)$`},
		}}[prevByIndex])

	if prevByIndex {
		// "no challenge computed yet" is a position that precedes no challenge: every function that
		// builds a transcript stores a negative constant there
		recvNamed := bind.Params[0].Type().(*types.Pointer).Elem()
		n, ok := 0, true
		pos := p.Pos(bind.Pos())
		for _, fn := range p.RepoFuncs() {
			if fn.Pkg == nil || fn.Pkg != bind.Pkg || fn.Blocks == nil {
				continue
			}
			builds := false
			neg := false
			for _, b := range fn.Blocks {
				for _, in := range b.Instrs {
					if al, isAl := in.(*ssa.Alloc); isAl && types.Identical(al.Type().(*types.Pointer).Elem(), recvNamed) {
						builds = true
					}
					if st, isSt := in.(*ssa.Store); isSt {
						if fa, isFA := st.Addr.(*ssa.FieldAddr); isFA && fieldName(fa.X.Type(), fa.Field) == fPrev && types.Identical(derefType(fa.X.Type()), recvNamed) {
							if k, isC := constInt(st.Val); isC && k < 0 {
								neg = true
							}
						}
					}
				}
			}
			if builds {
				n++
				if !neg {
					ok = false
					pos = p.Pos(fn.Pos())
				}
			}
		}
		c.Ob("C15.guard", pkg, "constructors", "no-previous-is-negative", pos, ok && n > 0, "a function that builds a Transcript does not set the position of the last computed challenge to a negative constant: position 0 would pass for the predecessor of challenge 1 before anything is computed")
	}

	vb, vc := NewIView(bind), NewIView(cc)

	// ---- L11: refused calls leave the transcript unchanged
	c.Rule("C15.L11", "L11: no write to the challenge map or the previous pointer can be followed by a return with a non-nil error (a refused call leaves the transcript unchanged); the hash object is scratch state reset before every use", 2)
	for _, v := range []*IView{vb, vc} {
		fn := v.root.fn
		c.Instance("C15.L11", 1)
		recv := fn.Params[0]
		idx := resultIndex(fn, AcceptNilErr)
		var writes []ivInstr
		for _, x := range v.Instrs() {
			switch in := x.in.(type) {
			case *ssa.MapUpdate:
				if v.DerivedFrom(in.Map, x.fr, recv, mp) {
					writes = append(writes, x)
				}
			case *ssa.Store:
				if v.AddrDerivedFrom(in.Addr, x.fr, recv, "...") && !v.AddrDerivedFrom(in.Addr, x.fr, recv, "."+fHash+"...") {
					writes = append(writes, x)
				}
			}
		}
		ok := true
		var bad, badRet ivInstr
		for _, r := range v.rootReturns() {
			ret := r.in.(*ssa.Return)
			if ret.Block().Comment == "recover" {
				continue
			}
			if mayBeNilErr(retValue(ret, idx), ret.Block(), 0) {
				continue // accepting return
			}
			for _, w := range writes {
				if v.MayPrecede(w, r) {
					ok, bad, badRet = false, w, r
				}
			}
		}
		msg, pos := "", p.Pos(fn.Pos())
		if !ok {
			pos = p.Pos(instrPos(bad.in))
			msg = funcKey(fn) + ": transcript state is written at " + pos + " on a path that ends in the error return at " + p.Pos(instrPos(badRet.in))
		}
		c.Ob("C15.L11", pkg, funcKey(fn), "state-unchanged-on-error", pos, ok, msg)
		// a challenge that is already computed is read, not recomputed: an accepting return that no
		// hash Sum precedes (the cached read) is preceded by no state write either — the transcript
		// after re-reading an old challenge is the transcript before
		if fn == cc {
			var sums []ivInstr
			for _, x := range v.Instrs() {
				if call, isCall := x.in.(*ssa.Call); isCall && call.Call.IsInvoke() && call.Call.Method.Name() == "Sum" {
					sums = append(sums, x)
				}
			}
			okC := true
			posC := p.Pos(fn.Pos())
			for _, r := range v.rootReturns() {
				ret := r.in.(*ssa.Return)
				if ret.Block().Comment == "recover" || !mayBeNilErr(retValue(ret, idx), ret.Block(), 0) {
					continue
				}
				computed := false
				for _, sm := range sums {
					if v.MayPrecede(sm, r) {
						computed = true
					}
				}
				if computed {
					continue
				}
				for _, w := range writes {
					if v.MayPrecede(w, r) {
						okC = false
						posC = p.Pos(instrPos(w.in))
					}
				}
			}
			c.Ob("C15.L11", pkg, funcKey(fn), "state-unchanged-on-cached-read", posC, okC && len(sums) > 0, funcKey(fn)+": transcript state is written at "+posC+" on a path that returns an already computed challenge without recomputing it: re-reading a challenge changes what later challenges see")
		}
		// the state transition must happen on success of the computing path
		if fn == cc {
			prevWritten := false
			for _, w := range writes {
				if st, isSt := w.in.(*ssa.Store); isSt && v.AddrDerivedFrom(st.Addr, w.fr, recv, "."+fPrev+"...") {
					prevWritten = true
				}
			}
			c.Ob("C15.L11", pkg, funcKey(fn), "state-written-on-success", p.Pos(fn.Pos()), len(writes) >= 2 && prevWritten,
				"ComputeChallenge no longer records the computed challenge (map update) and the previous pointer")
		} else {
			c.Ob("C15.L11", pkg, funcKey(fn), "state-written-on-success", p.Pos(fn.Pos()), len(writes) >= 1,
				"Bind no longer records the binding in the challenge map")
		}
	}

	// ---- L10: no aliasing in or out
	c.Rule("C15.L10", "L10: a []byte parameter is only read (len, copy source, hash Write / Sum argument) and never stored in or appended to transcript state (handing the caller's own slice back, append-style, is not a retention); every returned []byte is not derived from receiver state; every []byte stored in receiver state is freshly allocated", 2)
	for _, fn := range []*ssa.Function{bind, cc} {
		c.Instance("C15.L10", 1)
		checkNoRetainedParamSlicesOpt(c, p, "C15.L10", fn, true)
		checkReturnedSlicesFresh(c, p, "C15.L10", fn)
	}
	// ivFresh: a slice that shares storage with nothing else, looking through helpers of the package
	var ivFresh func(v *IView, val ssa.Value, fr *ivFrame, d int) bool
	ivFresh = func(v *IView, val ssa.Value, fr *ivFrame, d int) bool {
		if d > 6 {
			return false
		}
		val = stripConv(val)
		if freshByteSlice(val) {
			return true
		}
		if call, ok := val.(*ssa.Call); ok {
			if kid := fr.kids[ssa.CallInstruction(call)]; kid != nil {
				n := 0
				for _, b := range kid.fn.Blocks {
					if ret, ok := b.Instrs[len(b.Instrs)-1].(*ssa.Return); ok && len(ret.Results) > 0 {
						n++
						if !ivFresh(v, retValue(ret, 0), kid, d+1) {
							return false
						}
					}
				}
				return n > 0
			}
		}
		if ph, ok := val.(*ssa.Phi); ok {
			for _, e := range ph.Edges {
				if !ivFresh(v, e, fr, d+1) {
					return false
				}
			}
			return len(ph.Edges) > 0
		}
		return false
	}
	// stored challenge value is fresh (copy target is a make)
	{
		ok := true
		pos := p.Pos(cc.Pos())
		n := 0
		for _, x := range vc.Instrs() {
			st, isSt := x.in.(*ssa.Store)
			if !isSt {
				continue
			}
			if _, isSlice := st.Val.Type().Underlying().(*types.Slice); !isSlice {
				continue
			}
			fa, isFA := st.Addr.(*ssa.FieldAddr)
			if !isFA || fieldName(fa.X.Type(), fa.Field) != fVal {
				continue
			}
			n++
			if !ivFresh(vc, st.Val, x.fr, 0) {
				ok = false
				pos = p.Pos(instrPos(x.in))
			}
		}
		c.Ob("C15.L10", pkg, funcKey(cc), "cached-value-fresh", pos, ok && n > 0, "the cached challenge value is not a freshly made slice (it would alias the returned digest or hash-internal storage)")
	}

	// every binding recorded by Bind is a fresh slice: a sub-slice of a buffer kept in the transcript
	// (recycled after a challenge is computed) would be overwritten by the next Bind while an
	// uncomputed challenge still refers to it
	{
		ok := true
		pos := p.Pos(bind.Pos())
		n := 0
		for _, x := range vb.Instrs() {
			call, isCall := x.in.(*ssa.Call)
			if !isCall {
				continue
			}
			bi, isB := call.Call.Value.(*ssa.Builtin)
			if !isB || bi.Name() != "append" || len(call.Call.Args) != 2 {
				continue
			}
			st, isSl := call.Type().Underlying().(*types.Slice)
			if !isSl {
				continue
			}
			if _, inner := st.Elem().Underlying().(*types.Slice); !inner {
				continue
			}
			// append(bindings, v): the variadic argument is a slice literal built in a local array
			for _, el := range appendedElements(call.Call.Args[1]) {
				n++
				if !ivFresh(vb, el, x.fr, 0) {
					ok = false
					pos = p.Pos(instrPos(x.in))
				}
			}
		}
		c.Ob("C15.L10", pkg, funcKey(bind), "binding-fresh", pos, ok && n > 0, "a value recorded by Bind is not a freshly made slice: it shares storage with the caller's argument or with a buffer of the transcript that later calls overwrite")
	}

	// ---- ORDER: what is hashed, in which order (on the inlined view of ComputeChallenge)
	c.Rule("C15.order", "ORDER: on the computing path Reset dominates the first Write; Write(id) dominates Write(previous.value) and the bindings loop; Write(previous.value) lies on the position != 0 arm and cannot follow the bindings loop; the bindings are written by an ascending index loop over the binding slice; Sum is dominated by Write(id), follows the loop, and its result is what is returned and copied into the cache — decided on the inlined view of ComputeChallenge (helpers of the package expanded at their call sites)", 1)
	c.Instance("C15.order", 1)
	{
		fn := cc
		v := vc
		recv, id := fn.Params[0], fn.Params[ccID]
		var reset, sum, wID, wPrev, wBind *ivInstr
		var otherWrites int
		for _, x := range v.Instrs() {
			x := x
			call, ok := x.in.(*ssa.Call)
			if !ok || !call.Call.IsInvoke() || !v.DerivedFrom(call.Call.Value, x.fr, recv, "."+fHash) {
				continue
			}
			switch call.Call.Method.Name() {
			case "Reset":
				if reset == nil {
					reset = &x
				}
			case "Sum":
				sum = &x
			case "Write":
				a := call.Call.Args[0]
				switch {
				case v.DerivedFrom(a, x.fr, id, ""):
					wID = &x
				case !prevByIndex && v.DerivedFrom(a, x.fr, recv, "."+fPrev+"."+fVal):
					wPrev = &x
				case prevByIndex && v.DerivedFrom(a, x.fr, recv, ch+"."+fVal) && indexedByField(v, a, x.fr, recv, "."+fPrev):
					// the value of the record at the position kept in the transcript
					wPrev = &x
				case v.DerivedFrom(a, x.fr, recv, ch+"."+fBind+"[*]"):
					wBind = &x
				default:
					otherWrites++
				}
			}
		}
		fk := funcKey(fn)
		pos := p.Pos(fn.Pos())
		need := func(name string, ok bool, msg string) { c.Ob("C15.order", pkg, fk, name, pos, ok, msg) }
		need("sites-present", reset != nil && sum != nil && wID != nil && wPrev != nil && wBind != nil,
			"one of Reset / Write(id) / Write(previous.value) / Write(binding) / Sum on the transcript hash is missing")
		need("no-other-input", otherWrites == 0, "the hash receives an input other than id, previous value, bindings")
		if reset != nil && sum != nil && wID != nil && wPrev != nil && wBind != nil {
			need("reset-first", v.Dominates(*reset, *wID), "Reset does not dominate the first Write")
			need("id-first", v.Dominates(*wID, *wPrev) && v.Dominates(*wID, *wBind) && v.Dominates(*wID, *sum), "Write(id) does not dominate the other hash inputs")
			need("previous-before-bindings", v.MayPrecede(*wPrev, *wBind) && !v.MayPrecede(*wBind, *wPrev), "Write(previous.value) can follow a binding write or never precedes them")
			need("bindings-before-sum", v.MayPrecede(*wBind, *sum) && !v.MayPrecede(*sum, *wBind) && !v.MayPrecede(*sum, *wPrev) && !v.MayPrecede(*sum, *wID), "Sum can be followed by a Write")
			// the previous value is written exactly when position != 0
			prevGuard := false
			for _, cd := range v.DominatingConds(*wPrev) {
				a := cd.atom
				if a.Kind == "cmp" && v.DerivedFrom(a.X, cd.fr, recv, ch+"."+fPos) {
					if k, ok := constInt(a.Y); ok && k == 0 && (a.Op == token.NEQ || a.Op == token.EQL || a.Op == token.GTR) {
						prevGuard = true
					}
				}
			}
			need("previous-iff-not-first", prevGuard, "Write(previous.value) is not controlled by the test position != 0")
			// ascending loop over all bindings
			asc := false
			if ia, ok := rootIndexAddr(wBind.in.(*ssa.Call).Call.Args[0]); ok {
				asc = ascendingFullRange(ia)
			}
			need("bindings-in-order", asc, "the bindings are not written by an ascending, complete index loop over the binding slice")
			// every write's error is checked
			for name, w := range map[string]*ivInstr{"write-id-checked": wID, "write-previous-checked": wPrev, "write-binding-checked": wBind} {
				need(name, errResultTested(w.in.(*ssa.Call)), "error result of a hash Write is not tested")
			}
			// returned value and cached copy come from Sum
			sumCall := sum.in.(*ssa.Call)
			// "comes from Sum": the Sum result itself, a fresh slice that received a copy of it
			// (copy(dst, x) / append(fresh, x...)), a phi of such, or the same through a helper of the
			// package — a refactoring that returns the copy instead of the original keeps the verdict
			var fromSum func(val ssa.Value, fr *ivFrame, d int) bool
			fromSum = func(val ssa.Value, fr *ivFrame, d int) bool {
				if d > 8 || val == nil {
					return false
				}
				val = stripConv(val)
				if val == ssa.Value(sumCall) {
					return true
				}
				switch x := val.(type) {
				case *ssa.Parameter:
					if fr.parent != nil {
						for i, q := range fr.fn.Params {
							if q == x && i < len(fr.site.Common().Args) {
								return fromSum(fr.site.Common().Args[i], fr.parent, d+1)
							}
						}
					}
				case *ssa.Phi:
					for _, e := range x.Edges {
						if !fromSum(e, fr, d+1) {
							return false
						}
					}
					return len(x.Edges) > 0
				case *ssa.Slice:
					return fromSum(x.X, fr, d+1)
				case *ssa.Call:
					if isCloneCall(x) {
						return fromSum(x.Call.Args[0], fr, d+1)
					}
					if bi, ok := x.Call.Value.(*ssa.Builtin); ok && bi.Name() == "append" && len(x.Call.Args) == 2 {
						return fromSum(x.Call.Args[1], fr, d+1)
					}
					if kid := fr.kids[ssa.CallInstruction(x)]; kid != nil {
						n := 0
						for _, b := range kid.fn.Blocks {
							if ret, ok := b.Instrs[len(b.Instrs)-1].(*ssa.Return); ok && len(ret.Results) > 0 {
								n++
								if !fromSum(retValue(ret, 0), kid, d+1) {
									return false
								}
							}
						}
						return n > 0
					}
				case *ssa.MakeSlice:
					// a fresh buffer filled by copy(buf, <from Sum>)
					if x.Referrers() != nil {
						for _, r := range *x.Referrers() {
							if cc, ok := r.(*ssa.Call); ok {
								if bi, ok := cc.Call.Value.(*ssa.Builtin); ok && bi.Name() == "copy" && stripConv(cc.Call.Args[0]) == ssa.Value(x) && fromSum(cc.Call.Args[1], fr, d+1) {
									return true
								}
							}
						}
					}
				}
				return false
			}
			retOK, copyOK := false, false
			for _, a := range mustAccept(fn) {
				if fromSum(retValue(a.ret, 0), v.root, 0) {
					retOK = true
				}
			}
			for _, x := range v.Instrs() {
				if call, ok := x.in.(*ssa.Call); ok {
					if bi, ok := call.Call.Value.(*ssa.Builtin); ok && bi.Name() == "copy" && fromSum(call.Call.Args[1], x.fr, 0) && v.DerivedFrom(call.Call.Args[0], x.fr, recv, ch+"."+fVal) {
						copyOK = true
					}
				}
				if st, ok := x.in.(*ssa.Store); ok && v.DerivedFrom(st.Addr, x.fr, recv, ch+"."+fVal) && fromSum(st.Val, x.fr, 0) && stripConv(st.Val) != ssa.Value(sumCall) {
					copyOK = true // value = append([]byte(nil), res...) / a filled fresh buffer / cloneBytes(res)
				}
			}
			need("digest-returned", retOK, "the computing path does not return the Sum result")
			need("digest-cached", copyOK, "the Sum result is not copied into the cached challenge value")
		}
	}
	c.Assume("hash.Hash.Sum(nil) returns a slice that does not alias the hash state (std contract)")
	c.Trust("go/types + go/ssa (x/tools v0.29.0) as the model of the source")
}

func mustAccept(fn *ssa.Function) []acceptRet {
	a, _ := acceptReturns(fn, AcceptNilErr)
	return a
}

// rootIndexAddr: v is a load of s[i] (or &s[i]).
func rootIndexAddr(v ssa.Value) (*ssa.IndexAddr, bool) {
	if u, ok := v.(*ssa.UnOp); ok && u.Op == token.MUL {
		v = u.X
	}
	ia, ok := v.(*ssa.IndexAddr)
	return ia, ok
}

// ascendingFullRange: the index of ia is the induction variable of a loop that starts at 0,
// steps by +1 and is bounded by len of the indexed slice (the shape go/ssa gives `range s` and
// `for i := 0; i < len(s); i++`).
func ascendingFullRange(ia *ssa.IndexAddr) bool {
	idx := ia.Index
	// rangeindex: idx = phi + 1 with phi = [-1, idx]
	if b, ok := idx.(*ssa.BinOp); ok && b.Op == token.ADD {
		if k, ok := constInt(b.Y); ok && k == 1 {
			if ph, ok := b.X.(*ssa.Phi); ok {
				init := false
				step := false
				for _, e := range ph.Edges {
					if k, ok := constInt(e); ok && k == -1 {
						init = true
					} else if e == ssa.Value(b) {
						step = true
					}
				}
				if init && step {
					return boundedByLen(ph.Block(), b, ia.X)
				}
			}
		}
	}
	if ph, ok := idx.(*ssa.Phi); ok {
		init, step := false, false
		for _, e := range ph.Edges {
			if k, ok := constInt(e); ok && k == 0 {
				init = true
			} else if b, ok := e.(*ssa.BinOp); ok && b.Op == token.ADD && b.X == ssa.Value(ph) {
				if k, ok := constInt(b.Y); ok && k == 1 {
					step = true
				}
			}
		}
		if init && step {
			return boundedByLen(ph.Block(), ph, ia.X)
		}
	}
	return false
}

func boundedByLen(header *ssa.BasicBlock, iv ssa.Value, s ssa.Value) bool {
	iff, ok := header.Instrs[len(header.Instrs)-1].(*ssa.If)
	if !ok {
		return false
	}
	a := atomOf(iff.Cond)
	if a.Kind != "cmp" || a.Op != token.LSS || a.X != iv {
		return false
	}
	l := lenOf(a.Y)
	if l == nil {
		return false
	}
	return l == s || sameLoad(l, s)
}

// sameLoad: two loads of the same address expression.
func sameLoad(a, b ssa.Value) bool {
	ua, ok1 := a.(*ssa.UnOp)
	ub, ok2 := b.(*ssa.UnOp)
	if !ok1 || !ok2 || ua.Op != token.MUL || ub.Op != token.MUL {
		return false
	}
	if ua.X == ub.X {
		return true
	}
	fa, ok1 := ua.X.(*ssa.FieldAddr)
	fb, ok2 := ub.X.(*ssa.FieldAddr)
	return ok1 && ok2 && fa.X == fb.X && fa.Field == fb.Field
}

// errResultTested: the error result of the call feeds an If (nil comparison) or is returned.
func errResultTested(call *ssa.Call) bool {
	for _, r := range *call.Referrers() {
		ex, ok := r.(*ssa.Extract)
		if !ok || !isErrorType(ex.Type()) {
			continue
		}
		for _, u := range *ex.Referrers() {
			if b, ok := u.(*ssa.BinOp); ok && (b.Op == token.NEQ || b.Op == token.EQL) {
				for _, uu := range *b.Referrers() {
					if _, ok := uu.(*ssa.If); ok {
						return true
					}
				}
			}
			// `return g(...)` of a multi-result callee: the error is handed to the caller unchanged
			if _, isRet := u.(*ssa.Return); isRet {
				return true
			}
		}
	}
	if isErrorType(call.Type()) {
		for _, u := range *call.Referrers() {
			switch x := u.(type) {
			case *ssa.BinOp:
				for _, uu := range *x.Referrers() {
					if _, ok := uu.(*ssa.If); ok {
						return true
					}
				}
			case *ssa.Return:
				return true
			}
		}
	}
	return false
}

// challengeValueAddr: addr is &X.value where X is a challenge struct held in a local (the copy
// that is later written back to the map).
func challengeValueAddr(addr ssa.Value, fVal string) bool {
	fa, ok := addr.(*ssa.FieldAddr)
	if !ok || fieldName(fa.X.Type(), fa.Field) != fVal {
		return false
	}
	_, isAlloc := fa.X.(*ssa.Alloc)
	return isAlloc
}

// freshByteSlice: a slice that shares storage with nothing else: make(...), or
// append(nil / empty-capacity slice, ...).
func freshByteSlice(v ssa.Value) bool {
	v = stripConv(v)
	switch x := v.(type) {
	case *ssa.MakeSlice:
		return true
	case *ssa.Call:
		if isCloneCall(x) {
			return true // bytes.Clone / slices.Clone: a new slice
		}
		if bi, ok := x.Call.Value.(*ssa.Builtin); ok && bi.Name() == "append" && len(x.Call.Args) >= 1 {
			base := stripConv(x.Call.Args[0])
			if isNilConst(base) {
				return true
			}
			if _, isMake := base.(*ssa.MakeSlice); isMake {
				return true // append(make([]byte, 0, n), x...)
			}
			if sl, ok := base.(*ssa.Slice); ok && sl.Max != nil {
				if k, ok := constInt(sl.Max); ok && k == 0 {
					return true // x[:0:0]
				}
			}
		}
	}
	return false
}

// appendedElements: the element values of the variadic argument of append(s, e1, e2...) (go/ssa
// builds a local array, stores the elements and slices it).
func appendedElements(v ssa.Value) []ssa.Value {
	sl, ok := v.(*ssa.Slice)
	if !ok {
		return nil
	}
	al, ok := sl.X.(*ssa.Alloc)
	if !ok || al.Referrers() == nil {
		return nil
	}
	var out []ssa.Value
	for _, r := range *al.Referrers() {
		ia, ok := r.(*ssa.IndexAddr)
		if !ok || ia.Referrers() == nil {
			continue
		}
		for _, rr := range *ia.Referrers() {
			if st, ok := rr.(*ssa.Store); ok && st.Addr == ia {
				out = append(out, st.Val)
			}
		}
	}
	return out
}

// thinWrapperTarget: fn consists of one call of a function g of the same package whose results it
// returns unchanged (`return g(a, b, const)`): returns g and, for each parameter index of fn, the
// index of the parameter of g it is passed as (-1 when it is not passed).
func thinWrapperTarget(fn *ssa.Function) (*ssa.Function, map[int]int) {
	if fn == nil || len(fn.Blocks) != 1 {
		return nil, nil
	}
	var call *ssa.Call
	for _, in := range fn.Blocks[0].Instrs {
		switch x := in.(type) {
		case *ssa.Call:
			if call != nil {
				return nil, nil
			}
			call = x
		case *ssa.Return, *ssa.Extract, *ssa.DebugRef:
		default:
			return nil, nil
		}
	}
	if call == nil {
		return nil, nil
	}
	g := call.Call.StaticCallee()
	if g == nil || g.Pkg != fn.Pkg || len(g.Blocks) == 0 {
		return nil, nil
	}
	pm := map[int]int{}
	for i := range fn.Params {
		pm[i] = -1
	}
	for j, a := range call.Call.Args {
		for i, pa := range fn.Params {
			if a == ssa.Value(pa) {
				pm[i] = j
			}
		}
	}
	return g, pm
}

// indexedByField: on the way from v back to its root there is an element access whose index is
// loaded from the given path of recv (t.challenges[t.lastComputed].value).
func indexedByField(v *IView, val ssa.Value, fr *ivFrame, recv *ssa.Parameter, path string) bool {
	for d := 0; d < 12 && val != nil; d++ {
		val = stripConv(val)
		switch x := val.(type) {
		case *ssa.UnOp:
			val = x.X
		case *ssa.FieldAddr:
			val = x.X
		case *ssa.Field:
			val = x.X
		case *ssa.Slice:
			val = x.X
		case *ssa.IndexAddr:
			if v.DerivedFrom(x.Index, fr, recv, path) {
				return true
			}
			val = x.X
		case *ssa.Index:
			if v.DerivedFrom(x.Index, fr, recv, path) {
				return true
			}
			val = x.X
		default:
			return false
		}
	}
	return false
}

// isCloneCall: bytes.Clone(x) / slices.Clone(x) — the standard "fresh copy of x".
func isCloneCall(c *ssa.Call) bool {
	f := c.Call.StaticCallee()
	if f == nil || len(c.Call.Args) != 1 {
		return false
	}
	if o := f.Origin(); o != nil {
		f = o
	}
	pk := fnPkgPath(f)
	return f.Name() == "Clone" && (pk == "bytes" || pk == "slices")
}
