package main

import (
	"fmt"
	"go/ast"
	"go/constant"
	"go/token"
	"go/types"
	"math/big"
	"strings"

	"golang.org/x/tools/go/packages"
	"golang.org/x/tools/go/ssa"
)

func init() { register("C01", checkC01) }

// constInt64OfDecl evaluates a named constant of the package as a big.Int.
func pkgConst(pkg *packages.Package, name string) (*big.Int, bool) {
	k, ok := pkg.Types.Scope().Lookup(name).(*types.Const)
	if !ok {
		return nil, false
	}
	return constToBig(k.Val())
}

func constToBig(v constant.Value) (*big.Int, bool) {
	if v == nil || v.Kind() != constant.Int {
		return nil, false
	}
	b, ok := new(big.Int).SetString(v.ExactString(), 10)
	return b, ok
}

// elementLiteral: limbs of a package-level `var name = Element{...}`.
func elementLiteral(pkg *packages.Package, name string) ([]*big.Int, bool) {
	for _, f := range pkg.Syntax {
		for _, d := range f.Decls {
			gd, ok := d.(*ast.GenDecl)
			if !ok || gd.Tok != token.VAR {
				continue
			}
			for _, sp := range gd.Specs {
				vs := sp.(*ast.ValueSpec)
				for i, n := range vs.Names {
					if n.Name != name || i >= len(vs.Values) {
						continue
					}
					cl, ok := vs.Values[i].(*ast.CompositeLit)
					if !ok {
						return nil, false
					}
					var out []*big.Int
					for _, e := range cl.Elts {
						tv, ok := pkg.TypesInfo.Types[e]
						if !ok || tv.Value == nil {
							return nil, false
						}
						b, ok := constToBig(tv.Value)
						if !ok {
							return nil, false
						}
						out = append(out, b)
					}
					return out, true
				}
			}
		}
	}
	return nil, false
}

func limbsToBig(limbs []*big.Int, w uint) *big.Int {
	r := new(big.Int)
	for i := len(limbs) - 1; i >= 0; i-- {
		r.Lsh(r, w)
		r.Add(r, limbs[i])
	}
	return r
}

func checkC01(c *Ctx) {
	p := mustLoad(c, K1)
	c.Rule("C01.const", "CONSTANTS (L14): for each of the 23 field packages the baked constants agree with each other, recomputed with math/big from the declarations (nothing of the repository is executed): q = sum q_i 2^(w i) equals the hex modulus of init; q is odd; qInvNeg*q = -1 mod 2^w; rSquare = 2^(2wN) mod q; the limbs stored by SetOne are 2^(wN) mod q; Bits = bitlen(q), Bytes = ceil(Bits/8); qElement lists the q_i; the constants subtracted in LexicographicallyLargest are (q-1)/2+1; smallerThanModulus compares limb i with q_i", 23)
	c.Rule("C01.special", "SPECIAL-CASES: every return of Neg lies on a decided edge of the IsZero test of the operand (the zero branch exists); Exp inverts the base only on the negative-exponent edge of Sign(k); Sqrt has a path returning nil (non-residues are reported, not given a root)", 60)

	for _, pk := range fieldPkgs(p) {
		pkg := p.ByPath[modPath+"/"+pk]
		if pkg == nil {
			continue
		}
		ob := func(name string, ok bool, msg string) {
			c.Ob("C01.const", pk, pk, name, "-", ok, pk+": "+msg)
		}
		c.Instance("C01.const", 1)
		// word size and limb count from the Element type
		et, _ := pkg.Types.Scope().Lookup("Element").(*types.TypeName)
		if et == nil {
			c.Undecided("%s: type Element not found", pk)
			continue
		}
		arr, ok := et.Type().Underlying().(*types.Array)
		if !ok {
			c.Undecided("%s: Element is not an array", pk)
			continue
		}
		N := int(arr.Len())
		w := uint(64)
		if b, ok := arr.Elem().Underlying().(*types.Basic); ok && b.Kind() == types.Uint32 {
			w = 32
		}
		var ql []*big.Int
		okQ := true
		for i := 0; i < N; i++ {
			v, ok := pkgConst(pkg, fmt.Sprintf("q%d", i))
			if !ok {
				okQ = false
				break
			}
			ql = append(ql, v)
		}
		if !okQ {
			c.Undecided("%s: modulus limb constants q0..q%d not found", pk, N-1)
			continue
		}
		q := limbsToBig(ql, w)
		// modulus string in init
		var modHex string
		if sp := p.SSA[modPath+"/"+pk]; sp != nil {
			for _, fn := range libFuncs(p, pk) {
				if !strings.HasPrefix(fn.Name(), "init") {
					continue
				}
				for _, b := range fn.Blocks {
					for _, in := range b.Instrs {
						if call, ok := in.(*ssa.Call); ok && calleeOf(&call.Call).Name == "SetString" && len(call.Call.Args) == 3 {
							if g, ok := call.Call.Args[0].(*ssa.Global); ok && g.Name() == "_modulus" {
								if cst, ok := call.Call.Args[1].(*ssa.Const); ok && cst.Value.Kind() == constant.String {
									modHex = constant.StringVal(cst.Value)
								}
							}
						}
					}
				}
			}
		}
		mod, okM := new(big.Int).SetString(modHex, 16)
		ob("modulus-string-equals-limbs", okM && mod.Cmp(q) == 0, fmt.Sprintf("the limbs q0..q%d give %s but init sets the modulus to 0x%s", N-1, q.Text(16), modHex))
		ob("modulus-odd", q.Bit(0) == 1, "q is even")
		two := big.NewInt(2)
		W := new(big.Int).Exp(two, big.NewInt(int64(w)), nil)
		if qi, ok := pkgConst(pkg, "qInvNeg"); ok {
			t := new(big.Int).Mul(qi, q)
			t.Add(t, big.NewInt(1))
			t.Mod(t, W)
			ob("qInvNeg", t.Sign() == 0, fmt.Sprintf("qInvNeg*q != -1 mod 2^%d", w))
		} else {
			ob("qInvNeg", false, "constant qInvNeg not found")
		}
		R := new(big.Int).Exp(two, big.NewInt(int64(w)*int64(N)), nil)
		if rs, ok := elementLiteral(pkg, "rSquare"); ok && len(rs) == N {
			want := new(big.Int).Mul(R, R)
			want.Mod(want, q)
			ob("rSquare", limbsToBig(rs, w).Cmp(want) == 0, "rSquare != 2^(2wN) mod q")
		} else {
			ob("rSquare", false, "var rSquare = Element{...} not found")
		}
		if qe, ok := elementLiteral(pkg, "qElement"); ok && len(qe) == N {
			ob("qElement", limbsToBig(qe, w).Cmp(q) == 0, "qElement does not list the modulus limbs")
		}
		if bits, ok := pkgConst(pkg, "Bits"); ok {
			ob("Bits", bits.Int64() == int64(q.BitLen()), fmt.Sprintf("Bits = %d but q has %d bits", bits.Int64(), q.BitLen()))
			if by, ok := pkgConst(pkg, "Bytes"); ok {
				ob("Bytes", by.Int64() == (bits.Int64()+7)/8, fmt.Sprintf("Bytes = %d, expected ceil(Bits/8) = %d", by.Int64(), (bits.Int64()+7)/8))
			}
		}
		// SetOne limbs
		if fn := p.Func(pk, "Element", "SetOne"); fn != nil {
			limbs := make([]*big.Int, N)
			full := true
			for _, b := range fn.Blocks {
				for _, in := range b.Instrs {
					st, ok := in.(*ssa.Store)
					if !ok {
						continue
					}
					ia, ok := st.Addr.(*ssa.IndexAddr)
					if !ok {
						continue
					}
					k, ok1 := constInt(ia.Index)
					cv, ok2 := st.Val.(*ssa.Const)
					if ok1 && ok2 && int(k) < N {
						if b, ok := constToBig(cv.Value); ok {
							limbs[k] = b
						}
					}
				}
			}
			for _, l := range limbs {
				if l == nil {
					full = false
				}
			}
			if full {
				want := new(big.Int).Mod(R, q)
				ob("one", limbsToBig(limbs, w).Cmp(want) == 0, "the limbs stored by SetOne are not 2^(wN) mod q (Montgomery form of 1)")
			} else {
				ob("one", false, "SetOne does not store one constant per limb")
			}
		}
		// LexicographicallyLargest constants
		if fn := p.Func(pk, "Element", "LexicographicallyLargest"); fn != nil {
			var ks []*big.Int
			for _, b := range fn.Blocks {
				for _, in := range b.Instrs {
					if call, ok := in.(*ssa.Call); ok {
						cl := calleeOf(&call.Call)
						if cl.Pkg == "math/bits" && strings.HasPrefix(cl.Name, "Sub") && len(call.Call.Args) == 3 {
							if cv, ok := call.Call.Args[1].(*ssa.Const); ok {
								if b, ok := constToBig(cv.Value); ok {
									ks = append(ks, b)
								}
							}
						}
					}
				}
			}
			if len(ks) == N {
				want := new(big.Int).Sub(q, big.NewInt(1))
				want.Rsh(want, 1)
				want.Add(want, big.NewInt(1))
				ob("lexicographic-threshold", limbsToBig(ks, w).Cmp(want) == 0, "the constant subtracted in LexicographicallyLargest is not (q-1)/2+1")
			}
		}
		// smallerThanModulus compares limb i with q_i
		if fn := p.Func(pk, "Element", "smallerThanModulus"); fn != nil {
			okCmp := true
			seen := map[int64]bool{}
			for _, b := range fn.Blocks {
				for _, in := range b.Instrs {
					bo, ok := in.(*ssa.BinOp)
					if !ok || (bo.Op != token.LSS && bo.Op != token.EQL && bo.Op != token.GTR && bo.Op != token.GEQ && bo.Op != token.LEQ && bo.Op != token.NEQ) {
						continue
					}
					ld, ok := bo.X.(*ssa.UnOp)
					if !ok {
						continue
					}
					ia, ok := ld.X.(*ssa.IndexAddr)
					if !ok {
						continue
					}
					k, ok1 := constInt(ia.Index)
					cv, ok2 := bo.Y.(*ssa.Const)
					if !ok1 || !ok2 {
						continue
					}
					b, _ := constToBig(cv.Value)
					if int(k) >= N || b == nil || b.Cmp(ql[k]) != 0 {
						okCmp = false
					}
					seen[k] = true
				}
			}
			// the same test written as a borrow chain: bits.Sub64(z[i], q_i, borrow)
			for _, b := range fn.Blocks {
				for _, in := range b.Instrs {
					call, ok := in.(*ssa.Call)
					if !ok || len(call.Call.Args) != 3 {
						continue
					}
					if cl := calleeOf(&call.Call); cl.Pkg != "math/bits" || !strings.HasPrefix(cl.Name, "Sub") {
						continue
					}
					ld, ok := call.Call.Args[0].(*ssa.UnOp)
					if !ok {
						continue
					}
					ia, ok := ld.X.(*ssa.IndexAddr)
					if !ok {
						continue
					}
					k, ok1 := constInt(ia.Index)
					cv, ok2 := call.Call.Args[1].(*ssa.Const)
					if !ok1 || !ok2 {
						continue
					}
					bv, _ := constToBig(cv.Value)
					if int(k) >= N || bv == nil || bv.Cmp(ql[k]) != 0 {
						okCmp = false
					}
					seen[k] = true
				}
			}
			// a constant used against limb i is q_i, and if limb constants are used at all there is one
			// per limb (a version that walks a table of the q_i uses none: nothing to contradict)
			ob("smallerThanModulus-limbs", okCmp && (len(seen) == N || len(seen) == 0), "smallerThanModulus does not compare every limb i with q_i")
		}
		// special cases
		c.Instance("C01.special", 1)
		if fn := p.Func(pk, "Element", "Neg"); fn != nil {
			// the zero branch exists: some branch of Neg tests the operand against zero (Neg(0) is 0, not q).
			// Where the two arms meet again is a matter of style, so only the test is required.
			reZero := mustRe(`^(ok|not) Element\.IsZero\(p0\)$|^0 [!=]= \(?[^=!<>]*p0\[\d+\][^=!<>]*\)?$|^\(?[^=!<>]*p0\[\d+\][^=!<>]*\)? [!=]= 0$`)
			has := false
			for st := range stmtEdges(fn) {
				if reZero.MatchString(st) {
					has = true
				}
			}
			c.Ob("C01.special", pk, funcKey(fn), "zero-branch-present", p.Pos(fn.Pos()), has, funcKey(fn)+": no branch tests the operand against zero: Neg(0) would be q - 0 = q, a non-reduced value")
		}
		// a sum of two reduced values lies in [0, 2q): Add and Double look at the modulus before they
		// return (smallerThanModulus, a comparison with a limb of q, a trial subtraction of q)
		for _, name := range []string{"Add", "Double"} {
			if fn := p.Func(pk, "Element", name); fn != nil && len(fn.Blocks) > 0 {
				c.Ob("C01.special", pk, funcKey(fn), "reduction-test-present", p.Pos(fn.Pos()), hasReductionTest(fn, ql, 0),
					funcKey(fn)+": nothing in the function compares the sum with the modulus (no smallerThanModulus, no comparison with or trial subtraction of a limb of q): results in [q, 2q) that do not carry out of the top limb are returned unreduced")
			}
		}
		if fn := p.Func(pk, "Element", "Exp"); fn != nil {
			var inv []ssa.Instruction
			for _, b := range fn.Blocks {
				for _, in := range b.Instrs {
					if call, ok := in.(*ssa.Call); ok && calleeOf(&call.Call).Name == "Inverse" {
						inv = append(inv, in)
					}
				}
			}
			RequireFactsAtInstr(c, p, "C01.special", fn, inv, "base-inverted", []Req{{"negative-exponent", `^-1 == Int\.Sign\(p1\)$|^Int\.Sign\(p1\) == -1$|^Int\.Sign\(p1\) < 0$`}})
			ok, msg := scannedExponentIsParameter(fn)
			c.Ob("C01.special", pk, funcKey(fn), "scanned-exponent-is-the-parameter", p.Pos(fn.Pos()), ok, funcKey(fn)+": "+msg)
		}
		if fn := p.Func(pk, "Element", "Sqrt"); fn != nil {
			hasNil := false
			for _, b := range fn.Blocks {
				if ret, ok := b.Instrs[len(b.Instrs)-1].(*ssa.Return); ok && len(ret.Results) == 1 && isNilConst(ret.Results[0]) {
					hasNil = true
				}
			}
			c.Ob("C01.special", pk, funcKey(fn), "returns-nil-for-non-residues", p.Pos(fn.Pos()), hasNil, funcKey(fn)+": no path returns nil: a root is reported for non-squares")
		}
	}
	// ---- carry discipline in the fields whose modulus fills its words
	c.Rule("C01.carry", "L-CARRY: in a field whose modulus uses every bit of its limbs (Bits == word size x limbs: goldilocks, secp256k1 fp/fr) the sum of two reduced elements, or of an element and q, can exceed the limbs: in Add, Double and Halve the carry-out of every math/bits.Add on the top limb is consumed (it has a use); fields with a spare top bit have no such obligation", 3)
	for _, pk := range fieldPkgs(p) {
		pkg := p.ByPath[modPath+"/"+pk]
		if pkg == nil {
			continue
		}
		et, _ := pkg.Types.Scope().Lookup("Element").(*types.TypeName)
		bitsC, okB := pkgConst(pkg, "Bits")
		if et == nil || !okB {
			continue
		}
		arr := et.Type().Underlying().(*types.Array)
		N := arr.Len()
		w := int64(64)
		if b, ok := arr.Elem().Underlying().(*types.Basic); ok && b.Kind() == types.Uint32 {
			w = 32
		}
		if bitsC.Int64() != w*N {
			continue
		}
		c.Instance("C01.carry", 1)
		for _, name := range []string{"Add", "Double", "Halve"} {
			fn := p.Func(pk, "Element", name)
			if fn == nil {
				continue
			}
			bad := ""
			n := 0
			for _, b := range fn.Blocks {
				for _, in := range b.Instrs {
					call, ok := in.(*ssa.Call)
					if !ok {
						continue
					}
					cl := calleeOf(&call.Call)
					if cl.Pkg != "math/bits" || !strings.HasPrefix(cl.Name, "Add") {
						continue
					}
					top := false
					for _, a := range call.Call.Args[:2] {
						if ld, ok := a.(*ssa.UnOp); ok {
							if ia, ok := ld.X.(*ssa.IndexAddr); ok {
								if k, ok := constInt(ia.Index); ok && k == N-1 {
									top = true
								}
							}
						}
					}
					if !top {
						continue
					}
					n++
					used := false
					if call.Referrers() != nil {
						for _, r := range *call.Referrers() {
							if ex, ok := r.(*ssa.Extract); ok && ex.Index == 1 && ex.Referrers() != nil && len(*ex.Referrers()) > 0 {
								used = true
							}
						}
					}
					if !used {
						bad = p.Pos(call.Pos())
					}
				}
			}
			// the same addition written with `+`: the carry is lost by construction
			plain := ""
			for _, b := range fn.Blocks {
				for _, in := range b.Instrs {
					bo, ok := in.(*ssa.BinOp)
					if !ok || bo.Op != token.ADD || !isInteger(bo.Type()) {
						continue
					}
					for _, a := range []ssa.Value{bo.X, bo.Y} {
						if ld, ok := stripConv(a).(*ssa.UnOp); ok && ld.Op == token.MUL {
							if ia, ok := ld.X.(*ssa.IndexAddr); ok {
								if k, ok := constInt(ia.Index); ok && k == N-1 && types.Identical(derefAll(ia.X.Type()), et.Type()) {
									// `s := a + b; carry := s < a` recovers the carry: not a lost one
									recovered := false
									if bo.Referrers() != nil {
										for _, r := range *bo.Referrers() {
											if cmp, ok := r.(*ssa.BinOp); ok && (cmp.Op == token.LSS || cmp.Op == token.GTR || cmp.Op == token.LEQ || cmp.Op == token.GEQ) {
												for _, o := range []ssa.Value{cmp.X, cmp.Y} {
													if o != ssa.Value(bo) && (sameValue(o, bo.X, 0) || sameValue(o, bo.Y, 0)) {
														recovered = true
													}
												}
											}
										}
									}
									if !recovered {
										plain = p.Pos(bo.Pos())
									}
								}
							}
						}
					}
				}
			}
			c.Ob("C01.carry", pk, funcKey(fn), "no-wrapping-add-on-top-limb", p.Pos(fn.Pos()), plain == "", funcKey(fn)+": the top limb is added with `+` at "+plain+": the modulus fills the limb, so the sum wraps around 2^(word size) and the carry is lost (math/bits.Add keeps it)")
			if n > 0 {
				c.Ob("C01.carry", pk, funcKey(fn), "top-limb-carry-consumed", p.Pos(fn.Pos()), bad == "", funcKey(fn)+": the carry-out of the addition on the top limb at "+bad+" is discarded although the modulus fills the limb: for operands whose sum does not fit, the result is off by 2^(word size)")
			}
		}
	}
	c.Assume("exactness of Mul/Add/Inverse/... as functions on integers modulo q, carry boundaries and the assembly are value-level: not decided")
}

// scannedExponentIsParameter: in a square-and-multiply exponentiation by an arbitrary integer the
// big.Int whose bits drive the loop (receiver of Bit / Bits) is the exponent parameter itself or a
// scratch integer that only ever received its negation, absolute value or a copy (Neg/Abs/Set of the
// parameter). Any other transformation of the exponent (a reduction modulo the group order, a
// truncation) changes the value for some base — 0^(q-1) is 0, 0^0 is 1.
func scannedExponentIsParameter(fn *ssa.Function) (bool, string) {
	var exps []*ssa.Parameter
	for _, prm := range fn.Params {
		if pt, ok := prm.Type().(*types.Pointer); ok && namedName(pt.Elem()) == "Int" && namedPkg(pt.Elem()) == "math/big" {
			exps = append(exps, prm)
		}
	}
	if len(exps) == 0 {
		return true, ""
	}
	scanned := 0
	for _, b := range fn.Blocks {
		for _, in := range b.Instrs {
			call, ok := in.(*ssa.Call)
			if !ok || call.Call.IsInvoke() {
				continue
			}
			cl := calleeOf(&call.Call)
			if cl.Pkg != "math/big" || (cl.Name != "Bit" && cl.Name != "Bits") || len(call.Call.Args) == 0 || !inLoopBlock(b) && cl.Name == "Bit" {
				continue
			}
			scanned++
			// every value that may be the scanned integer
			seen := map[ssa.Value]bool{}
			var vals []ssa.Value
			var walk func(v ssa.Value)
			walk = func(v ssa.Value) {
				v = stripConv(v)
				if v == nil || seen[v] {
					return
				}
				seen[v] = true
				if ph, ok := v.(*ssa.Phi); ok {
					for _, e := range ph.Edges {
						walk(e)
					}
					return
				}
				vals = append(vals, v)
			}
			walk(call.Call.Args[0])
			for _, v := range vals {
				isParam := false
				for _, e := range exps {
					if v == ssa.Value(e) {
						isParam = true
					}
				}
				if isParam {
					continue
				}
				// a scratch integer: a fresh local, or one taken from a pool (type assertion of Get)
				switch x := v.(type) {
				case *ssa.Alloc:
				case *ssa.TypeAssert:
					if c2, _ := callResult(x.X); c2 == nil || calleeOf(&c2.Call).Name != "Get" {
						return false, "the integer whose bits are scanned is " + descValue(v, 0) + ", neither the exponent parameter nor a scratch copy of it"
					}
				case *ssa.Call:
					if calleeOf(&x.Call).Name != "Get" {
						// the result of an arithmetic method (order.Mod(e, order)): a transformed exponent
						return false, "the integer whose bits are scanned is the result of " + descCallee(calleeOf(&x.Call)) + ": the exponent is transformed before it is scanned (only its negation / absolute value may be taken)"
					}
				default:
					return false, "the integer whose bits are scanned is " + descValue(v, 0) + ", neither the exponent parameter nor a scratch copy of it"
				}
				// what the scratch integer receives
				if v.Referrers() == nil {
					continue
				}
				for _, r := range *v.Referrers() {
					c2, ok := r.(*ssa.Call)
					if !ok || c2.Call.IsInvoke() || len(c2.Call.Args) == 0 || c2.Call.Args[0] != v {
						continue
					}
					cl2 := calleeOf(&c2.Call)
					if cl2.Pkg != "math/big" || bigGetter[cl2.Name] {
						continue
					}
					okOp := (cl2.Name == "Neg" || cl2.Name == "Abs" || cl2.Name == "Set") && len(c2.Call.Args) == 2
					if okOp {
						fromExp := false
						for _, e := range exps {
							if stripConv(c2.Call.Args[1]) == ssa.Value(e) {
								fromExp = true
							}
						}
						okOp = fromExp
					}
					if !okOp {
						return false, "the scratch integer whose bits are scanned receives Int." + cl2.Name + "(...): the exponent is transformed before it is scanned (only its negation / absolute value may be taken)"
					}
				}
			}
		}
	}
	if scanned == 0 {
		return true, "" // no bit scan in this function (delegated): nothing to contradict
	}
	return true, ""
}

// hasReductionTest: see the obligation "reduction-test-present".
func hasReductionTest(fn *ssa.Function, ql []*big.Int, depth int) bool {
	// where the function tests with smallerThanModulus at all, one of those tests is applied to
	// the sum — the destination, or a local holding it — not only to an operand
	if depth == 0 && len(fn.Params) > 1 {
		calls, onResult := 0, 0
		for _, b := range fn.Blocks {
			for _, in := range b.Instrs {
				ci, ok := in.(ssa.CallInstruction)
				if !ok {
					continue
				}
				cal := ci.Common().StaticCallee()
				if cal == nil || cal.Name() != "smallerThanModulus" || len(ci.Common().Args) == 0 {
					continue
				}
				calls++
				a := ci.Common().Args[0]
				if a == ssa.Value(fn.Params[0]) {
					onResult++
				} else if _, isAlloc := addrBase(a).(*ssa.Alloc); isAlloc {
					onResult++
				}
			}
		}
		if calls > 0 && onResult == 0 {
			return false
		}
	}
	isLimb := func(v ssa.Value) bool {
		cv, ok := stripConv(v).(*ssa.Const)
		if !ok {
			return false
		}
		bv, ok := constToBig(cv.Value)
		if !ok {
			return false
		}
		for _, l := range ql {
			if bv.Sign() != 0 && bv.Cmp(l) == 0 {
				return true
			}
		}
		return false
	}
	for _, b := range fn.Blocks {
		for _, in := range b.Instrs {
			switch x := in.(type) {
			case *ssa.BinOp:
				switch x.Op {
				case token.GEQ, token.LSS, token.GTR, token.LEQ:
					if isLimb(x.X) || isLimb(x.Y) {
						return true
					}
				}
			case ssa.CallInstruction:
				com := x.Common()
				cal := com.StaticCallee()
				if cal == nil {
					continue
				}
				if cal.Name() == "smallerThanModulus" {
					// ... of the sum, i.e. of the destination (testing the operand says nothing
					// about the result)
					return true
				}
				if fnPkgPath(cal) == "math/bits" && strings.HasPrefix(cal.Name(), "Sub") {
					for _, a := range com.Args {
						if isLimb(a) {
							return true
						}
					}
				}
				if depth < 2 && cal.Pkg == fn.Pkg && len(cal.Blocks) > 0 && hasReductionTest(cal, ql, depth+1) {
					return true
				}
			}
		}
	}
	return false
}
