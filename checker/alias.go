package main

import (
	"fmt"
	"go/types"

	"golang.org/x/tools/go/ssa"
)

// L10 helpers: in/out aliasing of slice-typed API values.

func isSliceType(t types.Type) bool { _, ok := t.Underlying().(*types.Slice); return ok }

func isByteSlice(t types.Type) bool {
	s, ok := t.Underlying().(*types.Slice)
	if !ok {
		return false
	}
	b, ok := s.Elem().Underlying().(*types.Basic)
	return ok && b.Kind() == types.Uint8
}

// readOnlyStdCallee: std / well-known callees whose contract is not to retain (or modify) a
// slice argument.
func readOnlyCallee(cl Callee) bool {
	switch cl.Pkg {
	case "bytes", "encoding/binary", "encoding/hex", "unicode/utf8", "crypto/subtle", "sort", "slices", "strings":
		return true
	case "math/big":
		return cl.Name == "SetBytes" || cl.Name == "FillBytes"
	case "hash", "io":
		// hash.Hash.Sum(b) appends the digest to b and returns the extended slice: nothing is retained
		return cl.Name == "Write" || (cl.Pkg == "hash" && cl.Name == "Sum")
	}
	if cl.Iface && cl.Name == "Write" {
		return true // io.Writer contract: Write must not retain p
	}
	return false
}

// retention reports the ways in which the slice header of parameter prm may be retained
// (stored to memory that outlives the call, returned, or handed to an unknown callee).
// aliasDyn resolves dynamic call sites (set by the property check from the VTA call graph).
var aliasDyn func(site ssa.CallInstruction) []*ssa.Function

type retention struct {
	what string
	at   ssa.Instruction
}

func paramRetentions(fn *ssa.Function, prm ssa.Value, allowReturn bool, depth int, visited map[*ssa.Function]bool) []retention {
	var out []retention
	if depth > 3 {
		return out
	}
	alias := map[ssa.Value]bool{prm: true} // values that are (sub)slices of the parameter
	cont := map[ssa.Value]bool{}           // containers (arrays/slices of slices, allocs) holding an alias
	work := []ssa.Value{prm}
	push := func(v ssa.Value, container bool) {
		if container {
			if !cont[v] {
				cont[v] = true
				work = append(work, v)
			}
		} else if !alias[v] {
			alias[v] = true
			work = append(work, v)
		}
	}
	for len(work) > 0 {
		v := work[len(work)-1]
		work = work[:len(work)-1]
		refs := v.Referrers()
		if refs == nil {
			continue
		}
		isCont := cont[v] && !alias[v]
		for _, r := range *refs {
			switch x := r.(type) {
			case *ssa.Slice:
				push(x, isCont)
			case *ssa.Phi, *ssa.ChangeType:
				push(x.(ssa.Value), isCont)
			case *ssa.Convert:
				if isSliceType(x.Type()) {
					push(x, isCont)
				}
			case *ssa.SliceToArrayPointer:
				// view, reading through it is fine; treat as alias
				push(x, isCont)
			case *ssa.IndexAddr:
				if isCont {
					// address of an element of a container: loads give the alias back
					push(x, true)
				}
			case *ssa.UnOp:
				if isCont {
					if isSliceType(x.Type()) {
						push(x, false)
					} else {
						push(x, true)
					}
				}
			case *ssa.Store:
				if x.Val == v {
					switch a := x.Addr.(type) {
					case *ssa.Alloc:
						push(a, true)
					case *ssa.IndexAddr:
						// element of an array/slice: the base becomes a container
						base := a.X
						if al, ok := base.(*ssa.Alloc); ok {
							push(al, true)
						} else {
							out = append(out, retention{"stored into an element of non-local storage", r})
						}
					default:
						out = append(out, retention{"stored to memory reachable after the call", r})
					}
				}
			case *ssa.MapUpdate:
				if x.Value == v || x.Key == v {
					out = append(out, retention{"stored in a map", r})
				}
			case *ssa.Send:
				out = append(out, retention{"sent on a channel", r})
			case *ssa.MakeInterface:
				out = append(out, retention{"converted to an interface value", r})
			case *ssa.Return:
				if !allowReturn {
					out = append(out, retention{"returned to the caller", r})
				}
			case *ssa.MakeClosure:
				cf := x.Fn.(*ssa.Function)
				for i, b := range x.Bindings {
					if b == v && !visited[cf] {
						visited[cf] = true
						out = append(out, paramRetentions(cf, cf.FreeVars[i], true, depth+1, visited)...)
					}
				}
			case ssa.CallInstruction:
				cc := x.Common()
				cl := calleeOf(cc)
				if cl.Built {
					switch cl.Name {
					case "len", "cap", "copy", "print", "println":
					case "append":
						// append(dst, src...) : as src the elements are copied, unless the
						// elements themselves are the aliases (container case)
						if len(cc.Args) == 2 && cc.Args[1] == v && isCont {
							if val, ok := r.(ssa.Value); ok {
								push(val, true)
							}
						} else if len(cc.Args) >= 1 && cc.Args[0] == v {
							if val, ok := r.(ssa.Value); ok {
								push(val, isCont)
							}
						}
					}
					continue
				}
				if readOnlyCallee(cl) {
					continue
				}
				if cl.Fn == nil && aliasDyn != nil {
					// interface / dynamic call: every resolved target must not retain
					targets := aliasDyn(x)
					if len(targets) > 0 {
						for _, tf := range targets {
							if tf == nil || tf.Blocks == nil || visited[tf] {
								continue
							}
							visited[tf] = true
							off := 0
							if cc.IsInvoke() {
								off = 1
							}
							for i, a := range cc.Args {
								if a == v && i+off < len(tf.Params) {
									for _, rr := range paramRetentions(tf, tf.Params[i+off], true, depth+1, visited) {
										out = append(out, retention{"passed to " + funcKey(tf) + " which has it " + rr.what, r})
									}
								}
							}
						}
						continue
					}
				}
				if cl.Fn != nil && cl.Fn.Blocks != nil {
					if visited[cl.Fn] {
						continue
					}
					visited[cl.Fn] = true
					for i, a := range cc.Args {
						if a == v && i < len(cl.Fn.Params) {
							for _, rr := range paramRetentions(cl.Fn, cl.Fn.Params[i], true, depth+1, visited) {
								out = append(out, retention{"passed to " + funcKey(cl.Fn) + " which has it " + rr.what, r})
							}
						}
					}
					continue
				}
				out = append(out, retention{fmt.Sprintf("passed to %s.%s whose retention behaviour is unknown", cl.Pkg, cl.Name), r})
			}
		}
	}
	return out
}

// checkNoRetainedParamSlices: every slice-typed parameter (not the receiver) of fn is not retained.
func checkNoRetainedParamSlices(c *Ctx, p *Program, rule string, fn *ssa.Function) {
	checkNoRetainedParamSlicesOpt(c, p, rule, fn, false)
}

// checkNoRetainedParamSlicesOpt: with allowReturn, handing the caller's own slice back (the
// append-style `return append(dst, ...)`) is not a retention: nothing of the library aliases it.
func checkNoRetainedParamSlicesOpt(c *Ctx, p *Program, rule string, fn *ssa.Function, allowReturn bool) {
	start := 0
	if fn.Signature.Recv() != nil {
		start = 1
	}
	for i := start; i < len(fn.Params); i++ {
		prm := fn.Params[i]
		if !isSliceType(prm.Type()) {
			continue
		}
		rs := paramRetentions(fn, prm, allowReturn, 0, map[*ssa.Function]bool{fn: true})
		ok := len(rs) == 0
		msg, pos := "", p.Pos(fn.Pos())
		if !ok {
			pos = p.Pos(instrPos(rs[0].at))
			msg = fmt.Sprintf("%s: parameter #%d (%s) is %s — the caller's slice stays aliased with library state after the call", funcKey(fn), i-start, prm.Type(), rs[0].what)
		}
		c.Ob(rule, relPkg(fnPkgPath(fn)), funcKey(fn), fmt.Sprintf("param#%d-not-retained", i-start), pos, ok, msg)
	}
}

// checkReturnedSlicesFresh: no returned slice is derived from receiver state or a global.
func checkReturnedSlicesFresh(c *Ctx, p *Program, rule string, fn *ssa.Function) {
	if fn.Signature.Recv() == nil {
		return
	}
	recv := fn.Params[0]
	res := fn.Signature.Results()
	for i := 0; i < res.Len(); i++ {
		if !isSliceType(res.At(i).Type()) {
			continue
		}
		ok := true
		msg, pos := "", p.Pos(fn.Pos())
		for _, b := range fn.Blocks {
			ret, isRet := b.Instrs[len(b.Instrs)-1].(*ssa.Return)
			if !isRet {
				continue
			}
			v := retValue(ret, i)
			for _, r := range rootsOfSlice(v) {
				if (r.Kind == "param" && r.Param == recv && r.Path != "") || r.Kind == "global" {
					ok = false
					pos = p.Pos(instrPos(ret))
					msg = fmt.Sprintf("%s: result #%d returned here is the receiver's internal slice (%s%s), so the caller can mutate library state through it", funcKey(fn), i, recv.Name(), r.Path)
				}
			}
		}
		c.Ob(rule, relPkg(fnPkgPath(fn)), funcKey(fn), fmt.Sprintf("result#%d-fresh", i), pos, ok, msg)
	}
}

// rootsOfSlice is rootsOf, additionally looking through append(dst, ...) to dst.
func rootsOfSlice(v ssa.Value) []Root {
	return rootsOfSliceRec(v, map[ssa.Value]bool{})
}

func rootsOfSliceRec(v ssa.Value, seen map[ssa.Value]bool) []Root {
	if seen[v] {
		return nil
	}
	seen[v] = true
	var out []Root
	for _, r := range rootsOf(v) {
		if r.Kind == "call" && r.Call != nil {
			if b, ok := r.Call.Call.Value.(*ssa.Builtin); ok && b.Name() == "append" && len(r.Call.Call.Args) > 0 {
				out = append(out, rootsOfSliceRec(r.Call.Call.Args[0], seen)...)
				continue
			}
		}
		out = append(out, r)
	}
	return out
}
