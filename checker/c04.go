package main

import (
	"fmt"
	"go/token"
	"go/types"
	"strings"

	"golang.org/x/tools/go/ssa"
)

func init() { register("C04", checkC04) }

func checkC04(c *Ctx) {
	p := mustLoad(c, K1)
	indexLints(c, p, "ecc/*")
	eff := sharedEffects(p)
	c.Rule("C04.guard", "GUARD: MultiExp returns a nil error only with len(points) == len(scalars) and a task count that is either defaulted (<= 0) or at most 1024; the affine wrapper and Fold delegate to it and propagate its error", 17*2)
	c.Rule("C04.sem", "SEMAPHORE-CAPACITY: in _innerMsm the token channel is created with capacity equal to (number of tokens pushed by the initial loop) + (trip count of the chunk loop, which may push one extra token per iteration): with that capacity neither the dispatcher nor a worker returning its token can block on a send, whatever the chunk statistics", 16)
	c.Rule("C04.pair", "ACQUIRE/RELEASE (L9): in every chunk processor, on every path from entry to return, the token is received exactly when it is later sent back (both under sem != nil), the release precedes the result send, and exactly one value is sent on the result channel", 32)
	c.Rule("C04.join", "JOIN (L8): every result channel created by _innerMsm is written by exactly one spawned goroutine per chunk and read by the reducer; the recursive split of MultiExp waits for the spawned half (receive on the done channel) before reading its result and returning", 32)
	c.Rule("C04.mod", "EFFECTS: MultiExp/Fold never write the caller's points or scalars", 17*2)

	for _, pk := range p.FamilyPkgs("ecc/*") {
		for _, g := range []string{"G1", "G2"} {
			jac := p.Func(pk, g+"Jac", "MultiExp")
			if jac == nil {
				continue
			}
			RequireFacts(c, p, "C04.guard", jac, AcceptNilErr, nil, []Req{
				{"LenEq(points,scalars)", `^len\(p0\) == len\(p1\)$`},
				{"NbTasks-defaulted-or-<=1024", `^p2\.NbTasks <= 0$|^p2\.NbTasks <= 1024$|^local:MultiExpConfig\.NbTasks <= 0$|^local:MultiExpConfig\.NbTasks <= 1024$`},
			})
			if aff := p.Func(pk, g+"Affine", "MultiExp"); aff != nil {
				RequireFacts(c, p, "C04.guard", aff, AcceptNilErr, nil, []Req{{"delegates", `^noerr ` + g + `Jac\.MultiExp\(.*,p0,p1,p2\)$`}})
			}
			if f := p.Func(pk, g+"Jac", "Fold"); f != nil {
				RequireFacts(c, p, "C04.guard", f, AcceptNilErr, nil, []Req{{"delegates", `^noerr ` + g + `Jac\.MultiExp\(pr,p0,.*,p2\)$`}})
			}
			// effects
			for _, fn := range []*ssa.Function{jac, p.Func(pk, g+"Affine", "MultiExp"), p.Func(pk, g+"Jac", "Fold"), p.Func(pk, g+"Affine", "Fold")} {
				if fn == nil {
					continue
				}
				c.Instance("C04.mod", 1)
				s := eff.Summary(fn)
				ok := true
				msg := ""
				for i := 1; i < len(fn.Params); i++ {
					if !isSliceType(fn.Params[i].Type()) {
						continue
					}
					if w := s.WritesRoot(i); len(w) > 0 {
						ok = false
						msg = funcKey(fn) + ": argument " + fn.Params[i].Name() + " is written"
					}
				}
				c.Ob("C04.mod", pk, funcKey(fn), "points-and-scalars-unmodified", p.Pos(fn.Pos()), ok, msg)
			}
			// semaphore capacity + channels
			if inner := p.Func(pk, "", "_innerMsm"+g); inner != nil {
				checkSemCapacity(c, p, inner)
				checkChunkChannels(c, p, inner)
			} else {
				c.Undecided("anchor %s._innerMsm%s not found", pk, g)
			}
			checkSplitJoin(c, p, jac)
		}
		// chunk processors (generic bodies: analysed on their origin)
		for _, fn := range libFuncs(p, pk) {
			if fn.Parent() != nil || !strings.HasPrefix(fn.Name(), "processChunk") {
				continue
			}
			checkTokenPairing(c, p, fn)
		}
	}
	for t := range eff.Trusted {
		c.Trust(t)
	}
	c.Assume("the value of the sum and the bucket arithmetic are value-level: not decided")
}

// checkSemCapacity: C04.sem.
func checkSemCapacity(c *Ctx, p *Program, fn *ssa.Function) {
	pkg, fk := relPkg(fnPkgPath(fn)), funcKey(fn)
	c.Instance("C04.sem", 1)
	var mk *ssa.MakeChan
	for _, b := range fn.Blocks {
		for _, in := range b.Instrs {
			if m, ok := in.(*ssa.MakeChan); ok {
				if ch, ok := m.Type().Underlying().(*types.Chan); ok {
					if st, ok := ch.Elem().Underlying().(*types.Struct); ok && st.NumFields() == 0 {
						mk = m
					}
				}
			}
		}
	}
	if mk == nil {
		c.Ob("C04.sem", pkg, fk, "token-channel-found", p.Pos(fn.Pos()), false, fk+": no token channel (chan struct{}) is created")
		return
	}
	// sends on the token channel in the function body (dispatcher)
	loops := loopsOf(fn)
	var bounds []ssa.Value
	nSends := 0
	for _, b := range fn.Blocks {
		for _, in := range b.Instrs {
			snd, ok := in.(*ssa.Send)
			if !ok || !chanDerivedFrom(snd.Chan, mk) {
				continue
			}
			nSends++
			// innermost loop containing the send
			var best *loopInfo
			for _, l := range loops {
				if l.blocks[b.Index] && (best == nil || len(l.blocks) < len(best.blocks)) {
					best = l
				}
			}
			if best == nil {
				bounds = append(bounds, nil)
				continue
			}
			bounds = append(bounds, tripCountBound(best))
		}
	}
	ok := nSends > 0
	msg := ""
	// capacity must be the sum of the trip-count bounds
	var terms []ssa.Value
	var split func(v ssa.Value)
	split = func(v ssa.Value) {
		v = stripConv(v)
		if b, isB := v.(*ssa.BinOp); isB && b.Op == token.ADD {
			split(b.X)
			split(b.Y)
			return
		}
		terms = append(terms, v)
	}
	split(mk.Size)
	used := make([]bool, len(terms))
	for _, bd := range bounds {
		if bd == nil {
			ok = false
			msg = fk + ": a token is pushed by the dispatcher outside a loop with a recognisable bound"
			continue
		}
		found := false
		for i, t := range terms {
			if !used[i] && sameValue(t, bd, 0) {
				used[i] = true
				found = true
				break
			}
		}
		if !found {
			ok = false
			msg = fmt.Sprintf("%s: the token channel has capacity %s but the dispatcher may push up to %s more tokens in a loop that the capacity does not account for: a worker returning its token (or the dispatcher) blocks forever when a chunk is split", fk, descValue(mk.Size, 0), descValue(bd, 0))
		}
	}
	c.Ob("C04.sem", pkg, fk, "capacity-covers-all-pushes", p.Pos(instrPos(mk)), ok, msg)
}

func chanDerivedFrom(v ssa.Value, mk *ssa.MakeChan) bool {
	seen := map[ssa.Value]bool{}
	var walk func(x ssa.Value, d int) bool
	walk = func(x ssa.Value, d int) bool {
		if x == nil || d > 8 || seen[x] {
			return false
		}
		seen[x] = true
		if x == ssa.Value(mk) {
			return true
		}
		switch y := x.(type) {
		case *ssa.Phi:
			for _, e := range y.Edges {
				if walk(e, d+1) {
					return true
				}
			}
		case *ssa.UnOp:
			if a, ok := y.X.(*ssa.Alloc); ok {
				for _, r := range *a.Referrers() {
					if st, ok := r.(*ssa.Store); ok && st.Addr == ssa.Value(a) && walk(st.Val, d+1) {
						return true
					}
				}
			}
		case *ssa.ChangeType:
			return walk(y.X, d+1)
		}
		return false
	}
	return walk(v, 0)
}

// tripCountBound: for `for i := 0; i < X; i++` returns X; for `for j := Y-1; j >= 0; j--`
// returns Y; nil otherwise.
func tripCountBound(l *loopInfo) ssa.Value {
	iff, ok := l.header.Instrs[len(l.header.Instrs)-1].(*ssa.If)
	if !ok {
		return nil
	}
	a := atomOf(iff.Cond)
	if a.Kind != "cmp" {
		return nil
	}
	ph, ok := stripConv(a.X).(*ssa.Phi)
	if !ok || ph.Block() != l.header {
		return nil
	}
	var init, stepK ssa.Value
	var step int64
	for _, e := range ph.Edges {
		e2 := stripConv(e)
		if b, ok := e2.(*ssa.BinOp); ok && stripConv(b.X) == ssa.Value(ph) {
			if k, ok := constInt(b.Y); ok {
				if b.Op == token.ADD {
					step = k
				} else if b.Op == token.SUB {
					step = -k
				}
				stepK = b
			}
			continue
		}
		init = e
	}
	if stepK == nil || init == nil {
		return nil
	}
	if step == 1 && a.Op == token.LSS {
		if k, ok := constInt(init); ok && k == 0 {
			return a.Y
		}
	}
	// for i := N; i > 0; i-- (or i >= 1): N iterations
	if step == -1 && (a.Op == token.GTR || a.Op == token.GEQ) {
		if k, ok := constInt(a.Y); ok && ((a.Op == token.GTR && k == 0) || (a.Op == token.GEQ && k == 1)) {
			return init
		}
	}
	// for i := 1; i <= N; i++: N iterations
	if step == 1 && a.Op == token.LEQ {
		if k, ok := constInt(init); ok && k == 1 {
			return a.Y
		}
	}
	if step == -1 && a.Op == token.GEQ {
		if k, ok := constInt(a.Y); ok && k == 0 {
			// init = Y - 1 (possibly converted)
			iv := stripConv(init)
			if cv, ok := iv.(*ssa.Convert); ok {
				iv = cv.X
			}
			if b, ok := stripConvAll(init).(*ssa.BinOp); ok && b.Op == token.SUB {
				if k, ok := constInt(b.Y); ok && k == 1 {
					return b.X
				}
			}
			_ = iv
		}
	}
	return nil
}

// stripConvAll removes integer conversions of any width.
func stripConvAll(v ssa.Value) ssa.Value {
	for {
		switch x := v.(type) {
		case *ssa.Convert:
			v = x.X
		case *ssa.ChangeType:
			v = x.X
		default:
			return v
		}
	}
}

// checkChunkChannels: each chChunks[j] gets exactly one producer per loop iteration and the
// reducer receives the channels.
func checkChunkChannels(c *Ctx, p *Program, fn *ssa.Function) {
	pkg, fk := relPkg(fnPkgPath(fn)), funcKey(fn)
	c.Instance("C04.join", 1)
	// the function must end by returning the reducer's result
	okRet := false
	for _, b := range fn.Blocks {
		if ret, ok := b.Instrs[len(b.Instrs)-1].(*ssa.Return); ok && len(ret.Results) == 1 {
			if call, _ := callResult(retValue(ret, 0)); call != nil && strings.HasPrefix(calleeOf(&call.Call).Name, "msmReduceChunk") {
				okRet = true
			}
		}
	}
	c.Ob("C04.join", pkg, fk, "returns-reducer-result", p.Pos(fn.Pos()), okRet, fk+": the result is not the reduction over the chunk channels (a chunk could be dropped or read before it is produced)")
	// in the chunk loop, every path through one iteration spawns a producer for chChunks[j]:
	// either `go processChunk(j, chChunks[j], ...)` or the split form whose collector sends to chChunks[chunkID]
	nGo := 0
	for _, b := range fn.Blocks {
		for _, in := range b.Instrs {
			if _, ok := in.(*ssa.Go); ok {
				nGo++
			}
		}
	}
	c.Ob("C04.join", pkg, fk, "producers-spawned", p.Pos(fn.Pos()), nGo >= 2, fk+": chunk producers are not spawned as goroutines")
	// the collector of the halves of a split chunk has a channel of its own: a channel from which a
	// goroutine spawned in the chunk loop receives is made in the same iteration (one made before
	// the loop is shared by the collectors of all overweight chunks, which then take each other's
	// partial sums)
	okOwn := true
	posOwn := p.Pos(fn.Pos())
	loops := loopsOf(fn)
	for _, b := range fn.Blocks {
		for _, in := range b.Instrs {
			g, ok := in.(*ssa.Go)
			if !ok {
				continue
			}
			mc, ok := g.Call.Value.(*ssa.MakeClosure)
			if !ok {
				continue
			}
			cf, _ := mc.Fn.(*ssa.Function)
			if cf == nil {
				continue
			}
			// innermost loop containing the go statement
			var inner *loopInfo
			for _, l := range loops {
				if l.blocks[b.Index] && (inner == nil || len(l.blocks) < len(inner.blocks)) {
					inner = l
				}
			}
			if inner == nil {
				continue
			}
			for i, fv := range cf.FreeVars {
				// does the closure receive from this captured channel?
				recvs := false
				for _, cb := range cf.Blocks {
					for _, ci := range cb.Instrs {
						if u, isU := ci.(*ssa.UnOp); isU && u.Op == token.ARROW {
							if ld, isLd := u.X.(*ssa.UnOp); isLd && ld.X == ssa.Value(fv) {
								recvs = true
							}
							if u.X == ssa.Value(fv) {
								recvs = true
							}
						}
					}
				}
				if !recvs || i >= len(mc.Bindings) {
					continue
				}
				// the captured variable's cell and the channel stored in it
				var made *ssa.MakeChan
				bind := mc.Bindings[i]
				if m, isM := bind.(*ssa.MakeChan); isM {
					made = m
				} else if al, isAl := bind.(*ssa.Alloc); isAl && al.Referrers() != nil {
					for _, r := range *al.Referrers() {
						if st, isSt := r.(*ssa.Store); isSt && st.Addr == ssa.Value(al) {
							if m, isM := st.Val.(*ssa.MakeChan); isM {
								made = m
							}
						}
					}
				}
				if made != nil && !inner.blocks[made.Block().Index] {
					okOwn = false
					posOwn = p.Pos(made.Pos())
				}
			}
		}
	}
	c.Ob("C04.join", pkg, fk, "collector-channel-per-chunk", posOwn, okOwn, fk+": the channel made at "+posOwn+" is received from by a goroutine spawned in the chunk loop but is made outside the loop: the collectors of different chunks share it and take each other's partial sums")
}

// checkSplitJoin: the recursive split in MultiExp joins before returning.
func checkSplitJoin(c *Ctx, p *Program, fn *ssa.Function) {
	pkg, fk := relPkg(fnPkgPath(fn)), funcKey(fn)
	c.Instance("C04.join", 1)
	var gos []*ssa.Go
	for _, b := range fn.Blocks {
		for _, in := range b.Instrs {
			if g, ok := in.(*ssa.Go); ok {
				gos = append(gos, g)
			}
		}
	}
	if len(gos) == 0 {
		c.Ob("C04.join", pkg, fk, "split-joined", p.Pos(fn.Pos()), true, "")
		return
	}
	ok := true
	for _, g := range gos {
		// a receive on a channel closed/sent by the goroutine must follow on every path to a return
		joined := false
		for _, b := range fn.Blocks {
			for _, in := range b.Instrs {
				u, isRecv := in.(*ssa.UnOp)
				if !isRecv || u.Op != token.ARROW {
					continue
				}
				if !instrDominates(g, in) {
					continue
				}
				// every return reachable from the go statement is dominated by this receive
				all := true
				for _, rb := range fn.Blocks {
					if ret, isRet := rb.Instrs[len(rb.Instrs)-1].(*ssa.Return); isRet && blockReaches(fn, g.Block(), rb) {
						if !instrDominates(in, ret) {
							all = false
						}
					}
				}
				if all {
					joined = true
				}
			}
		}
		if !joined {
			ok = false
		}
	}
	c.Ob("C04.join", pkg, fk, "split-joined", p.Pos(fn.Pos()), ok, fk+": a goroutine spawned for the recursive split is not awaited (receive on its done channel) on every path to the return that uses its result")
}

// checkTokenPairing: C04.pair on one chunk processor.
func checkTokenPairing(c *Ctx, p *Program, fn *ssa.Function) {
	pkg, fk := relPkg(fnPkgPath(fn)), funcKey(fn)
	c.Instance("C04.pair", 1)
	var sem, chRes *ssa.Parameter
	for _, prm := range fn.Params {
		if ch, ok := prm.Type().Underlying().(*types.Chan); ok {
			if st, ok := ch.Elem().Underlying().(*types.Struct); ok && st.NumFields() == 0 {
				sem = prm
			} else {
				chRes = prm
			}
		}
	}
	if sem == nil || chRes == nil {
		c.Ob("C04.pair", pkg, fk, "channels-found", p.Pos(fn.Pos()), false, fk+": token / result channel parameters not recognised")
		return
	}
	// enumerate the two truth values of `sem != nil`
	okAll := true
	msg := ""
	for _, semNil := range []bool{true, false} {
		deleted := map[edge]bool{}
		for _, b := range fn.Blocks {
			iff, ok := b.Instrs[len(b.Instrs)-1].(*ssa.If)
			if !ok {
				continue
			}
			a := atomOf(iff.Cond)
			if a.Kind == "nilcmp" && a.X == ssa.Value(sem) {
				// a: X == nil on true edge iff !Neg
				nilEdge := 0
				if a.Neg {
					nilEdge = 1
				}
				if semNil {
					deleted[edge{b.Index, b.Succs[1-nilEdge].Index}] = true
				} else {
					deleted[edge{b.Index, b.Succs[nilEdge].Index}] = true
				}
			}
		}
		// forward dataflow of (acquired, released, sent) counts; loops must not contain the ops
		type st struct{ acq, rel, snd int }
		in := map[int]st{0: {}}
		visited := map[int]bool{}
		work := []int{0}
		for len(work) > 0 {
			bi := work[0]
			work = work[1:]
			if visited[bi] {
				continue
			}
			visited[bi] = true
			s := in[bi]
			b := fn.Blocks[bi]
			for _, instr := range b.Instrs {
				switch x := instr.(type) {
				case *ssa.UnOp:
					if x.Op == token.ARROW && x.X == ssa.Value(sem) {
						s.acq++
					}
				case *ssa.Send:
					if x.Chan == ssa.Value(sem) {
						if s.snd > 0 {
							okAll = false
							msg = fk + ": the token is released after the result was sent"
						}
						s.rel++
					} else if x.Chan == ssa.Value(chRes) {
						s.snd++
					}
				case *ssa.Return:
					if s.acq != s.rel || s.snd != 1 || (!semNil && s.acq != 1) || (semNil && s.acq != 0) {
						okAll = false
						msg = fmt.Sprintf("%s: on a path to a return (sem %s) the token is acquired %d and released %d times and %d result(s) are sent", fk, map[bool]string{true: "== nil", false: "!= nil"}[semNil], s.acq, s.rel, s.snd)
					}
				}
			}
			for _, sc := range b.Succs {
				if deleted[edge{bi, sc.Index}] {
					continue
				}
				if old, seen := in[sc.Index]; seen {
					if old != s && !sc.Dominates(b) {
						okAll = false
						msg = fk + ": paths with different acquire/release/send counts merge"
					}
					continue
				}
				in[sc.Index] = s
				work = append(work, sc.Index)
			}
		}
	}
	c.Ob("C04.pair", pkg, fk, "acquire-release-send-balanced", p.Pos(fn.Pos()), okAll, msg)
}
