package main

import (
	"fmt"
	"go/token"
	"go/types"
	"regexp"
	"sort"
	"strings"
	"sync"

	"golang.org/x/tools/go/ssa"
)

// Extensions of the GUARD statement model that make it independent of how a check is packaged:
//
//  1. CALLEE FACTS. When an edge is the success (or failure) edge of a call to a function of this
//     module, every statement that holds on all paths of the callee leading to that outcome also
//     holds on the edge, with the callee's parameters replaced by the descriptions of the
//     arguments. A range check moved into `checkScalarRange(x, mod) error`, a hash computation
//     moved into `hashRAM(...) (..., error)` keep establishing the same statements in the caller.
//  2. RESULT PHIS. `return a && b`, `return err` after `if err == nil { err = g() }`: the value
//     returned is a phi; an incoming edge that carries the constant false (a non-nil error) cannot be
//     an accepting path, and an edge that carries a boolean value v (an error value e) is an
//     accepting path only if v is true (e is nil): the statements of v hold on it.
//  3. COMPARISON IDIOMS. x.Cmp(y) compared with a constant is rendered in one canonical form per
//     relation (Cmp(..) >= 0 and Cmp(..) != -1 are the same statement), x.Sign() compared with 0 is
//     also rendered as the comparison of x with big.NewInt(0) and conversely.

// AcceptFalseBool: (first) bool result may be false — used for callee facts on the failure edge.
const AcceptFalseBool AcceptKind = 100

var (
	calleeFactMu   sync.Mutex
	calleeFactMemo = map[calleeFactKey][]string{}
	calleeFactBusy = map[*ssa.Function]bool{}
)

type calleeFactKey struct {
	fn   *ssa.Function
	kind AcceptKind
}

// outcomeFacts: statements (over the callee's own parameters) that hold on every path of callee
// ending in the given outcome. Empty for functions outside the module, without body, too large,
// or currently being summarised (recursion).
func outcomeFacts(callee *ssa.Function, kind AcceptKind) []string {
	if callee == nil || callee.Blocks == nil || len(callee.Blocks) > 400 || !strings.HasPrefix(fnPkgPath(callee), modPath) {
		return nil
	}
	k := calleeFactKey{callee, kind}
	calleeFactMu.Lock()
	if v, ok := calleeFactMemo[k]; ok {
		calleeFactMu.Unlock()
		return v
	}
	if calleeFactBusy[callee] {
		calleeFactMu.Unlock()
		return nil
	}
	calleeFactBusy[callee] = true
	calleeFactMu.Unlock()

	sig := guardSignature(callee, kind)
	var out []string
	have := map[string]bool{}
	for _, f := range sig.Sorted() {
		if strings.Contains(f, "_") && !strings.Contains(f, "p") {
			continue
		}
		out = append(out, f)
		have[f] = true
	}
	// bounded, call-based statements (the ones rules ask for) first
	rank := func(f string) int {
		switch {
		case strings.HasPrefix(f, "ok "), strings.HasPrefix(f, "noerr "), strings.HasPrefix(f, "not "):
			return 0
		case strings.Contains(f, "len("):
			return 1
		}
		return 2
	}
	sort.SliceStable(out, func(i, j int) bool {
		if rank(out[i]) != rank(out[j]) {
			return rank(out[i]) < rank(out[j])
		}
		return len(out[i]) < len(out[j])
	})
	if len(out) > 160 {
		out = out[:160]
	}
	// facts that hold under an assumption on one branch of the callee (`if subGroupCheck {...}`,
	// `if cur.position != 0 {...}`): rendered "[c ¦ n] F" where c is the statement of the assumed
	// edge and n the statement of the other edge; the caller resolves them against the statements
	// its rule assumes away (see resolveConditionals)
	if len(callee.Blocks) <= 80 {
		nc := 0
		for _, b := range callee.Blocks {
			iff, ok := b.Instrs[len(b.Instrs)-1].(*ssa.If)
			if !ok {
				continue
			}
			at := atomOf(iff.Cond)
			for ei := 0; ei < 2; ei++ {
				cond, neg := descAtom(at, ei), descAtom(at, 1-ei)
				if cond == "" || neg == "" || loopNoise(cond) || !strings.Contains(cond, "p") {
					continue
				}
				cs := guardSignatureAssuming(callee, kind, neg)
				n := 0
				for _, f := range cs {
					if have[f] || (strings.Contains(f, "_") && !strings.Contains(f, "p")) || f == cond {
						continue
					}
					out = append(out, "["+cond+" ¦ "+neg+"] "+f)
					if n++; n > 24 {
						break
					}
				}
				if nc++; nc > 40 {
					break
				}
			}
		}
	}
	calleeFactMu.Lock()
	calleeFactMemo[k] = out
	delete(calleeFactBusy, callee)
	calleeFactMu.Unlock()
	return out
}

var reParamTok = regexp.MustCompile(`\bp(r|\d+)\b`)

// translateFacts rewrites callee statements into the caller's vocabulary.
func translateFacts(facts []string, call *ssa.Call) []string {
	if len(facts) == 0 {
		return nil
	}
	callee := call.Call.StaticCallee()
	if callee == nil {
		return nil
	}
	isMethod := callee.Signature.Recv() != nil
	args := call.Call.Args
	descArg := func(i int) string {
		if i < 0 || i >= len(args) {
			return "_"
		}
		if al, ok := args[i].(*ssa.Alloc); ok {
			return descAllocAt(al, call, 1)
		}
		return descValue(args[i], 1)
	}
	// a local handed over by address that was assigned exactly once (x, err := f(); g(&x)) is also
	// described by the value it holds: the fact then reads as it would with the callee's body in place
	altArg := func(i int) string {
		if i < 0 || i >= len(args) {
			return ""
		}
		al, ok := args[i].(*ssa.Alloc)
		if !ok || al.Referrers() == nil {
			return ""
		}
		var only *ssa.Store
		for _, r := range *al.Referrers() {
			if st, isSt := r.(*ssa.Store); isSt && st.Addr == ssa.Value(al) {
				if only != nil {
					return ""
				}
				only = st
			}
		}
		if only == nil || !instrDominates(only, call) {
			return ""
		}
		return descValue(only.Val, 1)
	}
	var out []string
	for pass := 0; pass < 2; pass++ {
		for _, f := range facts {
			bad := false
			changed := false
			g := reParamTok.ReplaceAllStringFunc(f, func(tok string) string {
				idx := 0
				if tok == "pr" {
					if !isMethod {
						bad = true
						return tok
					}
					idx = 0
				} else {
					n := 0
					fmt.Sscanf(tok[1:], "%d", &n)
					idx = n
					if isMethod {
						idx = n + 1
					}
				}
				d := descArg(idx)
				if pass == 1 {
					if a := altArg(idx); a != "" && a != "_" && a != d {
						d, changed = a, true
					}
				}
				if d == "_" {
					bad = true
				}
				return d
			})
			if !bad && (pass == 0 || changed) {
				out = append(out, g)
			}
		}
	}
	return out
}

// derivedStmts: statements implied by the primary statement of an edge.
func derivedStmts(a Atom, ei int) []string {
	holds := ei == 0
	var out []string
	switch a.Kind {
	case "call":
		if a.Call.Call.IsInvoke() {
			break
		}
		callee := a.Call.Call.StaticCallee()
		if callee == nil {
			break
		}
		kind := AcceptTrueBool
		if holds == a.Neg {
			kind = AcceptFalseBool
		}
		if resultIndex(callee, AcceptTrueBool) != a.Idx {
			break
		}
		out = append(out, translateFacts(outcomeFacts(callee, kind), a.Call)...)
	case "nilcmp":
		isNil := holds != a.Neg
		call, idx := callResult(a.X)
		if call == nil || !isNil || !isErrorType(a.X.Type()) || call.Call.IsInvoke() {
			break
		}
		callee := call.Call.StaticCallee()
		if callee == nil || resultIndex(callee, AcceptNilErr) != idx {
			break
		}
		out = append(out, translateFacts(outcomeFacts(callee, AcceptNilErr), call)...)
	case "cmp":
		out = append(out, cmpAliases(a, holds)...)
		// a length is never negative: len(x) != 0, 0 < len(x) and 1 <= len(x) are one statement
		{
			op := a.Op
			if !holds {
				op = negOp(op)
			}
			x, y := a.X, a.Y
			if lenOf(y) != nil && lenOf(x) == nil {
				x, y, op = y, x, swapOp(op)
			}
			if l := lenOf(x); l != nil {
				if k, ok := constInt(y); ok {
					d := "len(" + descValue(l, 1) + ")"
					nonEmpty := (op == token.NEQ && k == 0) || (op == token.GTR && k == 0) || (op == token.GEQ && k == 1)
					empty := (op == token.EQL && k == 0) || (op == token.LSS && k == 1) || (op == token.LEQ && k == 0)
					if nonEmpty {
						out = append(out, "0 != "+d, "0 < "+d, "1 <= "+d)
					}
					if empty {
						out = append(out, "0 == "+d)
					}
				}
			}
		}
		// uint(c) < uint(n): the unsigned comparison also says 0 <= c (the single-comparison range check)
		op := a.Op
		if !holds {
			op = negOp(op)
		}
		x, y := a.X, a.Y
		if op == token.GTR || op == token.GEQ {
			x, y, op = y, x, swapOp(op)
		}
		if op == token.LSS || op == token.LEQ {
			if cv, ok := x.(*ssa.Convert); ok && isUnsigned(cv.Type()) && isInteger(cv.X.Type()) && !isUnsigned(cv.X.Type()) {
				if _, yc := y.(*ssa.Convert); yc || op == token.LSS {
					out = append(out, "0 <= "+descValue(cv.X, 0))
				}
			}
		}
	}
	return out
}

func isUnsigned(t types.Type) bool {
	b, ok := t.Underlying().(*types.Basic)
	return ok && b.Info()&types.IsUnsigned != 0
}

// cmpAliases: canonical renderings of three-way comparison results tested against constants.
func cmpAliases(a Atom, holds bool) []string {
	op := a.Op
	if !holds {
		op = negOp(op)
	}
	x, y := a.X, a.Y
	k, ok := constInt(y)
	if !ok {
		if k2, ok2 := constInt(x); ok2 {
			x, y, k, op = y, x, k2, swapOp(op)
			ok = true
		}
	}
	if !ok {
		return nil
	}
	call, _ := callResult(stripConv(x))
	if call == nil || call.Call.IsInvoke() {
		return nil
	}
	cl := calleeOf(&call.Call)
	if cl.Name != "Cmp" && cl.Name != "Sign" && cl.Name != "CmpAbs" {
		return nil
	}
	// the subset of {-1,0,1} for which (c op k) holds
	var set []int
	for _, c := range []int64{-1, 0, 1} {
		t := false
		switch op {
		case token.EQL:
			t = c == k
		case token.NEQ:
			t = c != k
		case token.LSS:
			t = c < k
		case token.LEQ:
			t = c <= k
		case token.GTR:
			t = c > k
		case token.GEQ:
			t = c >= k
		}
		if t {
			set = append(set, int(c))
		}
	}
	canon := ""
	switch fmt.Sprint(set) {
	case "[-1]":
		canon = "-1 == %s"
	case "[0]":
		canon = "0 == %s"
	case "[1]":
		canon = "1 == %s"
	case "[0 1]":
		canon = "-1 != %s"
	case "[-1 1]":
		canon = "0 != %s"
	case "[-1 0]":
		canon = "1 != %s"
	default:
		return nil
	}
	d := descCall(call, 0)
	out := []string{fmt.Sprintf(canon, d)}
	const zero = "math/big.NewInt(0)"
	switch {
	case cl.Name == "Sign" && cl.Pkg == "math/big" && strings.HasPrefix(d, "Int.Sign(") && strings.HasSuffix(d, ")"):
		arg := strings.TrimSuffix(strings.TrimPrefix(d, "Int.Sign("), ")")
		out = append(out, fmt.Sprintf(canon, "Int.Cmp("+arg+","+zero+")"))
	case cl.Name == "Cmp" && cl.Pkg == "math/big" && strings.HasSuffix(d, ","+zero+")"):
		arg := strings.TrimSuffix(strings.TrimPrefix(d, "Int.Cmp("), ","+zero+")")
		out = append(out, fmt.Sprintf(canon, "Int.Sign("+arg+")"))
	}
	return out
}

// allEdgeStmts: primary + derived statements of an edge, deduplicated.
func allEdgeStmts(a Atom, ei int) []string {
	s := descAtom(a, ei)
	if s == "" || s == "_" || s == "!_" {
		return nil
	}
	out := []string{s}
	seen := map[string]bool{s: true}
	for _, d := range derivedStmts(a, ei) {
		if d != "" && !seen[d] {
			seen[d] = true
			out = append(out, d)
		}
	}
	return out
}

// inLoopBlock: is b part of a natural loop of its function?
func inLoopBlock(b *ssa.BasicBlock) bool {
	for _, l := range loopsOf(b.Parent()) {
		if l.blocks[b.Index] {
			return true
		}
	}
	return false
}

// resultPhiModel refines the accept analysis for results that are phis located in the block of
// the return (see 2. above). It adds statements to byStmt and returns the edges that cannot lie on
// an accepting path.
func resultPhiModel(fn *ssa.Function, acc []acceptRet, kind AcceptKind, byStmt map[string]map[edge]bool) map[edge]bool {
	dead := map[edge]bool{}
	if kind != AcceptTrueBool && kind != AcceptNilErr && kind != AcceptFalseBool {
		return dead
	}
	add := func(s string, e edge) {
		if s == "" || s == "_" || s == "!_" {
			return
		}
		if byStmt[s] == nil {
			byStmt[s] = map[edge]bool{}
		}
		byStmt[s][e] = true
	}
	for _, a := range acc {
		phi, ok := a.val.(*ssa.Phi)
		if !ok && a.val != nil && kind == AcceptNilErr {
			// `if err == nil { ... }; return err`: the edge on which err is known non-nil does not lie
			// on an accepting path of this return
			blk := a.ret.Block()
			for _, pred := range blk.Preds {
				if edgeKnowsNonNil(a.val, pred, blk) {
					dead[edge{pred.Index, blk.Index}] = true
				}
			}
			continue
		}
		if !ok || phi.Block() != a.ret.Block() {
			continue
		}
		blk := phi.Block()
		for i, v := range phi.Edges {
			pred := blk.Preds[i]
			e := edge{pred.Index, blk.Index}
			// two edges between the same pair of blocks cannot be told apart
			n := 0
			for _, s := range pred.Succs {
				if s == blk {
					n++
				}
			}
			if n != 1 {
				continue
			}
			switch kind {
			case AcceptTrueBool, AcceptFalseBool:
				want := kind == AcceptTrueBool
				if b, isConst := constBool(v); isConst {
					if b != want {
						dead[e] = true
					}
					continue
				}
				if _, isPhi := v.(*ssa.Phi); isPhi {
					continue
				}
				ei := 0
				if !want {
					ei = 1
				}
				for _, s := range allEdgeStmts(atomOf(v), ei) {
					add(s, e)
				}
			case AcceptNilErr:
				if !mayBeNilErr(v, pred, 0) || edgeKnowsNonNil(v, pred, blk) {
					dead[e] = true
					continue
				}
				if call, idx := callResult(v); call != nil && isErrorType(v.Type()) {
					add("noerr "+descCall(call, 0), e)
					if !call.Call.IsInvoke() {
						if callee := call.Call.StaticCallee(); callee != nil && resultIndex(callee, AcceptNilErr) == idx {
							for _, s := range translateFacts(outcomeFacts(callee, AcceptNilErr), call) {
								add(s, e)
							}
						}
					}
				}
			}
		}
	}
	return dead
}

// delegations: the statements carried by a return that hands back the result of a call or a
// comparison (primary + derived).
func delegations(a acceptRet, kind AcceptKind) []string {
	d := delegation(a)
	if d == "" {
		return nil
	}
	out := []string{d}
	if a.val == nil {
		return out
	}
	if call, idx := callResult(a.val); call != nil && !call.Call.IsInvoke() {
		if callee := call.Call.StaticCallee(); callee != nil {
			switch {
			case isErrorType(a.val.Type()) && resultIndex(callee, AcceptNilErr) == idx:
				out = append(out, translateFacts(outcomeFacts(callee, AcceptNilErr), call)...)
			case kind == AcceptTrueBool && resultIndex(callee, AcceptTrueBool) == idx:
				out = append(out, translateFacts(outcomeFacts(callee, AcceptTrueBool), call)...)
			}
		}
		return out
	}
	switch a.val.(type) {
	case *ssa.BinOp, *ssa.UnOp:
		at := atomOf(a.val)
		for _, s := range derivedStmts(at, 0) {
			out = append(out, s)
		}
	}
	sort.Strings(out[1:])
	return out
}

// ---- call sites of unexported functions (all of them are in the function's own package) ----

var (
	pkgSitesMu   sync.Mutex
	pkgSitesMemo = map[*ssa.Package]map[*ssa.Function][]ssa.CallInstruction{}
)

func pkgFunctions(pkg *ssa.Package) []*ssa.Function {
	var out []*ssa.Function
	seen := map[*ssa.Function]bool{}
	var add func(f *ssa.Function)
	add = func(f *ssa.Function) {
		if f == nil || seen[f] {
			return
		}
		seen[f] = true
		out = append(out, f)
		for _, a := range f.AnonFuncs {
			add(a)
		}
	}
	for _, m := range pkg.Members {
		switch x := m.(type) {
		case *ssa.Function:
			add(x)
		case *ssa.Type:
			for _, t := range []types.Type{x.Type(), types.NewPointer(x.Type())} {
				ms := pkg.Prog.MethodSets.MethodSet(t)
				for i := 0; i < ms.Len(); i++ {
					if f := pkg.Prog.MethodValue(ms.At(i)); f != nil && f.Pkg == pkg {
						add(f)
					}
				}
			}
		}
	}
	return out
}

// callSitesInPkg: the static call sites of an unexported function or method (nil, false if callee
// is exported, has no package, or its value escapes as a function value).
func callSitesInPkg(callee *ssa.Function) ([]ssa.CallInstruction, bool) {
	if callee == nil || callee.Pkg == nil || callee.Object() == nil || callee.Object().Exported() {
		return nil, false
	}
	pkgSitesMu.Lock()
	defer pkgSitesMu.Unlock()
	m, ok := pkgSitesMemo[callee.Pkg]
	if !ok {
		m = map[*ssa.Function][]ssa.CallInstruction{}
		escaped := map[*ssa.Function]bool{}
		for _, f := range pkgFunctions(callee.Pkg) {
			for _, b := range f.Blocks {
				for _, in := range b.Instrs {
					if ci, ok := in.(ssa.CallInstruction); ok {
						if sc := ci.Common().StaticCallee(); sc != nil {
							if o := sc.Origin(); o != nil {
								sc = o
							}
							m[sc] = append(m[sc], ci)
						}
					}
					// a function used as a value (not as the callee) escapes
					for _, op := range in.Operands(nil) {
						if op == nil || *op == nil {
							continue
						}
						if g, ok := (*op).(*ssa.Function); ok {
							if ci, isCall := in.(ssa.CallInstruction); isCall && ci.Common().Value == ssa.Value(g) {
								continue
							}
							escaped[g] = true
						}
					}
				}
			}
		}
		for g := range escaped {
			m[g] = append(m[g], nil) // marker
		}
		pkgSitesMemo[callee.Pkg] = m
	}
	sites := m[callee]
	for _, s := range sites {
		if s == nil {
			return nil, false
		}
	}
	return sites, true
}

// paramNeverNilError: callee's parameter p (of type error) receives a value that cannot be nil at
// every call site of the (unexported) callee.
func paramNeverNilError(p *ssa.Parameter) bool {
	fn := p.Parent()
	sites, ok := callSitesInPkg(fn)
	if !ok || len(sites) == 0 {
		return false
	}
	idx := -1
	for i, q := range fn.Params {
		if q == p {
			idx = i
		}
	}
	if idx < 0 {
		return false
	}
	for _, s := range sites {
		args := s.Common().Args
		if idx >= len(args) {
			return false
		}
		if _, isParam := args[idx].(*ssa.Parameter); isParam {
			return false
		}
		blk := s.Block()
		if mayBeNilErr(args[idx], blk, 6) {
			return false
		}
	}
	return true
}

// ---- helpers that receive the parameters of their caller ----

type forwarded struct {
	callee *ssa.Function
	site   ssa.CallInstruction
	param  map[int]int // caller parameter index (receiver excluded, as in "p0") -> callee parameter index
}

// forwardedHelpers: static callees of fn in fn's own package that are handed parameters of fn
// unchanged (possibly in other positions).
func forwardedHelpers(fn *ssa.Function) []forwarded {
	var out []forwarded
	idxOf := func(f *ssa.Function, p *ssa.Parameter) int {
		for i, q := range f.Params {
			if q == p {
				if f.Signature.Recv() != nil {
					return i - 1
				}
				return i
			}
		}
		return -2
	}
	for _, b := range fn.Blocks {
		for _, in := range b.Instrs {
			ci, ok := in.(ssa.CallInstruction)
			if !ok {
				continue
			}
			callee := ci.Common().StaticCallee()
			if callee == nil || callee.Blocks == nil || fnPkgPath(callee) != fnPkgPath(fn) || callee == fn {
				continue
			}
			m := map[int]int{}
			for j, a := range ci.Common().Args {
				if prm, ok := stripConv(a).(*ssa.Parameter); ok && j < len(callee.Params) {
					if i := idxOf(fn, prm); i >= -1 {
						m[i] = idxOf(callee, callee.Params[j])
					}
				}
			}
			if len(m) > 0 {
				out = append(out, forwarded{callee, ci, m})
			}
		}
	}
	return out
}

// reachesCallee: does f call (directly, or through functions of its own package) a function or
// method with that name?
func reachesCallee(f *ssa.Function, name string) bool {
	seen := map[*ssa.Function]bool{}
	var visit func(g *ssa.Function, d int) bool
	visit = func(g *ssa.Function, d int) bool {
		if g == nil || seen[g] || d > 5 {
			return false
		}
		seen[g] = true
		for _, b := range g.Blocks {
			for _, in := range b.Instrs {
				ci, ok := in.(ssa.CallInstruction)
				if !ok {
					continue
				}
				if calleeOf(ci.Common()).Name == name {
					return true
				}
				if sc := ci.Common().StaticCallee(); sc != nil && sc.Blocks != nil && fnPkgPath(sc) == fnPkgPath(f) {
					if visit(sc, d+1) {
						return true
					}
				}
			}
		}
		return false
	}
	return visit(f, 0)
}

// guardSignatureAssuming: like guardSignature, with the edges of one statement deleted first.
func guardSignatureAssuming(fn *ssa.Function, kind AcceptKind, assumedFalse string) []string {
	acc, err := acceptReturns(fn, kind)
	if err != nil || len(acc) == 0 {
		return nil
	}
	byStmt := stmtEdges(fn)
	if _, ok := byStmt[assumedFalse]; !ok {
		return nil // the parameter is not tested: nothing conditional to report
	}
	cands := map[string]bool{}
	for _, a := range acc {
		for _, d := range delegations(a, a.kind) {
			cands[d] = true
		}
	}
	dead := resultPhiModel(fn, acc, kind, byStmt)
	for s := range byStmt {
		cands[s] = true
	}
	for e := range byStmt[assumedFalse] {
		dead[e] = true
	}
	// under the assumption some accepting return must stay reachable, otherwise everything holds
	// vacuously
	{
		seen := reach(fn, fn.Blocks[0], dead)
		any := false
		for _, a := range acc {
			if seen[a.ret.Block().Index] {
				any = true
			}
		}
		if !any {
			return nil
		}
	}
	var out []string
	for s := range cands {
		if r, _ := holdsOnAccept(fn, acc, byStmt, map[string]bool{s: true}, dead); r == nil {
			out = append(out, s)
		}
	}
	sort.Strings(out)
	return out
}

// splitCondStmt parses "[cond] fact" (brackets inside cond balance); returns {whole, cond, fact}.
func splitCondStmt(s string) []string {
	if !strings.HasPrefix(s, "[") {
		return nil
	}
	depth := 0
	for i := 0; i < len(s); i++ {
		switch s[i] {
		case '[':
			depth++
		case ']':
			depth--
			if depth == 0 {
				if i+2 <= len(s) && strings.HasPrefix(s[i+1:], " ") && strings.Contains(s[1:i], " ¦ ") || s[1:i] == "true" {
					return []string{s, s[1:i], s[i+2:]}
				}
				return nil
			}
		}
	}
	return nil
}

// resolveConditionals: a conditional statement "[c] F" established on some edges becomes the
// statement F on those edges when c is the constant true or when the negation of c is one of the
// statements the rule assumes away.
func resolveConditionals(byStmt map[string]map[edge]bool, assume []string) {
	var res []*regexp.Regexp
	for _, a := range assume {
		res = append(res, mustRe(a))
	}
	add := map[string]map[edge]bool{}
	for s, es := range byStmt {
		cur := s
		for {
			m := splitCondStmt(cur)
			if m == nil {
				break
			}
			c, f := m[1], m[2]
			neg := ""
			if i := strings.Index(c, " ¦ "); i >= 0 {
				c, neg = c[:i], c[i+len(" ¦ "):]
			}
			ok := c == "true"
			if !ok && neg != "" && neg != "true" {
				for _, re := range res {
					if re.MatchString(neg) {
						ok = true
					}
				}
			}
			if !ok {
				break
			}
			if add[f] == nil {
				add[f] = map[edge]bool{}
			}
			for e := range es {
				add[f][e] = true
			}
			cur = f
		}
	}
	for s, es := range add {
		if byStmt[s] == nil {
			byStmt[s] = map[edge]bool{}
		}
		for e := range es {
			byStmt[s][e] = true
		}
	}
}

// fillDelegations precomputes, for delegating returns, the statements they carry with the
// conditional ones resolved against the rule's assumptions.
func fillDelegations(acc []acceptRet, assume []string) {
	for i := range acc {
		ds := delegations(acc[i], acc[i].kind)
		if len(ds) == 0 {
			acc[i].deleg = []string{}
			continue
		}
		m := map[string]map[edge]bool{}
		for _, d := range ds {
			m[d] = map[edge]bool{}
		}
		resolveConditionals(m, assume)
		out := make([]string, 0, len(m))
		for d := range m {
			out = append(out, d)
		}
		sort.Strings(out)
		acc[i].deleg = out
	}
}

// edgeKnowsNonNil: on the edge pred -> succ the value v (an error) is known to be non-nil: pred
// ends in a test of v whose non-nil edge this is, or pred is dominated by such an edge.
func edgeKnowsNonNil(v ssa.Value, pred, succ *ssa.BasicBlock) bool {
	if len(pred.Instrs) > 0 {
		if iff, ok := pred.Instrs[len(pred.Instrs)-1].(*ssa.If); ok && len(pred.Succs) == 2 && pred.Succs[0] != pred.Succs[1] {
			a := atomOf(iff.Cond)
			if a.Kind == "nilcmp" && a.X == v {
				nilSide := 0
				if a.Neg {
					nilSide = 1
				}
				if pred.Succs[1-nilSide] == succ {
					return true
				}
				if pred.Succs[nilSide] == succ {
					return false
				}
			}
		}
	}
	return knownNonNilAt(v, pred)
}
