package main

// Symbolic integer polynomials over SSA values, and the CO-INDEXED LENGTHS / TILING lints built on
// them (C04 and the other properties whose code hands sub-slices to workers).
//
// polyOf turns an integer SSA value into a polynomial with integer coefficients over atoms; an atom
// is any value the normaliser does not look into (parameter, phi, load, call result, len(x)) or a
// floor division Q(a,k) of an atom by a constant. Two values with the same polynomial are equal on
// every execution (modulo wrap-around, ignored). The converse is what the lints need and cannot
// have in general, so a difference is only called *determined* when, after writing every divided
// atom as a = k*Q(a,k) + R(a,k), nothing is left in it but constants and remainders R: then the two
// values differ whenever the remainders are not all zero (or always, for a constant), and no
// relation between unrelated program values could make them equal.

import (
	"fmt"
	"go/token"
	"go/types"
	"sort"
	"strings"

	"golang.org/x/tools/go/ssa"
)

type poly map[string]int64 // monomial (atoms sorted, joined by '*'; "" = constant) -> coefficient

type polyCtx struct {
	ids   map[ssa.Value]string
	names map[string]string // atom -> readable
	divs  map[string][2]string // Q atom -> {dividend atom, k}
	n     int
}

func newPolyCtx() *polyCtx {
	return &polyCtx{ids: map[ssa.Value]string{}, names: map[string]string{}, divs: map[string][2]string{}}
}

func (c *polyCtx) atom(v ssa.Value) string {
	if id, ok := c.ids[v]; ok {
		return id
	}
	c.n++
	id := fmt.Sprintf("a%d", c.n)
	c.ids[v] = id
	c.names[id] = descValue(v, 0)
	return id
}

func polyConst(k int64) poly {
	if k == 0 {
		return poly{}
	}
	return poly{"": k}
}

func (p poly) add(q poly, sign int64) poly {
	r := poly{}
	for m, c := range p {
		r[m] = c
	}
	for m, c := range q {
		r[m] += sign * c
		if r[m] == 0 {
			delete(r, m)
		}
	}
	return r
}

func mulMono(a, b string) string {
	if a == "" {
		return b
	}
	if b == "" {
		return a
	}
	parts := append(strings.Split(a, "*"), strings.Split(b, "*")...)
	sort.Strings(parts)
	return strings.Join(parts, "*")
}

func (p poly) mul(q poly) poly {
	r := poly{}
	for m1, c1 := range p {
		for m2, c2 := range q {
			m := mulMono(m1, m2)
			r[m] += c1 * c2
			if r[m] == 0 {
				delete(r, m)
			}
		}
	}
	return r
}

func (p poly) isConst() (int64, bool) {
	if len(p) == 0 {
		return 0, true
	}
	if len(p) == 1 {
		if c, ok := p[""]; ok {
			return c, true
		}
	}
	return 0, false
}

// single atom with coefficient 1
func (p poly) singleAtom() (string, bool) {
	if len(p) != 1 {
		return "", false
	}
	for m, c := range p {
		if c == 1 && m != "" && !strings.Contains(m, "*") {
			return m, true
		}
	}
	return "", false
}

func (c *polyCtx) polyOf(v ssa.Value, depth int) poly {
	if depth > 12 {
		return poly{c.atom(v): 1}
	}
	switch x := v.(type) {
	case *ssa.Const:
		if k, ok := constInt(x); ok {
			return polyConst(k)
		}
	case *ssa.Convert:
		if isInteger(x.Type()) && isInteger(x.X.Type()) {
			return c.polyOf(x.X, depth+1)
		}
	case *ssa.ChangeType:
		return c.polyOf(x.X, depth+1)
	case *ssa.BinOp:
		switch x.Op {
		case token.ADD:
			return c.polyOf(x.X, depth+1).add(c.polyOf(x.Y, depth+1), 1)
		case token.SUB:
			return c.polyOf(x.X, depth+1).add(c.polyOf(x.Y, depth+1), -1)
		case token.MUL:
			return c.polyOf(x.X, depth+1).mul(c.polyOf(x.Y, depth+1))
		case token.SHL:
			if k, ok := constInt(x.Y); ok && k >= 0 && k < 31 {
				return c.polyOf(x.X, depth+1).mul(polyConst(1 << uint(k)))
			}
		case token.QUO, token.SHR:
			k, ok := constInt(x.Y)
			if ok && x.Op == token.SHR {
				if k < 0 || k > 30 {
					ok = false
				}
				k = 1 << uint(k)
			}
			if ok && k > 1 {
				num := c.polyOf(x.X, depth+1)
				if a, single := num.singleAtom(); single {
					q := fmt.Sprintf("Q%d(%s)", k, a)
					c.divs[q] = [2]string{a, fmt.Sprint(k)}
					c.names[q] = c.names[a] + "/" + fmt.Sprint(k)
					return poly{q: 1}
				}
			}
		}
	case *ssa.Call:
		if b, ok := x.Call.Value.(*ssa.Builtin); ok && b.Name() == "len" && len(x.Call.Args) == 1 {
			return c.lenOf(x.Call.Args[0], depth+1)
		}
	}
	return poly{c.atom(v): 1}
}

// lenOf: the length of a slice-typed value.
func (c *polyCtx) lenOf(s ssa.Value, depth int) poly {
	if depth > 12 {
		return poly{"len:" + c.atom(s): 1}
	}
	switch x := s.(type) {
	case *ssa.Slice:
		var lo, hi poly
		if x.Low != nil {
			lo = c.polyOf(x.Low, depth+1)
		} else {
			lo = poly{}
		}
		if x.High != nil {
			hi = c.polyOf(x.High, depth+1)
		} else {
			if pt, ok := x.X.Type().Underlying().(*types.Pointer); ok {
				if at, ok := pt.Elem().Underlying().(*types.Array); ok {
					hi = polyConst(at.Len())
				}
			}
			if hi == nil {
				hi = c.lenOf(x.X, depth+1)
			}
		}
		return hi.add(lo, -1)
	case *ssa.MakeSlice:
		return c.polyOf(x.Len, depth+1)
	case *ssa.ChangeType:
		return c.lenOf(x.X, depth+1)
	}
	id := "len:" + c.atom(s)
	c.names[id] = "len(" + c.names[c.atom(s)] + ")"
	return poly{id: 1}
}

// determinedNonZero: after a = k*Q + R for every divided atom, only constants and remainders are
// left and the polynomial is not identically zero. Returns a readable rendering.
func (c *polyCtx) determinedNonZero(d poly) (string, bool) {
	if len(d) == 0 {
		return "", false
	}
	// substitute
	for q, ak := range c.divs {
		a := ak[0]
		var k int64
		fmt.Sscan(ak[1], &k)
		uses := false
		for m := range d {
			for _, f := range strings.Split(m, "*") {
				if f == q {
					uses = true
				}
			}
		}
		if !uses {
			continue
		}
		r := "R" + q[1:]
		c.names[r] = c.names[a] + "%" + ak[1]
		repl := poly{q: k, r: 1}
		nd := poly{}
		for m, co := range d {
			term := poly{"": co}
			for _, f := range strings.Split(m, "*") {
				if f == "" {
					continue
				}
				if f == a {
					term = term.mul(repl)
				} else {
					term = term.mul(poly{f: 1})
				}
			}
			nd = nd.add(term, 1)
		}
		d = nd
	}
	if len(d) == 0 {
		return "", false
	}
	var parts []string
	for m, co := range d {
		for _, f := range strings.Split(m, "*") {
			if f != "" && !strings.HasPrefix(f, "R") {
				return "", false
			}
		}
		if m == "" {
			parts = append(parts, fmt.Sprint(co))
			continue
		}
		var fs []string
		for _, f := range strings.Split(m, "*") {
			fs = append(fs, c.names[f])
		}
		if co == 1 {
			parts = append(parts, strings.Join(fs, "*"))
		} else {
			parts = append(parts, fmt.Sprintf("%d*%s", co, strings.Join(fs, "*")))
		}
	}
	sort.Strings(parts)
	return strings.Join(parts, " + "), true
}

// coIndexedParams: pairs (i, j) of slice parameters of fn such that one index value, bounded by
// len(param j) in a loop test, indexes both param i and param j.
func coIndexedParams(fn *ssa.Function) [][2]int {
	if fn == nil || len(fn.Blocks) == 0 {
		return nil
	}
	pidx := map[ssa.Value]int{}
	for i, pa := range fn.Params {
		if _, ok := pa.Type().Underlying().(*types.Slice); ok {
			pidx[pa] = i
		}
	}
	if len(pidx) < 2 {
		return nil
	}
	byIndex := map[ssa.Value]map[int]bool{}
	for _, b := range fn.Blocks {
		for _, in := range b.Instrs {
			ia, ok := in.(*ssa.IndexAddr)
			if !ok {
				continue
			}
			pi, isParam := pidx[ia.X]
			if !isParam {
				continue
			}
			ix := stripConv(ia.Index)
			if byIndex[ix] == nil {
				byIndex[ix] = map[int]bool{}
			}
			byIndex[ix][pi] = true
		}
	}
	seen := map[[2]int]bool{}
	var out [][2]int
	for ix, ps := range byIndex {
		if len(ps) < 2 {
			continue
		}
		refs := ix.Referrers()
		if refs == nil {
			continue
		}
		// which parameter's length bounds the index?
		for _, ref := range *refs {
			cmp, ok := ref.(*ssa.BinOp)
			if !ok || cmp.Op != token.LSS || stripConv(cmp.X) != ix {
				continue
			}
			call, ok := stripConv(cmp.Y).(*ssa.Call)
			if !ok {
				continue
			}
			bi, ok := call.Call.Value.(*ssa.Builtin)
			if !ok || bi.Name() != "len" {
				continue
			}
			j, isParam := pidx[call.Call.Args[0]]
			if !isParam || !ps[j] {
				continue
			}
			for i := range ps {
				if i != j && !seen[[2]int{i, j}] {
					seen[[2]int{i, j}] = true
					out = append(out, [2]int{i, j})
				}
			}
		}
	}
	sort.Slice(out, func(a, b int) bool {
		if out[a][0] != out[b][0] {
			return out[a][0] < out[b][0]
		}
		return out[a][1] < out[b][1]
	})
	return out
}

// coIndexedLengths: at every call (call, go, defer) whose callee — any callee the call graph
// resolves — walks one slice parameter D and indexes another slice parameter P with the same index,
// the two arguments have the same length whenever both lengths can be written over the same atoms.
func coIndexedLengths(p *Program, fn *ssa.Function) (int, []Finding) {
	if len(fn.Blocks) == 0 {
		return 0, nil
	}
	node := p.CallGraph().Nodes[fn]
	if node == nil {
		return 0, nil
	}
	bySite := map[ssa.CallInstruction][]*ssa.Function{}
	for _, e := range node.Out {
		if e.Site != nil {
			bySite[e.Site] = append(bySite[e.Site], e.Callee.Func)
		}
	}
	n := 0
	var hits []Finding
	ctx := newPolyCtx()
	for _, b := range fn.Blocks {
		for _, in := range b.Instrs {
			site, ok := in.(ssa.CallInstruction)
			if !ok {
				continue
			}
			com := site.Common()
			if com.IsInvoke() {
				continue
			}
			nSlices := 0
			for _, a := range com.Args {
				if _, ok := a.Type().Underlying().(*types.Slice); ok {
					nSlices++
				}
			}
			if nSlices < 2 {
				continue
			}
			done := map[[2]int]bool{}
			callees := bySite[site]
			sort.Slice(callees, func(a, b int) bool { return callees[a].String() < callees[b].String() })
			for _, callee := range callees {
				if callee == nil {
					continue
				}
				if len(callee.Params) != len(com.Args) {
					continue
				}
				for _, pr := range coIndexedParams(callee) {
					if done[pr] {
						continue
					}
					done[pr] = true
					n++
					cname := strings.SplitN(callee.Name(), "[", 2)[0]
					lp := ctx.lenOf(com.Args[pr[0]], 0)
					ld := ctx.lenOf(com.Args[pr[1]], 0)
					if how, bad := ctx.determinedNonZero(lp.add(ld, -1)); bad {
						hits = append(hits, Finding{fn, in.Pos(), "co-indexed-lengths(" + cname + ")",
							fmt.Sprintf("%s: %s walks its parameter %s and reads parameter %s at the same index, and the two arguments of this call differ in length by %s: elements are silently skipped or the read runs past the end",
								funcKey(fn), cname, callee.Params[pr[1]].Name(), callee.Params[pr[0]].Name(), how)})
					}
				}
			}
		}
	}
	// TILING: consecutive sub-slices of one base handed to the same callee from one function meet
	// exactly (the end of one is the start of the next) when the gap is determined.
	type piece struct {
		in     ssa.Instruction
		lo, hi poly
		key    string
	}
	groups := map[string][]piece{}
	for _, b := range fn.Blocks {
		for _, in := range b.Instrs {
			site, ok := in.(*ssa.Go)
			if !ok {
				continue
			}
			com := site.Common()
			for ai, a := range com.Args {
				sl, ok := a.(*ssa.Slice)
				if !ok {
					continue
				}
				if _, isSlice := sl.X.Type().Underlying().(*types.Slice); !isSlice {
					continue
				}
				var lo, hi poly
				if sl.Low != nil {
					lo = ctx.polyOf(sl.Low, 0)
				} else {
					lo = poly{}
				}
				if sl.High != nil {
					hi = ctx.polyOf(sl.High, 0)
				} else {
					hi = ctx.lenOf(sl.X, 0)
				}
				k := fmt.Sprintf("%s#%d#%d", ctx.atom(sl.X), ai, b.Index)
				groups[k] = append(groups[k], piece{in, lo, hi, k})
			}
		}
	}
	for _, g := range groups {
		if len(g) < 2 {
			continue
		}
		for i := 0; i+1 < len(g); i++ {
			n++
			if len(g[i+1].lo.add(g[i].lo, -1)) == 0 {
				continue // the same piece twice
			}
			if how, bad := ctx.determinedNonZero(g[i+1].lo.add(g[i].hi, -1)); bad {
				hits = append(hits, Finding{fn, g[i+1].in.Pos(), "tiling-gap",
					fmt.Sprintf("%s: two consecutive goroutines receive sub-slices of the same slice, and the second starts %s away from where the first ends: elements are skipped or handed to both", funcKey(fn), how)})
			}
		}
	}
	return n, hits
}
