package main

import (
	"go/token"
	"strings"

	"golang.org/x/tools/go/ssa"
)

// INLINED VIEW. Rules that reason about the order of events inside one function (which call
// dominates which, under which branch a call sits, where a value comes from) are asked about the
// function's behaviour, not about how its body is cut into helpers. The inlined view of a
// function is the control-flow graph obtained by replacing every static call to a function of the
// same package (that has a body, is not on the current call chain, up to a bounded depth) by that
// function's own graph: a "frame" per call site, blocks split at the call. Dominance, reachability,
// branch conditions and value provenance are answered on that graph, so that moving a stretch of
// code into a helper — or back — does not change any answer.

type ivFrame struct {
	parent *ivFrame
	site   ssa.CallInstruction // call in parent.fn that this frame expands (nil for the root)
	fn     *ssa.Function
	depth  int
	kids   map[ssa.CallInstruction]*ivFrame
}

type ivInstr struct {
	fr *ivFrame
	in ssa.Instruction
}

type ivNode struct {
	id     int
	fr     *ivFrame
	blk    *ssa.BasicBlock
	lo, hi int // instruction range [lo, hi) of blk
	succs  []*ivNode
	preds  []*ivNode
}

type IView struct {
	skip   func(*ssa.Function) bool
	root   *ivFrame
	nodes  []*ivNode
	entry  *ivNode
	first  map[ivBlockKey]*ivNode // first segment of a block in a frame
	last   map[ivBlockKey]*ivNode
	segs   map[ivBlockKey][]*ivNode
	idom   []int
	order  []int // reverse postorder ids
	rpoNum []int
}

type ivBlockKey struct {
	fr  *ivFrame
	blk *ssa.BasicBlock
}

const ivMaxDepth = 3

func ivInlinable(fr *ivFrame, callee *ssa.Function) bool {
	if callee == nil || callee.Blocks == nil || fr.depth >= ivMaxDepth {
		return false
	}
	if fnPkgPath(callee) != fnPkgPath(fr.fn) || len(callee.Blocks) > 200 {
		return false
	}
	for f := fr; f != nil; f = f.parent {
		if f.fn == callee {
			return false
		}
	}
	// functions with defers keep their own world (recover blocks, deferred effects)
	for _, b := range callee.Blocks {
		for _, in := range b.Instrs {
			if _, ok := in.(*ssa.Defer); ok {
				return false
			}
		}
	}
	return true
}

// NewIView builds the inlined view of fn.
func NewIView(fn *ssa.Function) *IView { return NewIViewOpt(fn, nil) }

// NewIViewOpt: functions for which skip reports true are not expanded.
func NewIViewOpt(fn *ssa.Function, skip func(*ssa.Function) bool) *IView {
	v := &IView{skip: skip, first: map[ivBlockKey]*ivNode{}, last: map[ivBlockKey]*ivNode{}, segs: map[ivBlockKey][]*ivNode{}}
	v.root = &ivFrame{fn: fn, kids: map[ssa.CallInstruction]*ivFrame{}}
	if fn.Blocks == nil {
		return v
	}
	entry, _ := v.build(v.root)
	v.entry = entry
	v.dominators()
	return v
}

func (v *IView) newNode(fr *ivFrame, b *ssa.BasicBlock, lo int) *ivNode {
	n := &ivNode{id: len(v.nodes), fr: fr, blk: b, lo: lo, hi: lo}
	v.nodes = append(v.nodes, n)
	v.segs[ivBlockKey{fr, b}] = append(v.segs[ivBlockKey{fr, b}], n)
	return n
}

func ivLink(a, b *ivNode) {
	a.succs = append(a.succs, b)
	b.preds = append(b.preds, a)
}

// build creates the nodes of one frame; returns its entry node and the nodes that end in a Return.
func (v *IView) build(fr *ivFrame) (*ivNode, []*ivNode) {
	var exits []*ivNode
	for _, b := range fr.fn.Blocks {
		cur := v.newNode(fr, b, 0)
		v.first[ivBlockKey{fr, b}] = cur
		for i, in := range b.Instrs {
			cur.hi = i + 1
			ci, ok := in.(ssa.CallInstruction)
			if !ok {
				continue
			}
			if _, isGo := in.(*ssa.Go); isGo {
				continue
			}
			if _, isDefer := in.(*ssa.Defer); isDefer {
				continue
			}
			callee := ci.Common().StaticCallee()
			if callee != nil {
				if o := callee.Origin(); o != nil && o.Blocks != nil {
					callee = o
				}
			}
			if !ivInlinable(fr, callee) || (v.skip != nil && v.skip(callee)) {
				continue
			}
			kid := &ivFrame{parent: fr, site: ci, fn: callee, depth: fr.depth + 1, kids: map[ssa.CallInstruction]*ivFrame{}}
			fr.kids[ci] = kid
			kentry, kexits := v.build(kid)
			ivLink(cur, kentry)
			next := v.newNode(fr, b, i+1)
			for _, x := range kexits {
				ivLink(x, next)
			}
			cur = next
		}
		v.last[ivBlockKey{fr, b}] = cur
		if len(b.Instrs) > 0 {
			if _, isRet := b.Instrs[len(b.Instrs)-1].(*ssa.Return); isRet {
				exits = append(exits, cur)
			}
		}
	}
	for _, b := range fr.fn.Blocks {
		from := v.last[ivBlockKey{fr, b}]
		for _, s := range b.Succs {
			ivLink(from, v.first[ivBlockKey{fr, s}])
		}
	}
	return v.first[ivBlockKey{fr, fr.fn.Blocks[0]}], exits
}

func (v *IView) dominators() {
	n := len(v.nodes)
	v.rpoNum = make([]int, n)
	for i := range v.rpoNum {
		v.rpoNum[i] = -1
	}
	// postorder
	var post []int
	seen := make([]bool, n)
	type st struct {
		n *ivNode
		i int
	}
	stack := []st{{v.entry, 0}}
	seen[v.entry.id] = true
	for len(stack) > 0 {
		top := &stack[len(stack)-1]
		if top.i < len(top.n.succs) {
			s := top.n.succs[top.i]
			top.i++
			if !seen[s.id] {
				seen[s.id] = true
				stack = append(stack, st{s, 0})
			}
			continue
		}
		post = append(post, top.n.id)
		stack = stack[:len(stack)-1]
	}
	for i := len(post) - 1; i >= 0; i-- {
		v.rpoNum[post[i]] = len(v.order)
		v.order = append(v.order, post[i])
	}
	v.idom = make([]int, n)
	for i := range v.idom {
		v.idom[i] = -1
	}
	v.idom[v.entry.id] = v.entry.id
	intersect := func(a, b int) int {
		for a != b {
			for v.rpoNum[a] > v.rpoNum[b] {
				a = v.idom[a]
			}
			for v.rpoNum[b] > v.rpoNum[a] {
				b = v.idom[b]
			}
		}
		return a
	}
	for changed := true; changed; {
		changed = false
		for _, id := range v.order {
			if id == v.entry.id {
				continue
			}
			nw := -1
			for _, p := range v.nodes[id].preds {
				if v.idom[p.id] == -1 {
					continue
				}
				if nw == -1 {
					nw = p.id
				} else {
					nw = intersect(p.id, nw)
				}
			}
			if nw != -1 && v.idom[id] != nw {
				v.idom[id] = nw
				changed = true
			}
		}
	}
}

// nodeOf returns the node holding the instruction instance and its index in the block.
func (v *IView) nodeOf(x ivInstr) (*ivNode, int) {
	b := x.in.Block()
	idx := -1
	for i, in := range b.Instrs {
		if in == x.in {
			idx = i
			break
		}
	}
	if idx < 0 {
		return nil, -1
	}
	for _, n := range v.segs[ivBlockKey{x.fr, b}] {
		if idx >= n.lo && idx < n.hi {
			return n, idx
		}
	}
	return nil, -1
}

func (v *IView) nodeDominates(a, b *ivNode) bool {
	if v.idom[b.id] == -1 || v.idom[a.id] == -1 {
		return false
	}
	for x := b.id; ; x = v.idom[x] {
		if x == a.id {
			return true
		}
		if x == v.idom[x] {
			return false
		}
	}
}

// Dominates: every execution that reaches y has executed x before.
func (v *IView) Dominates(x, y ivInstr) bool {
	nx, ix := v.nodeOf(x)
	ny, iy := v.nodeOf(y)
	if nx == nil || ny == nil {
		return false
	}
	if nx == ny {
		return ix < iy
	}
	return v.nodeDominates(nx, ny)
}

func (v *IView) reaches(a, b *ivNode) bool {
	seen := map[int]bool{}
	stack := []*ivNode{}
	for _, s := range a.succs {
		stack = append(stack, s)
	}
	for len(stack) > 0 {
		n := stack[len(stack)-1]
		stack = stack[:len(stack)-1]
		if seen[n.id] {
			continue
		}
		seen[n.id] = true
		if n == b {
			return true
		}
		stack = append(stack, n.succs...)
	}
	return false
}

// MayPrecede: some execution runs x and later y.
func (v *IView) MayPrecede(x, y ivInstr) bool {
	nx, ix := v.nodeOf(x)
	ny, iy := v.nodeOf(y)
	if nx == nil || ny == nil {
		return false
	}
	if nx == ny && ix < iy {
		return true
	}
	return v.reaches(nx, ny)
}

// Instrs enumerates all instruction instances of the view (frames in call order).
func (v *IView) Instrs() []ivInstr {
	var out []ivInstr
	for _, n := range v.nodes {
		if v.idom[n.id] == -1 {
			continue // unreachable
		}
		for i := n.lo; i < n.hi; i++ {
			out = append(out, ivInstr{n.fr, n.blk.Instrs[i]})
		}
	}
	return out
}

// Inlined: is this call instance expanded in the view?
func (v *IView) Inlined(x ivInstr) bool {
	ci, ok := x.in.(ssa.CallInstruction)
	return ok && x.fr.kids[ci] != nil
}

// Roots: provenance of a value of a frame, expressed at the root frame (parameters of inner
// frames are replaced by what the call site passes; results of expanded calls by what the callee
// returns).
func (v *IView) Roots(val ssa.Value, fr *ivFrame) []Root { return v.rootsOpt(val, fr, true) }

// AddrRoots: Roots for address expressions (a local cell is a terminal root, see addrRoots).
func (v *IView) AddrRoots(val ssa.Value, fr *ivFrame) []Root { return v.rootsOpt(val, fr, false) }

func (v *IView) rootsOpt(val ssa.Value, fr *ivFrame, followAllocs bool) []Root {
	var out []Root
	type key struct {
		v  ssa.Value
		fr *ivFrame
		p  string
	}
	seen := map[key]bool{}
	var walk func(val ssa.Value, fr *ivFrame, suffix string, d int)
	walk = func(val ssa.Value, fr *ivFrame, suffix string, d int) {
		if d > 12 || seen[key{val, fr, suffix}] {
			return
		}
		seen[key{val, fr, suffix}] = true
		for _, r := range rootsOfOpt(val, followAllocs) {
			path := r.Path + suffix
			switch {
			case r.Kind == "param" && fr.parent != nil:
				idx := -1
				for i, q := range fr.fn.Params {
					if q == r.Param {
						idx = i
					}
				}
				args := fr.site.Common().Args
				if idx >= 0 && idx < len(args) {
					walk(args[idx], fr.parent, path, d+1)
					continue
				}
				r.Path = path
				out = append(out, r)
			case r.Kind == "call" && fr.kids[ssa.CallInstruction(r.Call)] != nil:
				kid := fr.kids[ssa.CallInstruction(r.Call)]
				ri := 0
				if ex, ok := r.Val.(*ssa.Extract); ok {
					ri = ex.Index
				}
				found := false
				for _, b := range kid.fn.Blocks {
					if ret, ok := b.Instrs[len(b.Instrs)-1].(*ssa.Return); ok && ri < len(ret.Results) {
						walk(retValue(ret, ri), kid, path, d+1)
						found = true
					}
				}
				if !found {
					r.Path = path
					out = append(out, r)
				}
			default:
				r.Path = path
				out = append(out, r)
			}
		}
	}
	walk(val, fr, "", 0)
	return out
}

// DerivedFrom: like derivedFrom, for a value of any frame and a parameter of the root function.
func (v *IView) DerivedFrom(val ssa.Value, fr *ivFrame, p *ssa.Parameter, path string) bool {
	prefix := strings.HasSuffix(path, "...")
	path = strings.TrimSuffix(path, "...")
	for _, r := range v.Roots(val, fr) {
		if r.Kind != "param" || r.Param != p {
			continue
		}
		if path == "?" || r.Path == path || prefix && strings.HasPrefix(r.Path, path) {
			return true
		}
	}
	return false
}

// AddrDerivedFrom: like addrDerivedFrom, frame-aware.
func (v *IView) AddrDerivedFrom(val ssa.Value, fr *ivFrame, p *ssa.Parameter, path string) bool {
	prefix := strings.HasSuffix(path, "...")
	path = strings.TrimSuffix(path, "...")
	for _, r := range v.AddrRoots(val, fr) {
		if r.Kind != "param" || r.Param != p {
			continue
		}
		if path == "?" || r.Path == path || prefix && strings.HasPrefix(r.Path, path) {
			return true
		}
	}
	return false
}

// ivCond: a branch condition that controls an instruction instance.
type ivCond struct {
	fr   *ivFrame
	atom Atom
	edge int // 0 = taken on true, 1 = taken on false
}

// DominatingConds: the If edges every execution reaching x has taken (an If node that dominates x
// and one of whose successors dominates x while the other does not reach x without it).
func (v *IView) DominatingConds(x ivInstr) []ivCond {
	nx, _ := v.nodeOf(x)
	if nx == nil {
		return nil
	}
	var out []ivCond
	for id := nx.id; v.idom[id] != id && v.idom[id] >= 0; id = v.idom[id] {
		d := v.nodes[v.idom[id]]
		if d.hi != len(d.blk.Instrs) || d.hi == 0 {
			continue
		}
		iff, ok := d.blk.Instrs[d.hi-1].(*ssa.If)
		if !ok || len(d.succs) != 2 {
			continue
		}
		for ei, s := range d.succs {
			o := d.succs[1-ei]
			if (s == nx || v.nodeDominates(s, nx)) && len(s.preds) == 1 && !(o == nx || v.nodeDominates(o, nx)) {
				out = append(out, ivCond{d.fr, atomOf(iff.Cond), ei})
			}
		}
	}
	return out
}

// retInstances: the Return instructions of the root frame.
func (v *IView) rootReturns() []ivInstr {
	var out []ivInstr
	for _, b := range v.root.fn.Blocks {
		if len(b.Instrs) == 0 {
			continue
		}
		if ret, ok := b.Instrs[len(b.Instrs)-1].(*ssa.Return); ok {
			out = append(out, ivInstr{v.root, ret})
		}
	}
	return out
}

var _ = token.NoPos

// exhaustiveDispatch: on the inlined view, the value of parameter p is compared for equality with
// every value in want, and an execution on which all those comparisons fail cannot reach a
// return of the root function (it panics): a switch or if-chain over an enumeration with a
// panicking default, wherever it sits.
func exhaustiveDispatch(v *IView, p *ssa.Parameter, want []int64) bool {
	if v.entry == nil {
		return false
	}
	type cmpNode struct {
		n      *ivNode
		eqEdge int
		k      int64
	}
	cmps := map[int]cmpNode{}
	seenK := map[int64]bool{}
	for _, n := range v.nodes {
		if v.idom[n.id] == -1 || n.hi != len(n.blk.Instrs) || n.hi == 0 {
			continue
		}
		iff, ok := n.blk.Instrs[n.hi-1].(*ssa.If)
		if !ok || len(n.succs) != 2 {
			continue
		}
		a := atomOf(iff.Cond)
		if a.Kind != "cmp" || (a.Op != token.EQL && a.Op != token.NEQ) {
			continue
		}
		x, y := a.X, a.Y
		k, isConst := constInt(y)
		if !isConst {
			if k2, ok2 := constInt(x); ok2 {
				x, k, isConst = y, k2, true
			}
		}
		if !isConst || !v.DerivedFrom(x, n.fr, p, "") {
			continue
		}
		eq := 0
		if a.Op == token.NEQ {
			eq = 1
		}
		cmps[n.id] = cmpNode{n, eq, k}
		seenK[k] = true
	}
	for _, k := range want {
		if !seenK[k] {
			return false
		}
	}
	// executions on which every comparison fails
	type st struct {
		id     int
		passed bool
	}
	seen := map[st]bool{}
	stack := []st{{v.entry.id, false}}
	rootRet := map[*ivNode]bool{}
	for _, r := range v.rootReturns() {
		if n, _ := v.nodeOf(r); n != nil {
			rootRet[n] = true
		}
	}
	for len(stack) > 0 {
		s := stack[len(stack)-1]
		stack = stack[:len(stack)-1]
		if seen[s] {
			continue
		}
		seen[s] = true
		n := v.nodes[s.id]
		if s.passed && rootRet[n] {
			return false
		}
		if c, isCmp := cmps[s.id]; isCmp {
			stack = append(stack, st{n.succs[1-c.eqEdge].id, true})
			continue
		}
		for _, nx := range n.succs {
			stack = append(stack, st{nx.id, s.passed})
		}
	}
	return true
}
