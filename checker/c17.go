package main

import (
	"fmt"
	"go/token"
	"go/types"
	"regexp"
	"sort"
	"strings"

	"golang.org/x/tools/go/ssa"
)

func init() { register("C17", checkC17) }

func checkC17(c *Ctx) {
	p := mustLoad(c, K1)
	indexLints(c, p, "ecc/*/fr/pedersen", "ecc/*/shplonk", "ecc/*/fflonk", "ecc/*/fr/permutation", "ecc/*/fr/plookup", "ecc/*/fr/fri", "ecc/*/mpcsetup", "field/koalabear/vortex")
	c.Rule("C17.guard", "GUARD (one table per verifier, written from the definition of the scheme): every accepting return of the verifier is dominated by each check of the scheme — subgroup membership of commitments and proofs of knowledge, length agreements, successful derivation of every Fiat-Shamir challenge, the pairing / Merkle / equality checks with arguments derived from the inputs named by the scheme", 60)
	c.Rule("C17.bind", "BINDING (L16): each challenge derivation binds every datum the scheme lists (points, digests, claimed values, extra data) with the Bind error tested, before ComputeChallenge", 14)
	c.Rule("C17.arms", "ARM-AGREEMENT: in verifiers that classify heterogeneous inputs with two type switches (count, then collect), every type that is collected into a list increments the same counter, and different lists use different counters (the counter gates the check on the list)", 7)
	c.Rule("C17.bounds", "BOUNDS (L12): proof-supplied slices (Merkle proof sets, opened columns) are never indexed or sliced without a dominating length comparison", 8)

	need := func(pk, recv, name string) *ssa.Function {
		fn := p.Func(pk, recv, name)
		if fn == nil {
			c.Undecided("anchor %s.(%s).%s not found", pk, recv, name)
		}
		return fn
	}
	// ---- Pedersen
	for _, pk := range p.FamilyPkgs("ecc/*/fr/pedersen") {
		if fn := need(pk, "VerifyingKey", "Verify"); fn != nil {
			RequireFacts(c, p, "C17.guard", fn, AcceptNilErr, nil, []Req{
				{"InSubgroup(commitment)", `^ok G1Affine\.IsInSubGroup\(p0\)$`},
				{"InSubgroup(pok)", `^ok G1Affine\.IsInSubGroup\(p1\)$`},
				{"pairing(commitment,pok;GSigmaNeg,G)", `^ok PairingCheck\(\[p0,p1\],\[pr\.GSigmaNeg,pr\.G\]\)#0$`},
				{"pairing-noerr", `^noerr PairingCheck\(\[p0,p1\],\[pr\.GSigmaNeg,pr\.G\]\)$`},
			})
		}
		if fn := need(pk, "", "BatchVerifyMultiVk"); fn != nil {
			RequireFacts(c, p, "C17.guard", fn, AcceptNilErr, nil, []Req{
				{"LenEq(vks,commitments)", `^len\(p0\) == len\(p1\)$`},
				{"InSubgroup(commitments)", `^ok G1Affine\.IsInSubGroup\(p1\[\*\]\)$`},
				{"InSubgroup(poks)", `^ok G1Affine\.IsInSubGroup\(p2\[\*\]\)$`},
				{"pok-folded", `^noerr G1Affine\.Fold\(.*,p2,p3,`},
				{"pairing", `^ok PairingCheck\(.*\)#0$`},
			})
		}
	}
	// ---- SHPLONK / fflonk
	for _, pk := range p.FamilyPkgs("ecc/*/shplonk") {
		if fn := need(pk, "", "BatchVerify"); fn != nil {
			RequireFacts(c, p, "C17.guard", fn, AcceptNilErr, nil, []Req{
				{"LenEq(claims,digests)", `^len\(p0\.ClaimedValues\) == len\(p1\)$|^len\(local:OpeningProof\.ClaimedValues\) == len\(p1\)$`},
				{"LenEq(digests,points)", `^len\(p1\) == len\(p2\)$`},
				{"LenEq(claims[i],points[i])", `^len\((p0|local:OpeningProof)\.ClaimedValues\[\*\]\) == len\(p2\[\*\]\)$`},
				{"gamma-derived", `^noerr deriveChallenge\("gamma",p2,p1,NewTranscript\(p3,\["gamma","z"\]\),`},
				{"z(W)", `^noerr deriveChallenge\("z",nil,\[(p0|local:OpeningProof)\.W\],NewTranscript\(p3,\["gamma","z"\]\),nil\)$`},
				{"pairing", `^ok PairingCheckFixedQ\(.*,(p4|local:VerifyingKey)\.Lines\)#0$`},
				{"pairing-noerr", `^noerr PairingCheckFixedQ\(.*,(p4|local:VerifyingKey)\.Lines\)$`},
			})
		}
		if fn := p.Func(pk, "", "BatchVerify"); fn != nil {
			// gamma depends on the points, the commitments, the claimed values and the extra data
			checkInfluenceCall(c, p, "C17.bind", fn, "deriveChallenge", []string{"p0.ClaimedValues", "p1", "p2", "p5"})
		}
		if fn := need(pk, "", "deriveChallenge"); fn != nil {
			RequireFacts(c, p, "C17.bind", fn, AcceptNilErr, nil, []Req{
				{"binds(points)", `^noerr Transcript\.Bind\(p3,p0,Element\.Marshal\(p1\[\*\]\[\*\]\)\)$`},
				{"binds(digests)", `^noerr Transcript\.Bind\(p3,p0,G1Affine\.Marshal\(p2\[\*\]\)\)$`},
				{"binds(data)", `^noerr Transcript\.Bind\(p3,p0,p4\[\*\]\)$`},
				{"challenge-computed", `^noerr Transcript\.ComputeChallenge\(p3,p0\)$`},
			})
		}
	}
	for _, pk := range p.FamilyPkgs("ecc/*/fflonk") {
		if fn := need(pk, "", "BatchVerify"); fn != nil {
			RequireFacts(c, p, "C17.guard", fn, AcceptNilErr, nil, []Req{
				{"shplonk-verified", `^noerr BatchVerify\((p0|local:OpeningProof)\.SOpeningProof,p1,`},
				{"claims-consistent-with-folded", `^ok Element\.Equal\(local:Element,(p0|local:OpeningProof)\.SOpeningProof\.ClaimedValues\[\*\]\[\*\]\)$`},
				{"inner-lengths", `^len\((p0|local:OpeningProof)\.ClaimedValues\[\*\]\[\*\]\) == len\((p0|local:OpeningProof)\.ClaimedValues\[\*\]\[0\]\)$`},
				{"roots-extended", `^noerr extendSet\(p2\[\*\],`},
			})
		}
	}
	// ---- permutation / plookup
	for _, pk := range p.FamilyPkgs("ecc/*/fr/permutation") {
		if fn := need(pk, "", "Verify"); fn != nil {
			RequireFacts(c, p, "C17.guard", fn, AcceptNilErr, nil, []Req{
				{"size-power-of-two", `\.size-1\)&(p1|local:Proof)\.size\) == 0`},
				{"size>=2", `^2 <= (p1|local:Proof)\.size$`},
				{"challenge(epsilon)", `^noerr deriveRandomness\(.*,"epsilon",`},
				{"challenge(omega)", `^noerr deriveRandomness\(.*,"omega",`},
				{"challenge(eta)", `^noerr deriveRandomness\(.*,"eta",`},
				{"batched-opening-verified", `^noerr BatchVerifySinglePoint\(.*(p1|local:Proof)\.batchedProof,`},
				{"shifted-opening-verified", `^noerr Verify\((p1|local:Proof)\.z,(p1|local:Proof)\.shiftedProof,`},
				{"quotient-identity", `^ok Element\.Equal\(local:Element,local:Element\)$`},
				{"z(1)=1-identity", `^ok Element\.Equal\(local:Element,local:Element<-SetOne\(\)\)$|^not Element\.Equal\(local:Element,local:Element<-SetOne\(\)\)$`},
			})
		}
		if fn := need(pk, "", "deriveRandomness"); fn != nil {
			RequireFacts(c, p, "C17.bind", fn, AcceptNilErr, nil, []Req{
				{"binds(points)", `^noerr Transcript\.Bind\(p0,p1,`},
				{"challenge-computed", `^noerr Transcript\.ComputeChallenge\(p0,p1\)$`},
			})
			checkInfluenceCall(c, p, "C17.bind", fn, "Bind", []string{"p2"})
		}
	}
	for _, pk := range p.FamilyPkgs("ecc/*/fr/plookup") {
		if fn := need(pk, "", "VerifyLookupVector"); fn != nil {
			RequireFacts(c, p, "C17.guard", fn, AcceptNilErr, nil, []Req{
				{"size-power-of-two", `\.size-1\)&(p1|local:ProofLookupVector)\.size\) == 0`},
				{"size>=2", `^2 <= (p1|local:ProofLookupVector)\.size$`},
				{"challenge(beta)", `^noerr deriveRandomness\(.*,"beta",`},
				{"challenge(gamma)", `^noerr deriveRandomness\(.*,"gamma",`},
				{"challenge(alpha)", `^noerr deriveRandomness\(.*,"alpha",`},
				{"challenge(nu)", `^noerr deriveRandomness\(.*,"nu",`},
				{"opening-verified", `^noerr BatchVerifySinglePoint\(.*\.BatchedProof,`},
				{"shifted-opening-verified", `^noerr BatchVerifySinglePoint\(.*\.BatchedProofShifted,`},
				{"quotient-identity", `^ok Element\.Equal\(local:Element,local:Element\)$`},
			})
		}
		if fn := need(pk, "", "VerifyLookupTables"); fn != nil {
			RequireFacts(c, p, "C17.guard", fn, AcceptNilErr, nil, []Req{
				{"LenEq(fs,ts)", `^len\(.*\.fs\) == len\(.*\.ts\)$`},
				{"challenge(lambda)", `^noerr deriveRandomness\(.*,"lambda",`},
				{"folded-f-matches", `^ok G1Affine\.Equal\(.*\.fs\[\*\]\),.*\.foldedProof\.f\)$`},
				{"lookup-verified", `^noerr VerifyLookupVector\(p0,.*\.foldedProof\)$`},
				{"permutation-verified", `^noerr Verify\(p0,.*\.permutationProof\)$`},
			})
		}
	}
	// ---- FRI
	for _, pk := range p.FamilyPkgs("ecc/*/fr/fri") {
		if fn := need(pk, "radixTwoFri", "verifyProofOfProximitySingleRound"); fn != nil {
			RequireFacts(c, p, "C17.guard", fn, AcceptNilErr, nil, []Req{
				{"merkle(path of the query)", `^ok VerifyProof\(pr\.h,p1\.Interactions\[\*\]\[\*\]\.MerkleRoot,p1\.Interactions\[\*\]\[\*\]\.ProofSet,`},
				// the sibling's path is rebuilt locally (make + copy, or appends), the query's is the proof's own
				{"merkle(path of the sibling)", `^ok VerifyProof\(pr\.h,p1\.Interactions\[\*\]\[\*\]\.MerkleRoot,(make:\[\]\[\]byte|append\()`},
				// the folded value is compared with the claimed final evaluation (directly, or through a
				// local that holds "the value expected at this step")
				{"final-evaluation", `^ok Element\.Equal\(local:Element,(p1\.Evaluation|local:Element)\)$`},
				{"both-paths-under-the-bound-root", `^ok bytes\.Equal\(p1\.Interactions\[\*\]\[0\]\.MerkleRoot,p1\.Interactions\[\*\]\[1\]\.MerkleRoot\)$`},
				{"challenge-computed", `^noerr Transcript\.ComputeChallenge\(`},
			})
			RequireFacts(c, p, "C17.bind", fn, AcceptNilErr, nil, []Req{
				{"binds(salt)", `^noerr Transcript\.Bind\(.*,Element\.Marshal\(p0\)\)$`},
				{"binds(roots)", `^noerr Transcript\.Bind\(.*,p1\.Interactions\[\*\]\[0\]\.MerkleRoot\)$`},
				{"binds(evaluation)", `^noerr Transcript\.Bind\(.*,Element\.Marshal\(p1\.Evaluation\)\)$`},
			})
			sites, hits := unguardedAccesses(p, fn)
			_ = sites
			c.Instance("C17.bounds", 1)
			reportFindings(c, p, "C17.bounds", []*ssa.Function{fn}, hits, "accesses-guarded")
		}
		if fn := need(pk, "radixTwoFri", "VerifyOpening"); fn != nil {
			RequireFacts(c, p, "C17.guard", fn, AcceptNilErr, nil, []Req{
				{"roots-equal", `^ok bytes\.Equal\(p1\.merkleRoot,p2\.Rounds\[0\]\.Interactions\[0\]\[\*\]\.MerkleRoot\)$`},
				{"merkle-path", `^ok VerifyProof\(pr\.h,p1\.merkleRoot,p1\.ProofSet,.*,p1\.numLeaves\)$`},
				{"claimed-value-is-the-leaf", `^ok Element\.Equal\(local:Element<-SetBytesCanonical\(p1\.ProofSet\[0\]\),p1\.ClaimedValue\)$|^ok Element\.Equal\(p1\.ClaimedValue,local:Element<-SetBytesCanonical\(p1\.ProofSet\[0\]\)\)$`},
			})
		}
		if fn := need(pk, "radixTwoFri", "VerifyProofOfProximity"); fn != nil {
			RequireFacts(c, p, "C17.guard", fn, AcceptNilErr, nil, []Req{
				{"every-round-verified", `^noerr radixTwoFri\.verifyProofOfProximitySingleRound\(pr,.*,p0\.Rounds\[\*\]\)$`},
			})
		}
	}
	// ---- Vortex
	if fn := need("field/koalabear/vortex", "Params", "Verify"); fn != nil {
		RequireFacts(c, p, "C17.guard", fn, AcceptNilErr, nil, []Req{
			{"LenEq(uAlpha, codeword)", `^Params\.SizeCodeWord\(pr\) == len\(p0\.Proof\.UAlpha\)$|^len\(p0\.Proof\.UAlpha\) == Params\.SizeCodeWord\(pr\)$`},
			{"uAlpha(x)=claims(alpha)", `^EvalFextPolyHorner\(p0\.ClaimedValues,p0\.Alpha\) == EvalFextPolyLagrange\(p0\.Proof\.UAlpha,p0\.EvaluationPoint\)#0$`},
			{"uAlpha-evaluated", `^noerr EvalFextPolyLagrange\(p0\.Proof\.UAlpha,p0\.EvaluationPoint\)$`},
			{"ReedSolomon(uAlpha)", `^ok Params\.IsReedSolomonCodewords\(pr,p0\.Proof\.UAlpha\)$`},
			{"LenEq(opened,selected)", `^len\(p0\.Proof\.OpenedColumns\) == len\(p0\.SelectedColumns\)$`},
			{"LenEq(merkle proofs,selected)", `^len\(p0\.Proof\.MerkleProofOpenedColumns\) == len\(p0\.SelectedColumns\)$`},
			{"InRange(column)>=0", `^0 <= p0\.SelectedColumns\[\*\]$`},
			{"InRange(column)<n", `^p0\.SelectedColumns\[\*\] < (len\(p0\.Proof\.UAlpha\)|Params\.SizeCodeWord\(pr\))$`},
			{"column-vs-combination", `^EvalBasePolyHorner\(p0\.Proof\.OpenedColumns\[\*\],p0\.Alpha\) == p0\.Proof\.UAlpha\[\*\]$`},
			{"column-hashed", `^noerr RSis\.Hash\(pr\.Key,p0\.Proof\.OpenedColumns\[\*\],`},
			{"merkle(column hash, position, root)", `^noerr MerkleProof\.Verify\(p0\.Proof\.MerkleProofOpenedColumns\[\*\],p0\.SelectedColumns\[\*\],HashPoseidon2\(.*\),p0\.MerkleRoot\)$`},
		})
		sites, hits := unguardedAccesses(p, fn)
		_ = sites
		c.Instance("C17.bounds", 1)
		reportFindings(c, p, "C17.bounds", []*ssa.Function{fn}, hits, "accesses-guarded")
	}
	// ---- setup ceremony
	for _, pk := range p.FamilyPkgs("ecc/*/mpcsetup") {
		if fn := need(pk, "UpdateProof", "Verify"); fn != nil {
			RequireFacts(c, p, "C17.guard", fn, AcceptNilErr, nil, []Req{
				{"InSubgroup(commitment)", `^ok G1Affine\.IsInSubGroup\(pr\.contributionCommitment\)$`},
				{"InSubgroup(pok)", `^ok G2Affine\.IsInSubGroup\(pr\.contributionPok\)$`},
				{"NonZero(contribution)", `^not G1Affine\.IsInfinity\(pr\.contributionCommitment\)$`},
				{"pok(commitment;challenge,dst)", `^ok sameRatio\(pr\.contributionCommitment,Generators\(\)#2,pr\.contributionPok,pokBase\(pr\.contributionCommitment,p0,p1\)\)$`},
			})
			checkArmAgreement(c, p, fn)
		}
		if fn := need(pk, "", "sameRatio"); fn != nil {
			RequireFacts(c, p, "C17.guard", fn, AcceptTrueBool, nil, []Req{
				{"pairing", `^ok PairingCheck\(.*\)#0$`},
				{"pairing-noerr", `^noerr PairingCheck\(.*\)$`},
			})
		}
	}
	// ---- checks that were prepared and dropped
	c.Rule("C17.dead", "DEAD-CHECK-VALUE: in a verifier (Verify*, BatchVerify*) a local that is only ever the destination of arithmetic on proof data (at least two steps) is afterwards compared, passed on or returned; a folded commitment that is computed and dropped means the corresponding part of the proof is bound to nothing", 40)
	{
		n := 0
		var hits []Finding
		for _, fn := range libFuncs(p) {
			if fn.Parent() != nil || !regexp.MustCompile(`^(Batch)?Verify`).MatchString(fn.Name()) {
				continue
			}
			k, h := deadAccumulators(p, fn)
			n += k
			for _, x := range h {
				if strings.Contains(x.Msg, "(1 arithmetic steps)") {
					continue
				}
				hits = append(hits, x)
			}
		}
		c.Instance("C17.dead", n)
		reportFindings(c, p, "C17.dead", nil, hits, "")
		c.Ob("C17.dead", "-", "-", "verifier-locals-analysed", "-", n >= 40, "fewer computed locals in verifiers than on the reference tree")
	}
	// ---- coordinate coverage of extension-field inputs in the verifier packages
	c.Rule("C17.coverage", "COORDINATE-COVERAGE: a predicate of a verifier package (result bool or error) that reads an extension-field input coordinate by coordinate reads every base-field coordinate of it; a coordinate that is never read is never checked (e.g. the Reed-Solomon test applied to three of the four coordinates of E4)", 2)
	for _, fn := range libFuncs(p) {
		pk := relPkg(fnPkgPath(fn))
		if fn.Parent() != nil || !(strings.HasSuffix(pk, "/vortex") || strings.HasSuffix(pk, "/fri") || strings.HasSuffix(pk, "/sumcheck") || strings.HasSuffix(pk, "/plookup") || strings.HasSuffix(pk, "/permutation") || strings.HasSuffix(pk, "/shplonk") || strings.HasSuffix(pk, "/fflonk") || strings.HasSuffix(pk, "/kzg")) {
			continue
		}
		res := fn.Signature.Results()
		pred := false
		for i := 0; i < res.Len(); i++ {
			if isErrorType(res.At(i).Type()) || types.Identical(res.At(i).Type().Underlying(), types.Typ[types.Bool]) {
				pred = true
			}
		}
		if !pred {
			continue
		}
		hasExt := false
		for _, par := range fn.Params {
			var el types.Type
			switch u := par.Type().Underlying().(type) {
			case *types.Slice:
				el = u.Elem()
			case *types.Pointer:
				el = u.Elem()
			}
			if el != nil && regexp.MustCompile(`^E\d+$`).MatchString(namedName(el)) {
				hasExt = true
			}
		}
		if !hasExt {
			continue
		}
		c.Instance("C17.coverage", 1)
		miss := coordinateCoverage(fn)
		ok := true
		msg := ""
		for pi, m := range miss {
			if !regexp.MustCompile(`^E\d+$`).MatchString(namedName(elemOf(fn.Params[pi].Type()))) {
				continue
			}
			ok = false
			msg = fmt.Sprintf("%s: of the coordinates of %s (%s) the function reads some but never %s: that coordinate is not checked", funcKey(fn), fn.Params[pi].Name(), namedName(elemOf(fn.Params[pi].Type())), strings.Join(m, ", "))
		}
		c.Ob("C17.coverage", pk, funcKey(fn), "all-coordinates-read", p.Pos(fn.Pos()), ok, msg)
	}
	c.Assume("that the listed checks are sufficient (soundness proper) and honest-proof completeness are not decided; the tables list the checks the scheme definitions prescribe")
	c.Assume("KZG verification (C11), Merkle verification (C16), pairing (C05) are the referenced sub-verifiers")
}

// checkInfluenceCall: the listed inputs flow into some argument of the calls named `callee`.
func checkInfluenceCall(c *Ctx, p *Program, rule string, fn *ssa.Function, callee string, inputs []string) {
	checkInfluence(c, p, rule, fn, callee, inputs)
}

// checkArmAgreement implements C17.arms on one function.
func checkArmAgreement(c *Ctx, p *Program, fn *ssa.Function) {
	c.Instance("C17.arms", 1)
	loops := loopsOf(fn)
	isHeaderPhi := func(v ssa.Value) *ssa.Phi {
		ph, ok := stripConv(v).(*ssa.Phi)
		if !ok {
			return nil
		}
		for _, l := range loops {
			if l.header == ph.Block() {
				return ph
			}
		}
		return nil
	}
	typeCounters := map[string]map[*ssa.Phi]bool{}
	typeLists := map[string]map[*ssa.Phi]bool{}
	nArms := 0
	for _, b := range fn.Blocks {
		iff, ok := b.Instrs[len(b.Instrs)-1].(*ssa.If)
		if !ok {
			continue
		}
		ex, ok := iff.Cond.(*ssa.Extract)
		if !ok || ex.Index != 1 {
			continue
		}
		ta, ok := ex.Tuple.(*ssa.TypeAssert)
		if !ok || !ta.CommaOk {
			continue
		}
		T := shortType(ta.AssertedType)
		arm := b.Succs[0]
		nArms++
		// blocks of the arm: dominated by arm, stop at blocks with other preds (join)
		for _, ab := range fn.Blocks {
			if ab != arm && !(arm.Dominates(ab) && len(arm.Preds) == 1) {
				continue
			}
			for _, in := range ab.Instrs {
				switch x := in.(type) {
				case *ssa.BinOp:
					if x.Op == token.ADD {
						if ph := isHeaderPhi(x.X); ph != nil && isInteger(ph.Type()) {
							if typeCounters[T] == nil {
								typeCounters[T] = map[*ssa.Phi]bool{}
							}
							typeCounters[T][ph] = true
						}
					}
				case *ssa.Call:
					if bi, ok := x.Call.Value.(*ssa.Builtin); ok && bi.Name() == "append" && len(x.Call.Args) > 0 {
						if ph := isHeaderPhi(x.Call.Args[0]); ph != nil {
							if typeLists[T] == nil {
								typeLists[T] = map[*ssa.Phi]bool{}
							}
							typeLists[T][ph] = true
						}
					}
				}
			}
		}
	}
	pkg, fk := relPkg(fnPkgPath(fn)), funcKey(fn)
	if nArms < 4 || len(typeLists) == 0 || len(typeCounters) == 0 {
		c.Ob("C17.arms", pkg, fk, "two-type-switches-recognised", p.Pos(fn.Pos()), false, fk+": the count/collect type switches were not recognised")
		return
	}
	// list -> types
	listTypes := map[*ssa.Phi][]string{}
	for T, ls := range typeLists {
		for l := range ls {
			listTypes[l] = append(listTypes[l], T)
		}
	}
	key := func(m map[*ssa.Phi]bool) string {
		var ks []string
		for ph := range m {
			ks = append(ks, ph.Name())
		}
		sort.Strings(ks)
		return strings.Join(ks, ",")
	}
	ok := true
	msg := ""
	listCounter := map[*ssa.Phi]string{}
	for l, ts := range listTypes {
		sort.Strings(ts)
		first := ""
		for i, T := range ts {
			k := key(typeCounters[T])
			if i == 0 {
				first = k
			} else if k != first {
				ok = false
				msg = fmt.Sprintf("%s: the types %v are collected into the same list but increment different counters (%q vs %q): the check gated by the counter is skipped for some input forms", fk, ts, first, k)
			}
			if k == "" {
				ok = false
				msg = fmt.Sprintf("%s: type %s is collected into a list but increments no counter", fk, T)
			}
		}
		listCounter[l] = first
	}
	// lists fed by disjoint type sets must use different counters
	for l1, t1 := range listTypes {
		for l2, t2 := range listTypes {
			if l1 == l2 || strings.Join(t1, "|") == strings.Join(t2, "|") {
				continue
			}
			if listCounter[l1] == listCounter[l2] && listCounter[l1] != "" {
				ok = false
				msg = fmt.Sprintf("%s: lists fed by %v and by %v share the counter %q", fk, t1, t2, listCounter[l1])
			}
		}
	}
	c.Ob("C17.arms", pkg, fk, "count-and-collect-arms-agree", p.Pos(fn.Pos()), ok, msg)
}

func elemOf(t types.Type) types.Type {
	switch u := t.Underlying().(type) {
	case *types.Slice:
		return u.Elem()
	case *types.Pointer:
		return u.Elem()
	}
	return t
}
