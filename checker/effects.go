package main

import (
	"fmt"
	"go/token"
	"go/types"
	"os"
	"sort"
	"strings"
	"sync"
	"time"

	"golang.org/x/tools/go/callgraph"
	"golang.org/x/tools/go/ssa"
)

// EFFECTS engine: interprocedural mod/ref summaries with access paths, and read-after-write
// hazards under aliasing.
//
// A location is (root, path): root = k-th parameter (receiver first) or free variable of the
// function, or a global; path = field names / constant indices / [*] / symbolic induction
// indices, pointer dereferences implicit. Locals and fresh memory are not tracked (they cannot
// alias a caller-visible object).

type Loc struct {
	Root int // >=0: index into fn.Params ++ fn.FreeVars ; -1: global (Path starts with "g:<name>")
	Path string
}

func (l Loc) String() string {
	if l.Root < 0 {
		return l.Path
	}
	return fmt.Sprintf("#%d%s", l.Root, l.Path)
}

type writeInfo struct {
	ident bool // every write here stores the current value of IdSrc (same path => no-op under aliasing)
	src   Loc
	lazy  bool // every write here is a lazy initialisation of a nil pointer field (`if z.f == nil { z.f = new(T) }`)
}

type Hazard struct{ W, R Loc }

type Summary struct {
	Reads   map[Loc]bool
	Writes  map[Loc]writeInfo
	Haz     map[Hazard]token.Pos // position of the offending read
	Sub     map[Hazard]token.Pos // sub-object hazards: the read root may be a component of the written root (or vice versa)
	Unknown []string             // callees that could not be summarised (reported, not ignored)
}

func newSummary() *Summary {
	return &Summary{Reads: map[Loc]bool{}, Writes: map[Loc]writeInfo{}, Haz: map[Hazard]token.Pos{}, Sub: map[Hazard]token.Pos{}}
}

const maxPathElems = 6

func splitPath(p string) []string {
	var out []string
	i := 0
	for i < len(p) {
		j := i + 1
		if p[i] == '[' {
			for j < len(p) && p[j-1] != ']' {
				j++
			}
		} else {
			for j < len(p) && p[j] != '.' && p[j] != '[' {
				j++
			}
		}
		out = append(out, p[i:j])
		i = j
	}
	return out
}

// truncPath bounds a path to maxPathElems elements (the rest becomes the wildcard "[…]"), which
// makes the space of (value, path) pairs finite for recursive data structures.
func truncPath(p string) string {
	if strings.Count(p, ".")+strings.Count(p, "[") <= maxPathElems {
		return p
	}
	el := splitPath(p)
	if len(el) <= maxPathElems {
		return p
	}
	return strings.Join(el[:maxPathElems], "") + "[…]"
}

func joinPath(base, sub string) string {
	if sub == "" {
		return base
	}
	p := base + sub
	if strings.Count(p, ".")+strings.Count(p, "[") > maxPathElems {
		el := splitPath(p)
		if len(el) > maxPathElems {
			return strings.Join(el[:maxPathElems], "") + "[…]"
		}
	}
	return p
}

// pathsOverlap: may the two paths denote overlapping memory of the same object?
func pathsOverlap(a, b string) bool {
	ea, eb := splitPath(a), splitPath(b)
	n := len(ea)
	if len(eb) < n {
		n = len(eb)
	}
	for i := 0; i < n; i++ {
		x, y := ea[i], eb[i]
		if x == y {
			if x == "[…]" {
				return true
			}
			continue
		}
		if x == "[…]" || y == "[…]" {
			return true
		}
		if x == ".$hdr" || y == ".$hdr" {
			return false // a slice/pointer header is distinct from the elements it designates
		}
		if x[0] == '.' || y[0] == '.' {
			if x[0] == '.' && y[0] == '.' {
				return false // different fields
			}
			// field vs index: type confusion (arrays viewed through unsafe); be conservative
			return true
		}
		// both indices
		if isConstIdx(x) && isConstIdx(y) {
			return false
		}
		if bx, by := strings.HasPrefix(x, "[@!"), strings.HasPrefix(y, "[@!"); bx != by {
			if strings.Replace(x, "[@!", "[@", 1) == strings.Replace(y, "[@!", "[@", 1) {
				return false // same offset, different iterations of a counting loop: different elements
			}
		}
		if (strings.HasPrefix(x, "[blk:") && strings.HasPrefix(y, "[tail:") && x[5:] == y[6:]) ||
			(strings.HasPrefix(y, "[blk:") && strings.HasPrefix(x, "[tail:") && y[5:] == x[6:]) {
			return false // elements [0, n-n%B) processed by the kernel vs the tail [n-n%B, n)
		}
		// symbolic/unknown indices: may be equal -> continue comparing the rest
	}
	return true
}

func isConstIdx(e string) bool {
	return len(e) > 2 && e[0] == '[' && e[1] >= '0' && e[1] <= '9'
}

// ---------- per-function resolver ----------

type fnResolver struct {
	fn      *ssa.Function
	rootIdx map[ssa.Value]int
	memo    map[resolveKey][]Loc
	busy    map[resolveKey]bool
	stores  map[*ssa.Alloc][]allocStore
	symOf   map[ssa.Value]string
}

type resolveKey struct {
	v   ssa.Value
	sub string
}

type allocStore struct {
	path string
	val  ssa.Value
	in   ssa.Instruction
}

func newResolver(fn *ssa.Function) *fnResolver {
	r := &fnResolver{fn: fn, rootIdx: map[ssa.Value]int{}, memo: map[resolveKey][]Loc{}, busy: map[resolveKey]bool{}, stores: map[*ssa.Alloc][]allocStore{}, symOf: map[ssa.Value]string{}}
	for i, p := range fn.Params {
		r.rootIdx[p] = i
	}
	for i, f := range fn.FreeVars {
		r.rootIdx[f] = len(fn.Params) + i
	}
	// collect stores into local allocs (by address sub-path)
	for _, b := range fn.Blocks {
		for _, in := range b.Instrs {
			if st, ok := in.(*ssa.Store); ok {
				if a, path, ok := r.localAddr(st.Addr); ok {
					r.stores[a] = append(r.stores[a], allocStore{path, st.Val, in})
				}
			}
		}
	}
	return r
}

// localAddr: addr is &alloc<path> computed only through FieldAddr/IndexAddr on a local Alloc.
func (r *fnResolver) localAddr(addr ssa.Value) (*ssa.Alloc, string, bool) {
	path := ""
	for i := 0; i < 16; i++ {
		switch x := addr.(type) {
		case *ssa.Alloc:
			return x, path, true
		case *ssa.FieldAddr:
			path = "." + fieldName(x.X.Type(), x.Field) + path
			addr = x.X
		case *ssa.IndexAddr:
			// only arrays allocated locally (pointer to array); slices point elsewhere
			if _, ok := x.X.Type().Underlying().(*types.Pointer); !ok {
				return nil, "", false
			}
			path = r.idxElem(x.Index) + path
			addr = x.X
		case *ssa.ChangeType:
			addr = x.X
		default:
			return nil, "", false
		}
	}
	return nil, "", false
}

// idxElem renders an index: constant, symbolic induction variable, or [*].
func (r *fnResolver) idxElem(idx ssa.Value) string {
	if k, ok := constInt(idx); ok {
		return fmt.Sprintf("[%d]", k)
	}
	if s := r.inductionSym(idx); s != "" {
		return "[@" + s + "]"
	}
	return "[*]"
}

// inductionSym: idx = phi (+ const) where phi is a loop counter stepping by a non-zero constant.
func (r *fnResolver) inductionSym(idx ssa.Value) string {
	idx = stripConv(idx)
	if s, ok := r.symOf[idx]; ok {
		return s
	}
	res := ""
	off := int64(0)
	v := idx
	if b, ok := v.(*ssa.BinOp); ok && (b.Op == token.ADD || b.Op == token.SUB) {
		if k, ok := constInt(b.Y); ok {
			if b.Op == token.SUB {
				k = -k
			}
			off = k
			v = stripConv(b.X)
		}
	}
	if ph, ok := v.(*ssa.Phi); ok && isLoopCounter(ph) {
		res = fmt.Sprintf("%s%+d", ph.Name(), off)
	}
	r.symOf[idx] = res
	return res
}

// isLoopCounter: phi with one edge that is phi±const (directly or through a +const chain).
func isLoopCounter(ph *ssa.Phi) bool {
	for _, e := range ph.Edges {
		e = stripConv(e)
		if b, ok := e.(*ssa.BinOp); ok && (b.Op == token.ADD || b.Op == token.SUB) {
			if k, ok := constInt(b.Y); ok && k != 0 && stripConv(b.X) == ssa.Value(ph) {
				return true
			}
		}
	}
	return false
}

// counterOf returns the phi name a path element refers to ("" if none).
func symPhi(elem string) string {
	if !strings.HasPrefix(elem, "[@") {
		return ""
	}
	s := elem[2 : len(elem)-1]
	s = strings.TrimPrefix(s, "!") // [@!phi+k]: the element written at offset k in an earlier iteration
	if i := strings.LastIndexAny(s, "+-"); i > 0 {
		return s[:i]
	}
	return s
}

// locs returns the caller-visible memory reachable from value v (a pointer, slice, map,
// interface or a struct value containing such) followed by sub.
func (r *fnResolver) locs(v ssa.Value, sub string) []Loc {
	if !reachesPointer(v.Type(), sub) {
		return nil
	}
	sub = truncPath(sub)
	k := resolveKey{v, sub}
	if l, ok := r.memo[k]; ok {
		return l
	}
	if r.busy[k] || len(r.busy) > 64 {
		return nil
	}
	r.busy[k] = true
	out := r.locs1(v, sub)
	delete(r.busy, k)
	// dedupe
	seen := map[Loc]bool{}
	var ded []Loc
	for _, l := range out {
		if !seen[l] {
			seen[l] = true
			ded = append(ded, l)
		}
	}
	r.memo[k] = ded
	return ded
}

func (r *fnResolver) locs1(v ssa.Value, sub string) []Loc {
	switch x := v.(type) {
	case *ssa.Parameter, *ssa.FreeVar:
		return []Loc{{r.rootIdx[v], joinPath("", sub)}}
	case *ssa.Global:
		return []Loc{{-1, joinPath("g:"+x.Pkg.Pkg.Path()+"."+x.Name(), sub)}}
	case *ssa.Alloc:
		return r.localContents(x, sub)
	case *ssa.FieldAddr:
		return r.locs(x.X, "."+fieldName(x.X.Type(), x.Field)+sub)
	case *ssa.Field:
		return r.locs(x.X, "."+fieldName(x.X.Type(), x.Field)+sub)
	case *ssa.IndexAddr:
		return r.locs(x.X, r.idxElem(x.Index)+sub)
	case *ssa.Index:
		return r.locs(x.X, r.idxElem(x.Index)+sub)
	case *ssa.Lookup:
		return r.locs(x.X, "[*]"+sub)
	case *ssa.Slice:
		// a re-slice with a non-zero low bound shifts indices: constant/symbolic indices
		// below it no longer correspond
		if x.Low != nil {
			if k, ok := constInt(x.Low); !ok || k != 0 {
				if ts := tailSym(x.Low); ts != "" {
					return r.locs(x.X, replaceFirstIdx(sub, "[tail:"+ts+"]"))
				}
				return r.locs(x.X, shiftIdx(sub))
			}
		}
		return r.locs(x.X, sub)
	case *ssa.UnOp:
		if x.Op == token.MUL {
			// a load from a local cell that is preceded, in the same block, by a store to
			// that cell sees exactly that store (flow-sensitivity for `v = make(..); f(v)`
			// on captured variables)
			if a, ok := x.X.(*ssa.Alloc); ok {
				if v := lastStoreBefore(a, x); v != nil {
					return r.locs(v, sub)
				}
			}
			// value loaded from memory: the memory it designates is reached through the
			// address (implicit dereference)
			return r.locs(x.X, sub)
		}
		return nil
	case *ssa.Phi:
		var out []Loc
		for _, e := range x.Edges {
			out = append(out, r.locs(e, sub)...)
		}
		return out
	case *ssa.ChangeType:
		return r.locs(x.X, sub)
	case *ssa.Convert:
		return r.locs(x.X, sub)
	case *ssa.MakeInterface:
		return r.locs(x.X, sub)
	case *ssa.ChangeInterface:
		return r.locs(x.X, sub)
	case *ssa.SliceToArrayPointer:
		return r.locs(x.X, sub)
	case *ssa.TypeAssert:
		return r.locs(x.X, sub)
	case *ssa.Extract:
		switch tu := x.Tuple.(type) {
		case *ssa.Lookup:
			if x.Index == 0 {
				return r.locs(tu.X, "[*]"+sub)
			}
		case *ssa.TypeAssert:
			if x.Index == 0 {
				return r.locs(tu.X, sub)
			}
		case *ssa.Call:
			return r.callResultLocs(tu, sub)
		}
		return nil
	case *ssa.Call:
		return r.callResultLocs(x, sub)
	}
	return nil
}

// tailSym recognises low = n - n%B (the start of the tail left over by block processing) and
// returns "B:<name of n>".
func tailSym(low ssa.Value) string {
	b, ok := stripConv(low).(*ssa.BinOp)
	if ok && b.Op == token.MUL {
		// (n/K)*K, the same position written the other way
		for _, pr := range [][2]ssa.Value{{b.X, b.Y}, {b.Y, b.X}} {
			if q, ok := stripConv(pr[0]).(*ssa.BinOp); ok && q.Op == token.QUO {
				k1, ok1 := constInt(q.Y)
				k2, ok2 := constInt(pr[1])
				if ok1 && ok2 && k1 == k2 && k1 > 1 {
					return fmt.Sprintf("%d:%s", k1, stripConv(q.X).Name())
				}
			}
		}
		return ""
	}
	// n &^ (K-1) for a power of two K, and (n >> s) << s
	if ok && b.Op == token.AND_NOT {
		if m, isC := constInt(b.Y); isC && m >= 1 && (m+1)&m == 0 {
			return fmt.Sprintf("%d:%s", m+1, stripConv(b.X).Name())
		}
		return ""
	}
	if ok && b.Op == token.SHL {
		if q, isQ := stripConv(b.X).(*ssa.BinOp); isQ && q.Op == token.SHR {
			s1, ok1 := constInt(q.Y)
			s2, ok2 := constInt(b.Y)
			if ok1 && ok2 && s1 == s2 && s1 > 0 && s1 < 31 {
				return fmt.Sprintf("%d:%s", int64(1)<<uint(s1), stripConv(q.X).Name())
			}
		}
		return ""
	}
	if !ok || b.Op != token.SUB {
		return ""
	}
	rem, ok := stripConv(b.Y).(*ssa.BinOp)
	if !ok || rem.Op != token.REM {
		return ""
	}
	k, ok := constInt(rem.Y)
	if !ok || k <= 1 {
		return ""
	}
	if stripConv(rem.X) != stripConv(b.X) {
		return ""
	}
	return fmt.Sprintf("%d:%s", k, stripConv(b.X).Name())
}

// blockSym recognises a count argument n/B of a block-processing assembly kernel.
func blockSym(args []ssa.Value) string {
	for _, a := range args {
		if q, ok := stripConv(a).(*ssa.BinOp); ok && q.Op == token.QUO {
			if k, ok := constInt(q.Y); ok && k > 1 {
				return fmt.Sprintf("%d:%s", k, stripConv(q.X).Name())
			}
		}
		if q, ok := stripConv(a).(*ssa.BinOp); ok && q.Op == token.SHR {
			if k, ok := constInt(q.Y); ok && k > 0 && k < 31 {
				return fmt.Sprintf("%d:%s", int64(1)<<uint(k), stripConv(q.X).Name())
			}
		}
	}
	return ""
}

func replaceFirstIdx(sub, elem string) string {
	el := splitPath(sub)
	if len(el) > 0 && el[0][0] == '[' {
		el[0] = elem
		return strings.Join(el, "")
	}
	return sub
}

func shiftIdx(sub string) string {
	el := splitPath(sub)
	if len(el) > 0 && el[0][0] == '[' {
		el[0] = "[*]"
		return strings.Join(el, "")
	}
	return sub
}

// callResultLocs: results of a few well-known functions alias their arguments.
func (r *fnResolver) callResultLocs(c *ssa.Call, sub string) []Loc {
	cl := calleeOf(&c.Call)
	if cl.Built && cl.Name == "append" && len(c.Call.Args) > 0 {
		// append to a zero-capacity slice (s[:0:0]) always allocates: the result is fresh
		if sl, ok := c.Call.Args[0].(*ssa.Slice); ok && sl.Max != nil {
			if k, ok := constInt(sl.Max); ok && k == 0 {
				return nil
			}
		}
		return r.locs(c.Call.Args[0], shiftIdx(sub))
	}
	// fluent arithmetic API: methods returning their receiver (z.Mul(x,y) returns z)
	if cl.Fn != nil && cl.Fn.Signature.Recv() != nil && len(c.Call.Args) > 0 {
		res := cl.Fn.Signature.Results()
		if res.Len() == 1 && types.Identical(res.At(0).Type(), cl.Fn.Signature.Recv().Type()) {
			if _, ok := res.At(0).Type().(*types.Pointer); ok && returnsReceiver(cl.Fn) {
				return r.locs(c.Call.Args[0], sub)
			}
		}
	}
	return nil
}

var retRecvMemo sync.Map

// returnsReceiver: every return of fn returns its receiver parameter (or the result of a call
// that does).
func returnsReceiver(fn *ssa.Function) bool {
	if v, ok := retRecvMemo.Load(fn); ok {
		return v.(bool)
	}
	retRecvMemo.Store(fn, false) // recursion guard
	ok := fn.Blocks != nil
	for _, b := range fn.Blocks {
		if ret, isRet := b.Instrs[len(b.Instrs)-1].(*ssa.Return); isRet && len(ret.Results) == 1 {
			if !valueIsReceiver(ret.Results[0], fn, 0) {
				ok = false
			}
		}
	}
	retRecvMemo.Store(fn, ok)
	return ok
}

func valueIsReceiver(v ssa.Value, fn *ssa.Function, depth int) bool {
	if depth > 6 {
		return false
	}
	switch x := v.(type) {
	case *ssa.Parameter:
		return len(fn.Params) > 0 && x == fn.Params[0]
	case *ssa.Phi:
		for _, e := range x.Edges {
			if !valueIsReceiver(e, fn, depth+1) {
				return false
			}
		}
		return true
	case *ssa.Call:
		cl := calleeOf(&x.Call)
		if cl.Fn != nil && cl.Fn.Signature.Recv() != nil && len(x.Call.Args) > 0 && returnsReceiver(cl.Fn) {
			return valueIsReceiver(x.Call.Args[0], fn, depth+1)
		}
	case *ssa.UnOp:
		// spilled receiver
		if x.Op == token.MUL {
			if a, ok := x.X.(*ssa.Alloc); ok {
				n := 0
				all := true
				for _, ref := range *a.Referrers() {
					if st, ok := ref.(*ssa.Store); ok && st.Addr == a {
						n++
						if !valueIsReceiver(st.Val, fn, depth+1) {
							all = false
						}
					}
				}
				return n > 0 && all
			}
		}
	}
	return false
}

// localContents: caller-visible memory reachable from the contents of a local cell at sub.
func (r *fnResolver) localContents(a *ssa.Alloc, sub string) []Loc {
	var out []Loc
	for _, st := range r.stores[a] {
		switch {
		case strings.HasPrefix(sub, st.path):
			out = append(out, r.locs(st.val, sub[len(st.path):])...)
		case strings.HasPrefix(st.path, sub):
			// reading a whole sub-object, part of which was stored: the stored value is reachable
			out = append(out, r.locs(st.val, "")...)
		}
	}
	return out
}

// addrLocs: the caller-visible locations an address designates. An address that is (inside) a
// local Alloc designates local memory.
func (r *fnResolver) addrLocs(addr ssa.Value) []Loc {
	if _, _, ok := r.localAddr(addr); ok {
		return nil
	}
	return r.locs(addr, "")
}

// ---------- summaries ----------

type Effects struct {
	p              *Program
	mu             sync.Mutex
	sums           map[*ssa.Function]*Summary
	state          map[*ssa.Function]int // 0 new, 1 in progress, 2 done
	sites          map[ssa.CallInstruction][]*ssa.Function
	sitesOnce      sync.Once
	Trusted        map[string]bool
	UnknownCallees map[string]int
	must           map[*ssa.Function]*MustSummary
	mustState      map[*ssa.Function]int
}

func NewEffects(p *Program) *Effects {
	return &Effects{p: p, sums: map[*ssa.Function]*Summary{}, state: map[*ssa.Function]int{}, Trusted: map[string]bool{}, UnknownCallees: map[string]int{}}
}

func (e *Effects) dynCallees(site ssa.CallInstruction) []*ssa.Function {
	e.sitesOnce.Do(func() {
		e.sites = map[ssa.CallInstruction][]*ssa.Function{}
		cg := e.p.CallGraph()
		for _, n := range cg.Nodes {
			for _, out := range n.Out {
				if out.Site != nil {
					e.sites[out.Site] = append(e.sites[out.Site], out.Callee.Func)
				}
			}
		}
	})
	return e.sites[site]
}

var _ = callgraph.Graph{}

// Summary returns the (memoised) summary of fn.
func (e *Effects) Summary(fn *ssa.Function) *Summary {
	if s, ok := e.sums[fn]; ok && e.state[fn] == 2 {
		return s
	}
	if e.state[fn] == 1 {
		// recursion: use what is known so far
		if s, ok := e.sums[fn]; ok {
			return s
		}
		return newSummary()
	}
	e.state[fn] = 1
	e.sums[fn] = newSummary()
	var s *Summary
	for iter := 0; iter < 3; iter++ {
		s = e.analyse(fn)
		old := e.sums[fn]
		e.sums[fn] = s
		if len(s.Reads) == len(old.Reads) && len(s.Writes) == len(old.Writes) && len(s.Haz) == len(old.Haz) && len(s.Sub) == len(old.Sub) {
			break
		}
	}
	e.state[fn] = 2
	return s
}

// external summaries: functions without a Go body.
func (e *Effects) externalSummary(fn *ssa.Function, cl Callee) *Summary {
	s := newSummary()
	sig := fn.Signature
	np := sig.Params().Len()
	off := 0
	if sig.Recv() != nil {
		off = 1
	}
	isPtrLike := func(t types.Type) bool {
		switch t.Underlying().(type) {
		case *types.Pointer, *types.Slice, *types.Map, *types.Interface:
			return true
		}
		return false
	}
	pkg := cl.Pkg
	if pkg == "" {
		pkg = fnPkgPath(fn)
	}
	inRepo := strings.HasPrefix(pkg, modPath)
	if inRepo {
		// assembly stub: first pointer parameter is the destination (read+written), the
		// others are read. Butterfly-like stubs (two destinations) are listed.
		// destination parameters: by declared name (res, z, result, dst, out, input for in-place
		// permutations), else the first pointer-like parameter; Butterfly-like stubs write both.
		twoDest := strings.Contains(strings.ToLower(fn.Name()), "butterfly")
		destNames := map[string]bool{"res": true, "z": true, "result": true, "dst": true, "out": true}
		var ptrIdx []int
		named := -1
		for i := 0; i < np+off; i++ {
			var t types.Type
			name := ""
			if off == 1 && i == 0 {
				t = sig.Recv().Type()
				name = sig.Recv().Name()
			} else {
				t = sig.Params().At(i - off).Type()
				name = sig.Params().At(i - off).Name()
			}
			if !isPtrLike(t) {
				continue
			}
			ptrIdx = append(ptrIdx, i)
			s.Reads[Loc{i, ""}] = true
			if destNames[name] && named < 0 {
				named = i
			}
		}
		var dests []int
		switch {
		case twoDest:
			dests = ptrIdx
			if len(dests) > 2 {
				dests = dests[:2]
			}
		case named >= 0:
			dests = []int{named}
		case len(ptrIdx) > 0:
			dests = []int{ptrIdx[0]}
		}
		for _, d := range dests {
			s.Writes[Loc{d, ""}] = writeInfo{}
		}
		e.Trusted[fmt.Sprintf("asm stub %s.%s: writes only parameter(s) %v (by declared name / position), loads all inputs of an element before storing it", normFamily(relPkg(pkg)), fn.Name(), dests)] = true
		return s
	}
	// standard library / third party
	switch {
	case pkg == "math/big":
		if off == 1 {
			s.Reads[Loc{0, ""}] = true
			if !bigGetter[fn.Name()] {
				s.Writes[Loc{0, ""}] = writeInfo{}
			}
		}
		for i := off; i < np+off; i++ {
			if isPtrLike(sig.Params().At(i - off).Type()) {
				s.Reads[Loc{i, ""}] = true
				if bigExtraOut[fn.Name()] {
					s.Writes[Loc{i, ""}] = writeInfo{}
				}
			}
		}
		e.Trusted["math/big methods write only their receiver (and documented extra outputs) and tolerate aliasing"] = true
		return s
	}
	for i := 0; i < np+off; i++ {
		var t types.Type
		if off == 1 && i == 0 {
			t = sig.Recv().Type()
		} else {
			t = sig.Params().At(i - off).Type()
		}
		if isPtrLike(t) {
			s.Reads[Loc{i, ""}] = true
		}
	}
	key := pkg + "." + fn.Name()
	if w, ok := stdWrites[key]; ok {
		for _, i := range w {
			s.Writes[Loc{i, ""}] = writeInfo{}
		}
	} else if stdWriterPkgs[pkg] && off == 1 {
		// stateful std objects (hash, buffer, rand, sync...): receiver is their own state
		s.Writes[Loc{0, ""}] = writeInfo{}
	}
	return s
}

var bigGetter = map[string]bool{"Cmp": true, "CmpAbs": true, "Sign": true, "BitLen": true, "Bit": true, "Bits": true, "Bytes": true, "FillBytes": true, "Int64": true, "Uint64": true, "IsInt64": true, "IsUint64": true, "String": true, "Text": true, "Append": true, "Format": true, "TrailingZeroBits": true, "ProbablyPrime": true, "MarshalText": true, "MarshalJSON": true, "GobEncode": true, "Float64": true, "IsInt": true, "Num": true, "Denom": true}
var bigExtraOut = map[string]bool{"DivMod": true, "QuoRem": true, "GCD": true, "FillBytes": true}

// stdWrites: std functions writing through a parameter (index counts the receiver as 0 when
// there is one).
var stdWrites = map[string][]int{
	"crypto/subtle.ConstantTimeCopy": {1}, "crypto/subtle.XORBytes": {0},
	"io.ReadFull": {1}, "io.ReadAtLeast": {1}, "crypto/rand.Read": {0}, "math/rand.Read": {0},
	"encoding/binary.Read": {2}, "encoding/binary.PutUint64": {1}, "encoding/binary.PutUint32": {1}, "encoding/binary.PutUint16": {1},
	"encoding/hex.Decode": {0}, "encoding/hex.Encode": {0}, "sort.Slice": {0}, "sort.Sort": {0}, "sort.Ints": {0}, "slices.Sort": {0}, "slices.SortFunc": {0}, "slices.Reverse": {0},
	"encoding/json.Unmarshal": {1}, "crypto/cipher.XORKeyStream": {1}, "golang.org/x/crypto/sha3.Read": {1},
}
var stdWriterPkgs = map[string]bool{"hash": true, "bytes": true, "bufio": true, "sync": true, "sync/atomic": true, "crypto/sha256": true, "crypto/sha512": true, "golang.org/x/crypto/sha3": true, "golang.org/x/crypto/blake2b": true, "strings": true, "math/rand": true, "io": true, "crypto/cipher": true, "crypto/aes": true, "encoding/binary": true, "github.com/bits-and-blooms/bitset": true, "os": true, "encoding/json": true, "encoding/gob": true, "text/template": true, "crypto/hmac": true}

type dirtyEntry struct {
	w     Loc
	ident bool
	src   Loc
}

type dirtySet map[dirtyEntry]bool

func (e *Effects) analyse(fn *ssa.Function) (res *Summary) {
	if os.Getenv("GCV_TRACE") != "" {
		t0 := time.Now()
		defer func() {
			if d := time.Since(t0); d > 500*time.Millisecond {
				fmt.Fprintf(os.Stderr, "TRACE analyse %s blocks=%d took %v reads=%d writes=%d haz=%d\n", funcKey(fn), len(fn.Blocks), d, len(res.Reads), len(res.Writes), len(res.Haz))
			}
		}()
	}
	s := newSummary()
	if fn.Blocks == nil {
		return s
	}
	r := newResolver(fn)
	nb := len(fn.Blocks)
	in := make([]dirtySet, nb)
	out := make([]dirtySet, nb)
	for i := range in {
		in[i] = dirtySet{}
		out[i] = dirtySet{}
	}
	loops := loopsOf(fn)
	// phi names of counters per loop header
	hdrCounters := map[int][]string{}
	for _, l := range loops {
		for _, instr := range l.header.Instrs {
			ph, ok := instr.(*ssa.Phi)
			if !ok {
				break
			}
			if isLoopCounter(ph) {
				hdrCounters[l.header.Index] = append(hdrCounters[l.header.Index], ph.Name())
			}
		}
	}
	loopOfHeader := map[int]*loopInfo{}
	for _, l := range loops {
		loopOfHeader[l.header.Index] = l
	}
	mentions := func(path string, names []string) bool {
		for _, el := range splitPath(path) {
			if p := symPhi(el); p != "" {
				for _, n := range names {
					if n == p {
						return true
					}
				}
			}
		}
		return false
	}
	widen := func(path string, names []string) string {
		el := splitPath(path)
		for i, x := range el {
			if p := symPhi(x); p != "" {
				for _, n := range names {
					if n == p {
						el[i] = "[*]"
					}
				}
			}
		}
		return strings.Join(el, "")
	}

	locType := func(l Loc) types.Type {
		rt := rootType(fn, l.Root)
		if rt == nil {
			return nil
		}
		p := strings.TrimSuffix(l.Path, "[…]")
		p = strings.TrimSuffix(p, ".$hdr")
		t := typeAt(rt, splitPath(p))
		if t == nil {
			return nil
		}
		return derefAll(t)
	}
	typeMemo := map[[2]Loc]bool{}
	mayOverlapTypes := func(a, b Loc) bool {
		k := [2]Loc{a, b}
		if v, ok := typeMemo[k]; ok {
			return v
		}
		v := typesMayOverlap(locType(a), locType(b))
		typeMemo[k] = v
		return v
	}
	subMemo := map[[2]Loc]bool{}
	subOverlap := func(w, r Loc) bool {
		k := [2]Loc{w, r}
		if v, ok := subMemo[k]; ok {
			return v
		}
		v := subObjectOverlap(rootType(fn, w.Root), w.Path, rootType(fn, r.Root), r.Path)
		subMemo[k] = v
		return v
	}
	read := func(cur dirtySet, l Loc, pos token.Pos) {
		s.Reads[l] = true
		for d := range cur {
			if d.w.Root == l.Root || d.w.Root < 0 || l.Root < 0 {
				continue // same object: ordinary sequential semantics; globals are not operands
			}
			if subOverlap(d.w, l) {
				h := Hazard{d.w, l}
				if _, ok := s.Sub[h]; !ok {
					s.Sub[h] = pos
				}
			}
			if !pathsOverlap(d.w.Path, l.Path) {
				continue
			}
			if !mayOverlapTypes(d.w, l) {
				continue
			}
			if d.ident && d.src.Root == l.Root && d.src.Path == d.w.Path {
				continue // z.f = x.f is a no-op when z and x are the same object
			}
			h := Hazard{d.w, l}
			if _, ok := s.Haz[h]; !ok {
				s.Haz[h] = pos
			}
		}
	}
	write := func(cur dirtySet, l Loc, ident bool, src Loc) {
		if old, ok := s.Writes[l]; ok {
			if !(old.ident && ident && old.src == src) {
				s.Writes[l] = writeInfo{}
			}
		} else {
			s.Writes[l] = writeInfo{ident: ident, src: src}
		}
		cur[dirtyEntry{l, ident, src}] = true
	}

	applyCall := func(cur dirtySet, site ssa.CallInstruction, callee *ssa.Function, actuals []ssa.Value, pos token.Pos) {
		var cs *Summary
		if callee.Blocks == nil || !strings.HasPrefix(fnPkgPath(callee), modPath) {
			cs = e.externalSummary(callee, Callee{Pkg: fnPkgPath(callee), Name: callee.Name()})
		} else {
			cs = e.Summary(callee)
		}
		blk := ""
		if callee.Blocks == nil && strings.HasPrefix(fnPkgPath(callee), modPath) {
			blk = blockSym(site.Common().Args)
		}
		mapLoc := func(l Loc) []Loc {
			if l.Root < 0 {
				return []Loc{l}
			}
			if l.Root >= len(actuals) || actuals[l.Root] == nil {
				return nil
			}
			ls := r.locs(actuals[l.Root], l.Path)
			if blk != "" {
				out := make([]Loc, len(ls))
				for i, x := range ls {
					// &s[0] handed to a block kernel designates elements [0, (n/B)*B)
					el := splitPath(x.Path)
					for j, e := range el {
						if e == "[0]" {
							el[j] = "[blk:" + blk + "]"
							break
						}
					}
					x.Path = strings.Join(el, "")
					out[i] = x
				}
				return out
			}
			return ls
		}
		// reads first (they see the caller's dirty state), then callee-internal hazards, then writes
		for l := range cs.Reads {
			for _, m := range mapLoc(l) {
				read(cur, m, pos)
			}
		}
		for h := range cs.Haz {
			for _, mw := range mapLoc(h.W) {
				for _, mr := range mapLoc(h.R) {
					if mw.Root != mr.Root && pathsOverlap(mw.Path, mr.Path) {
						hz := Hazard{mw, mr}
						if _, ok := s.Haz[hz]; !ok {
							s.Haz[hz] = pos
						}
					}
				}
			}
		}
		for h := range cs.Sub {
			for _, mw := range mapLoc(h.W) {
				for _, mr := range mapLoc(h.R) {
					if mw.Root != mr.Root && mw.Root >= 0 && mr.Root >= 0 && subOverlap(mw, mr) {
						hz := Hazard{mw, mr}
						if _, ok := s.Sub[hz]; !ok {
							s.Sub[hz] = pos
						}
					}
				}
			}
		}
		for l, wi := range cs.Writes {
			for _, m := range mapLoc(l) {
				if wi.lazy {
					if _, ok := s.Writes[m]; !ok {
						s.Writes[m] = writeInfo{lazy: true}
					}
					continue
				}
				if wi.ident {
					srcs := mapLoc(wi.src)
					if len(srcs) == 1 && strings.TrimPrefix(m.Path, "") != "" || len(srcs) == 1 {
						// identity is preserved only when source and destination sub-paths
						// stay equal after mapping
						if pathSuffixEqual(m.Path, srcs[0].Path) {
							write(cur, m, true, srcs[0])
							continue
						}
					}
				}
				write(cur, m, false, Loc{})
			}
		}
	}

	transfer := func(b *ssa.BasicBlock, cur dirtySet) {
		for _, instr := range b.Instrs {
			pos := instrPos(instr)
			switch x := instr.(type) {
			case *ssa.UnOp:
				if x.Op == token.MUL {
					hdr := isPtrLikeType(x.Type())
					for _, l := range r.addrLocs(x.X) {
						if hdr {
							l.Path = joinPath(l.Path, ".$hdr")
						}
						read(cur, l, pos)
					}
				}
			case *ssa.Store:
				dst := r.addrLocs(x.Addr)
				if len(dst) == 0 {
					continue
				}
				ident := false
				var src Loc
				if ld, ok := x.Val.(*ssa.UnOp); ok && ld.Op == token.MUL {
					if sl := r.addrLocs(ld.X); len(sl) == 1 && len(dst) == 1 && sl[0].Path == dst[0].Path {
						ident, src = true, sl[0]
					}
				}
				hdr := isPtrLikeType(x.Val.Type())
				// lazy initialisation `if z.f == nil { z.f = new(T) }`: the store happens only when
				// the location held nil, i.e. never for an operand that is a valid (initialised)
				// object; it is a modification but not a source of aliasing hazards
				nilInit := false
				if hdr && len(dst) == 1 && len(b.Preds) == 1 {
					if iff, ok := b.Preds[0].Instrs[len(b.Preds[0].Instrs)-1].(*ssa.If); ok {
						at := atomOf(iff.Cond)
						if at.Kind == "nilcmp" {
							nilSide := 0
							if at.Neg {
								nilSide = 1
							}
							if b.Preds[0].Succs[nilSide] == b {
								if ld, ok := at.X.(*ssa.UnOp); ok && ld.Op == token.MUL {
									if sl := r.addrLocs(ld.X); len(sl) == 1 && sl[0] == dst[0] {
										nilInit = true
									}
								}
							}
						}
					}
				}
				for _, l := range dst {
					if hdr {
						l.Path = joinPath(l.Path, ".$hdr")
						if nilInit {
							if _, ok := s.Writes[l]; !ok {
								s.Writes[l] = writeInfo{lazy: true}
							}
							continue
						}
						write(cur, l, false, Loc{})
						continue
					}
					write(cur, l, ident, src)
				}
			case *ssa.MapUpdate:
				for _, l := range r.locs(x.Map, "[*]") {
					write(cur, l, false, Loc{})
				}
			case *ssa.Lookup:
				for _, l := range r.locs(x.X, "[*]") {
					read(cur, l, pos)
				}
			case *ssa.Index:
				// value-level index of an array value: no memory access by itself
			case ssa.CallInstruction:
				cc := x.Common()
				cl := calleeOf(cc)
				if cl.Built {
					switch cl.Name {
					case "copy":
						for _, l := range r.locs(cc.Args[1], "[*]") {
							read(cur, l, pos)
						}
						for _, l := range r.locs(cc.Args[0], "[*]") {
							write(cur, l, false, Loc{})
						}
					case "append":
						if len(cc.Args) == 2 {
							for _, l := range r.locs(cc.Args[1], "[*]") {
								read(cur, l, pos)
							}
						}
						// append stores into the spare capacity of its first argument when
						// there is room: the backing array of a caller-visible slice is written
						zeroCap := false
						if sl, ok := cc.Args[0].(*ssa.Slice); ok && sl.Max != nil {
							if k, ok := constInt(sl.Max); ok && k == 0 {
								zeroCap = true
							}
						}
						if !zeroCap {
							for _, l := range r.locs(cc.Args[0], "[*]") {
								write(cur, l, false, Loc{})
							}
						}
					case "clear":
						for _, l := range r.locs(cc.Args[0], "[*]") {
							write(cur, l, false, Loc{})
						}
					}
					continue
				}
				var callees []*ssa.Function
				var actuals []ssa.Value
				if cc.IsInvoke() {
					callees = e.dynCallees(x)
					actuals = append([]ssa.Value{cc.Value}, cc.Args...)
				} else if fnv := cc.StaticCallee(); fnv != nil {
					callees = []*ssa.Function{fnv}
					actuals = cc.Args
					if mc, ok := cc.Value.(*ssa.MakeClosure); ok {
						actuals = append(append([]ssa.Value{}, cc.Args...), mc.Bindings...)
					}
				} else {
					callees = e.dynCallees(x)
					actuals = cc.Args
				}
				if len(callees) == 0 && !cc.IsInvoke() && cc.StaticCallee() == nil {
					// dynamic call with no resolved target
					s.Unknown = append(s.Unknown, "dynamic call at "+e.p.Pos(pos))
				}
				for _, cal := range callees {
					if cal == nil {
						continue
					}
					act := actuals
					if len(cal.FreeVars) > 0 && len(act) < len(cal.Params)+len(cal.FreeVars) {
						// closure reached through a function value: bindings unknown here;
						// they are accounted for at the MakeClosure site below
						act = actuals
					}
					applyCall(cur, x, cal, act, pos)
				}
				// closures passed as arguments run during (or, for go/defer, after) this call
				for _, a := range cc.Args {
					if mc, ok := a.(*ssa.MakeClosure); ok {
						cf := mc.Fn.(*ssa.Function)
						act := make([]ssa.Value, len(cf.Params), len(cf.Params)+len(mc.Bindings))
						act = append(act, mc.Bindings...)
						applyCall(cur, x, cf, act, pos)
					}
				}
			}
		}
	}

	// worklist fixpoint
	work := []int{0}
	inWork := map[int]bool{0: true}
	visited := make([]bool, nb)
	iters := 0
	for len(work) > 0 && iters < 20*nb+100 {
		iters++
		bi := work[0]
		work = work[1:]
		inWork[bi] = false
		visited[bi] = true
		b := fn.Blocks[bi]
		cur := dirtySet{}
		for d := range in[bi] {
			cur[d] = true
		}
		transfer(b, cur)
		out[bi] = cur
		for _, succ := range b.Succs {
			// edge adjustments for induction symbols
			var retire, widenNames []string
			if succ.Dominates(b) { // back edge
				retire = hdrCounters[succ.Index]
			}
			// leaving loops: for every loop containing b but not succ
			for _, l := range loops {
				if l.blocks[b.Index] && !l.blocks[succ.Index] {
					widenNames = append(widenNames, hdrCounters[l.header.Index]...)
				}
			}
			changed := false
			for d := range cur {
				nd := d
				if len(retire) > 0 && mentions(d.w.Path, retire) {
					// the element written in this iteration stays dirty for the following ones, as
					// "the element at this offset of an EARLIER iteration": distinct from the element at
					// the same offset of the current iteration, possibly equal to anything else (another
					// offset, a constant index, a scalar operand that points into the destination)
					nd.w.Path = bangPath(d.w.Path, retire)
					if nd.ident {
						nd.src.Path = bangPath(d.src.Path, retire)
					}
				}
				if len(widenNames) > 0 {
					nd.w.Path = widen(d.w.Path, widenNames)
					if nd.ident {
						nd.src.Path = widen(d.src.Path, widenNames)
					}
				}
				if !in[succ.Index][nd] {
					in[succ.Index][nd] = true
					changed = true
				}
			}
			if (changed || !visited[succ.Index]) && !inWork[succ.Index] {
				inWork[succ.Index] = true
				work = append(work, succ.Index)
			}
		}
	}
	// summary paths must not mention this function's induction symbols
	clean := func(l Loc) Loc {
		el := splitPath(l.Path)
		ch := false
		for i, x := range el {
			if strings.HasPrefix(x, "[@") || strings.HasPrefix(x, "[blk:") || strings.HasPrefix(x, "[tail:") {
				el[i] = "[*]"
				ch = true
			}
		}
		if ch {
			l.Path = strings.Join(el, "")
		}
		return l
	}
	cs := newSummary()
	for l := range s.Reads {
		cs.Reads[clean(l)] = true
	}
	for l, wi := range s.Writes {
		cl := clean(l)
		if wi.ident {
			wi.src = clean(wi.src)
		}
		if old, ok := cs.Writes[cl]; ok && old.lazy && wi.lazy {
			cs.Writes[cl] = writeInfo{lazy: true}
		} else if ok && !(old.ident && wi.ident && old.src == wi.src) {
			cs.Writes[cl] = writeInfo{}
		} else {
			cs.Writes[cl] = wi
		}
	}
	for h, pos := range s.Haz {
		cs.Haz[Hazard{clean(h.W), clean(h.R)}] = pos
	}
	for h, pos := range s.Sub {
		cs.Sub[Hazard{clean(h.W), clean(h.R)}] = pos
	}
	cs.Unknown = s.Unknown
	compressSummary(fn, cs)
	return cs
}

func pathSuffixEqual(a, b string) bool { return a == b }

// WritesRoot: sorted paths of root k written by fn.
func (s *Summary) WritesRoot(k int) []string {
	var out []string
	for l := range s.Writes {
		if l.Root == k {
			out = append(out, l.Path)
		}
	}
	sort.Strings(out)
	return out
}

// SubBetween: sub-object hazards where root w is written and root r read afterwards.
func (s *Summary) SubBetween(w, r int) []Hazard {
	var out []Hazard
	for h := range s.Sub {
		if h.W.Root == w && h.R.Root == r {
			out = append(out, h)
		}
	}
	sort.Slice(out, func(i, j int) bool {
		if out[i].W.Path != out[j].W.Path {
			return out[i].W.Path < out[j].W.Path
		}
		return out[i].R.Path < out[j].R.Path
	})
	return out
}

var embedMemo sync.Map

// embeddings: access paths inside a value of type outer at which a value of type inner is
// stored (struct fields, array and slice elements; pointers are not followed: a pointed-to
// object is not a component). Bounded in depth and number.
func embeddings(outer, inner types.Type) []string {
	key := types.TypeString(outer, nil) + "\x00" + types.TypeString(inner, nil)
	if v, ok := embedMemo.Load(key); ok {
		return v.([]string)
	}
	var out []string
	var walk func(t types.Type, path string, d int)
	walk = func(t types.Type, path string, d int) {
		if d > 6 || len(out) > 64 {
			return
		}
		if d > 0 && types.Identical(t, inner) {
			out = append(out, path)
			return
		}
		switch u := t.Underlying().(type) {
		case *types.Struct:
			for i := 0; i < u.NumFields(); i++ {
				walk(u.Field(i).Type(), path+"."+u.Field(i).Name(), d+1)
			}
		case *types.Array:
			walk(u.Elem(), path+"[*]", d+1)
		case *types.Slice:
			walk(u.Elem(), path+"[*]", d+1)
		}
	}
	walk(outer, "", 0)
	embedMemo.Store(key, out)
	return out
}

// subObjectOverlap: may memory written at wPath under a root of type wt be memory read at rPath
// under a root of type rt when one root points INTO the other (strict component)?
func subObjectOverlap(wt types.Type, wPath string, rt types.Type, rPath string) bool {
	if wt == nil || rt == nil {
		return false
	}
	wo, ro := derefAll(wt), derefAll(rt)
	if types.Identical(wo, ro) {
		return false
	}
	// only pointer operands designate a single component; slices designate ranges (handled as
	// whole-object aliasing)
	wPath = strings.TrimSuffix(strings.TrimSuffix(wPath, "[…]"), ".$hdr")
	rPath = strings.TrimSuffix(strings.TrimSuffix(rPath, "[…]"), ".$hdr")
	for _, q := range embeddings(wo, ro) {
		if pathsOverlap(wPath, q+rPath) {
			return true
		}
	}
	for _, q := range embeddings(ro, wo) {
		if pathsOverlap(q+wPath, rPath) {
			return true
		}
	}
	return false
}

// HazBetween: hazards where root w is written and root r read afterwards.
func (s *Summary) HazBetween(w, r int) []Hazard {
	var out []Hazard
	for h := range s.Haz {
		if h.W.Root == w && h.R.Root == r {
			out = append(out, h)
		}
	}
	sort.Slice(out, func(i, j int) bool {
		if out[i].W.Path != out[j].W.Path {
			return out[i].W.Path < out[j].W.Path
		}
		return out[i].R.Path < out[j].R.Path
	})
	return out
}

// reachesPointer: starting from a VALUE of type t, does following sub reach (or pass through)
// a pointer-like component? A by-value struct/array copy is not memory shared with anybody; only
// the pointers, slices, maps and interfaces inside it designate shared memory.
func reachesPointer(t types.Type, sub string) bool {
	el := splitPath(sub)
	for {
		switch u := t.Underlying().(type) {
		case *types.Pointer, *types.Slice, *types.Map, *types.Interface, *types.Signature, *types.Chan:
			return true
		case *types.Struct:
			if len(el) == 0 {
				return false
			}
			if el[0][0] != '.' {
				return true // malformed wrt types: be conservative
			}
			name := el[0][1:]
			found := false
			for i := 0; i < u.NumFields(); i++ {
				if u.Field(i).Name() == name {
					t = u.Field(i).Type()
					found = true
					break
				}
			}
			if !found {
				return true
			}
			el = el[1:]
		case *types.Array:
			if len(el) == 0 {
				return false
			}
			t = u.Elem()
			el = el[1:]
		case *types.Tuple:
			return true
		default:
			return false
		}
	}
}

func isPtrLikeType(t types.Type) bool {
	switch t.Underlying().(type) {
	case *types.Pointer, *types.Slice, *types.Map, *types.Interface, *types.Signature, *types.Chan:
		return true
	}
	return false
}

// ---------- type-directed compression of location sets ----------

func rootType(fn *ssa.Function, root int) types.Type {
	if root < 0 {
		return nil
	}
	if root < len(fn.Params) {
		return fn.Params[root].Type()
	}
	if k := root - len(fn.Params); k < len(fn.FreeVars) {
		return fn.FreeVars[k].Type()
	}
	return nil
}

// derefAll strips pointers (implicit dereference in paths).
func derefAll(t types.Type) types.Type {
	for i := 0; i < 4; i++ {
		if p, ok := t.Underlying().(*types.Pointer); ok {
			t = p.Elem()
		} else {
			break
		}
	}
	return t
}

// typeAt follows path elements through t (nil if the path does not fit the type).
func typeAt(t types.Type, el []string) types.Type {
	for _, e := range el {
		if t == nil {
			return nil
		}
		t = derefAll(t)
		switch u := t.Underlying().(type) {
		case *types.Struct:
			if e[0] != '.' {
				return nil
			}
			var nt types.Type
			for i := 0; i < u.NumFields(); i++ {
				if u.Field(i).Name() == e[1:] {
					nt = u.Field(i).Type()
				}
			}
			t = nt
		case *types.Array:
			if e[0] != '[' {
				return nil
			}
			t = u.Elem()
		case *types.Slice:
			if e[0] != '[' {
				return nil
			}
			t = u.Elem()
		case *types.Map:
			if e[0] != '[' {
				return nil
			}
			t = u.Elem()
		default:
			return nil
		}
	}
	return t
}

// childrenOf lists the path elements that together cover a value of type t (nil if t is not a
// struct or array, or is too wide).
func childrenOf(t types.Type) []string {
	if t == nil {
		return nil
	}
	switch u := derefAllNoPtr(t).(type) {
	case *types.Struct:
		var out []string
		for i := 0; i < u.NumFields(); i++ {
			out = append(out, "."+u.Field(i).Name())
		}
		return out
	case *types.Array:
		if u.Len() > 32 {
			return nil
		}
		var out []string
		for i := int64(0); i < u.Len(); i++ {
			out = append(out, fmt.Sprintf("[%d]", i))
		}
		return out
	}
	return nil
}

// derefAllNoPtr: underlying type, but only when t itself is not a pointer (a pointer-typed
// field is a header, its pointee is a different object and is not "covered" by its fields).
func derefAllNoPtr(t types.Type) types.Type { return t.Underlying() }

// compressPaths merges, per root, complete sets of children into their parent and constant
// indices into [*] when [*] is present. Returns the mapping old path -> new path.
func compressPaths(rt types.Type, paths map[string]bool) map[string]string {
	cur := map[string]string{}
	for p := range paths {
		cur[p] = p
	}
	if rt == nil {
		return cur
	}
	live := map[string]bool{}
	for p := range paths {
		live[p] = true
	}
	for changed := true; changed; {
		changed = false
		// group by parent
		byParent := map[string][]string{}
		for p := range live {
			el := splitPath(p)
			if len(el) == 0 {
				continue
			}
			parent := strings.Join(el[:len(el)-1], "")
			byParent[parent] = append(byParent[parent], el[len(el)-1])
		}
		for parent, kids := range byParent {
			if live[parent] {
				// parent already present: children are redundant
				for _, k := range kids {
					delete(live, parent+k)
					changed = true
				}
				continue
			}
			pt := typeAt(rt, splitPath(parent))
			if pt == nil {
				continue
			}
			pt = derefAll(pt)
			hasStar := false
			ks := map[string]bool{}
			for _, k := range kids {
				ks[k] = true
				if k == "[*]" {
					hasStar = true
				}
			}
			need := childrenOf(pt)
			complete := len(need) > 0
			for _, n := range need {
				if !ks[n] {
					complete = false
				}
			}
			if complete {
				for _, k := range kids {
					delete(live, parent+k)
				}
				live[parent] = true
				changed = true
				continue
			}
			if hasStar {
				for _, k := range kids {
					if isConstIdx(k) {
						delete(live, parent+k)
						changed = true
					}
				}
			}
		}
	}
	// map each original path to its surviving ancestor-or-self (or [*] sibling)
	for p := range paths {
		el := splitPath(p)
		found := ""
		for n := len(el); n >= 0 && found == ""; n-- {
			cand := strings.Join(el[:n], "")
			if live[cand] {
				found = cand
				break
			}
			if n > 0 && isConstIdx(el[n-1]) {
				alt := strings.Join(el[:n-1], "") + "[*]" + strings.Join(el[n:], "")
				if live[alt] {
					found = alt
				}
			}
		}
		if found == "" {
			found = p
		}
		cur[p] = found
	}
	return cur
}

// compressSummary applies compressPaths to reads and writes of every root.
func compressSummary(fn *ssa.Function, s *Summary) {
	roots := map[int]bool{}
	for l := range s.Reads {
		roots[l.Root] = true
	}
	for l := range s.Writes {
		roots[l.Root] = true
	}
	for root := range roots {
		if root < 0 {
			continue
		}
		rt := rootType(fn, root)
		rp := map[string]bool{}
		for l := range s.Reads {
			if l.Root == root {
				rp[l.Path] = true
			}
		}
		m := compressPaths(rt, rp)
		for old, nw := range m {
			if old != nw {
				delete(s.Reads, Loc{root, old})
				s.Reads[Loc{root, nw}] = true
			}
		}
		wp := map[string]bool{}
		for l := range s.Writes {
			if l.Root == root {
				wp[l.Path] = true
			}
		}
		m = compressPaths(rt, wp)
		// identity is kept only for paths that did not move
		for old, nw := range m {
			if old != nw {
				delete(s.Writes, Loc{root, old})
				if _, ok := s.Writes[Loc{root, nw}]; !ok {
					s.Writes[Loc{root, nw}] = writeInfo{}
				} else {
					s.Writes[Loc{root, nw}] = writeInfo{}
				}
			}
		}
	}
	// hazards: bound path length
	if len(s.Haz) > 0 {
		nh := map[Hazard]token.Pos{}
		for h, pos := range s.Haz {
			h.W.Path = capPath(h.W.Path, 4)
			h.R.Path = capPath(h.R.Path, 4)
			if _, ok := nh[h]; !ok {
				nh[h] = pos
			}
		}
		s.Haz = nh
	}
	if len(s.Sub) > 0 {
		nh := map[Hazard]token.Pos{}
		for h, pos := range s.Sub {
			h.W.Path = capPath(h.W.Path, 4)
			h.R.Path = capPath(h.R.Path, 4)
			if _, ok := nh[h]; !ok {
				nh[h] = pos
			}
		}
		s.Sub = nh
	}
}

func capPath(p string, n int) string {
	el := splitPath(p)
	if len(el) <= n {
		return p
	}
	return strings.Join(el[:n], "")
}

// typesMayOverlap: can a value of type a and a value of type b occupy overlapping memory
// (without unsafe)? Only if one type occurs inside the other.
func typesMayOverlap(a, b types.Type) bool {
	if a == nil || b == nil {
		return true
	}
	return typeContains(a, b, 0) || typeContains(b, a, 0)
}

func typeContains(outer, inner types.Type, d int) bool {
	if types.Identical(outer, inner) {
		return true
	}
	if d > 8 {
		return true
	}
	switch u := outer.Underlying().(type) {
	case *types.Struct:
		for i := 0; i < u.NumFields(); i++ {
			if typeContains(u.Field(i).Type(), inner, d+1) {
				return true
			}
		}
	case *types.Array:
		return typeContains(u.Elem(), inner, d+1)
	case *types.Interface:
		return true
	}
	return false
}

// lastStoreBefore: the value stored to cell a by the last store preceding load in its block,
// provided no call or closure creation that could write the cell intervenes; nil otherwise.
func lastStoreBefore(a *ssa.Alloc, load *ssa.UnOp) ssa.Value {
	b := load.Block()
	if b == nil {
		return nil
	}
	var last ssa.Value
	for _, in := range b.Instrs {
		if in == ssa.Instruction(load) {
			return last
		}
		switch x := in.(type) {
		case *ssa.Store:
			if x.Addr == ssa.Value(a) {
				last = x.Val
			}
		case ssa.CallInstruction:
			// a call may run a closure that captured the cell
			if last != nil && a.Heap {
				for _, arg := range x.Common().Args {
					if _, ok := arg.(*ssa.MakeClosure); ok {
						last = nil
					}
				}
				if _, ok := x.Common().Value.(*ssa.MakeClosure); ok {
					last = nil
				}
				if x.Common().StaticCallee() == nil && !x.Common().IsInvoke() {
					last = nil
				}
			}
		}
	}
	return nil
}

// bangPath marks the induction indices of the given counters as belonging to an earlier iteration.
func bangPath(path string, names []string) string {
	el := splitPath(path)
	for i, x := range el {
		if strings.HasPrefix(x, "[@") && !strings.HasPrefix(x, "[@!") {
			p := symPhi(x)
			for _, n := range names {
				if n == p {
					el[i] = "[@!" + x[2:]
				}
			}
		}
	}
	return strings.Join(el, "")
}
