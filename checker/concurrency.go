package main

import (
	"fmt"
	"go/token"
	"go/types"
	"strings"
	"sync"

	"golang.org/x/tools/go/ssa"
)

// L8 / L9: goroutine shape rules.

var (
	effMu    sync.Mutex
	effCache = map[*Program]*Effects{}
)

func sharedEffects(p *Program) *Effects {
	effMu.Lock()
	defer effMu.Unlock()
	if e, ok := effCache[p]; ok {
		return e
	}
	e := NewEffects(p)
	effCache[p] = e
	return e
}

// isRangeClosureSig: func(start, end int).
func isRangeClosure(f *ssa.Function) bool {
	sig := f.Signature
	if sig.Params().Len() != 2 || sig.Results().Len() != 0 {
		return false
	}
	for i := 0; i < 2; i++ {
		if b, ok := sig.Params().At(i).Type().Underlying().(*types.Basic); !ok || b.Kind() != types.Int {
			return false
		}
	}
	return true
}

type parClosure struct {
	site ssa.Instruction
	fn   *ssa.Function
}

// parallelClosures: closures of type func(start,end int) handed to a call (parallel.Execute,
// the per-package execute helpers, worker pools) inside fn or its nested closures.
func parallelClosures(fn *ssa.Function) []parClosure {
	var out []parClosure
	var visit func(f *ssa.Function)
	seen := map[*ssa.Function]bool{}
	visit = func(f *ssa.Function) {
		if seen[f] {
			return
		}
		seen[f] = true
		for _, b := range f.Blocks {
			for _, in := range b.Instrs {
				if ci, ok := in.(ssa.CallInstruction); ok {
					for _, a := range ci.Common().Args {
						if mc, ok := a.(*ssa.MakeClosure); ok {
							cf := mc.Fn.(*ssa.Function)
							if isRangeClosure(cf) {
								out = append(out, parClosure{in, cf})
							}
						}
						if af, ok := a.(*ssa.Function); ok && isRangeClosure(af) && af.Parent() != nil {
							out = append(out, parClosure{in, af})
						}
					}
				}
			}
		}
		for _, af := range f.AnonFuncs {
			visit(af)
		}
	}
	visit(fn)
	return out
}

// rangeCounter: v is a loop counter running over [start, end): phi(start + c0?, v + step) with a
// dominating condition v < end (or derived by adding a constant / multiplying by a constant an
// such a counter).
func rangeCounter(v ssa.Value, cf *ssa.Function, depth int) bool {
	return rangeCounterP(v, cf.Params[0], depth)
}

func rangeCounterP(v ssa.Value, startP *ssa.Parameter, depth int) bool {
	if depth > 4 {
		return false
	}
	v = stripConv(v)
	switch x := v.(type) {
	case *ssa.Phi:
		fromStart, step := false, false
		for _, e := range x.Edges {
			e = stripConv(e)
			if derivedFromParamInt(e, startP) || isPhiOfParam(e, startP) {
				fromStart = true
				continue
			}
			if b, ok := e.(*ssa.BinOp); ok && (b.Op == token.ADD) && stripConv(b.X) == ssa.Value(x) {
				if _, ok := constInt(b.Y); ok {
					step = true
				}
			}
		}
		return fromStart && step
	case *ssa.BinOp:
		switch x.Op {
		case token.ADD, token.SUB:
			if _, ok := constInt(x.Y); ok {
				return rangeCounterP(x.X, startP, depth+1)
			}
			// counter + offset that is itself loop invariant (captured / parameter-free)
			if rangeCounterP(x.X, startP, depth+1) && loopInvariant(x.Y) {
				return true
			}
			if rangeCounterP(x.Y, startP, depth+1) && loopInvariant(x.X) && x.Op == token.ADD {
				return true
			}
		case token.MUL, token.SHL:
			if k, ok := constInt(x.Y); ok && k > 0 {
				return rangeCounterP(x.X, startP, depth+1)
			}
			if k, ok := constInt(x.X); ok && k > 0 && x.Op == token.MUL {
				return rangeCounterP(x.Y, startP, depth+1)
			}
			if x.Op == token.MUL && loopInvariant(x.Y) && rangeCounterP(x.X, startP, depth+1) {
				return true // counter * stride
			}
			if x.Op == token.MUL && loopInvariant(x.X) && rangeCounterP(x.Y, startP, depth+1) {
				return true
			}
		case token.SHR:
			// bits.Reverse64(counter) >> k : bit reversal is a bijection of [0, 2^k)
			if c, ok := stripConvAll(x.X).(*ssa.Call); ok && strings.HasPrefix(calleeOf(&c.Call).Name, "Reverse") && calleeOf(&c.Call).Pkg == "math/bits" && len(c.Call.Args) == 1 {
				return rangeCounterP(c.Call.Args[0], startP, depth+1)
			}
		}
	case *ssa.Call:
		// index map applied to the counter (identity / bit-reversal closures named by the code)
		if len(x.Call.Args) == 1 && !x.Call.IsInvoke() && x.Call.StaticCallee() == nil {
			if _, isB := x.Call.Value.(*ssa.Builtin); !isB {
				return rangeCounterP(x.Call.Args[0], startP, depth+1)
			}
		}
	}
	return false
}

// isPhiOfParam: `start` possibly bumped by a constant on one path (if start == 0 { start++ }).
func isPhiOfParam(v ssa.Value, prm *ssa.Parameter) bool {
	ph, ok := stripConv(v).(*ssa.Phi)
	if !ok {
		return false
	}
	some := false
	for _, e := range ph.Edges {
		if derivedFromParamInt(e, prm) {
			some = true
			continue
		}
		if _, ok := constInt(e); ok {
			continue // start clamped to a constant on one path (if start == 0 { start = 1 })
		}
		return false
	}
	return some
}

func derivedFromParamInt(v ssa.Value, prm *ssa.Parameter) bool {
	v = stripConv(v)
	if v == ssa.Value(prm) {
		return true
	}
	if b, ok := v.(*ssa.BinOp); ok {
		if _, isC := constInt(b.Y); isC {
			return derivedFromParamInt(b.X, prm)
		}
	}
	return false
}

func loopInvariant(v ssa.Value) bool { return loopInvariantD(v, 0) }

func loopInvariantD(v ssa.Value, d int) bool {
	if d > 5 {
		return false
	}
	v = stripConvAll(v)
	switch x := v.(type) {
	case *ssa.Const, *ssa.Parameter, *ssa.FreeVar:
		return true
	case *ssa.UnOp:
		if x.Op == token.MUL {
			switch y := x.X.(type) {
			case *ssa.FreeVar:
				return true
			case *ssa.FieldAddr:
				return loopInvariantD(y.X, d+1)
			}
		}
	case *ssa.BinOp:
		return loopInvariantD(x.X, d+1) && loopInvariantD(x.Y, d+1)
	case *ssa.Call:
		if l := lenOf(x); l != nil {
			return true
		}
	case *ssa.FieldAddr:
		return loopInvariantD(x.X, d+1)
	}
	return false
}

// writtenAddrs: addresses written by instruction in: Store address, or pointer arguments that
// the callee writes.
func writtenAddrs(eff *Effects, in ssa.Instruction) []ssa.Value {
	switch x := in.(type) {
	case *ssa.Store:
		return []ssa.Value{x.Addr}
	case *ssa.MapUpdate:
		return []ssa.Value{x.Map}
	case ssa.CallInstruction:
		cc := x.Common()
		cl := calleeOf(cc)
		if cl.Built {
			if cl.Name == "copy" && len(cc.Args) == 2 {
				return []ssa.Value{cc.Args[0]}
			}
			return nil
		}
		if cl.Pkg == "sync/atomic" || cl.Pkg == "sync" {
			return nil
		}
		var callee *ssa.Function
		if f := cc.StaticCallee(); f != nil {
			callee = f
		}
		if callee == nil {
			return nil
		}
		var s *Summary
		if callee.Blocks == nil || !strings.HasPrefix(fnPkgPath(callee), modPath) {
			s = eff.externalSummary(callee, Callee{Pkg: fnPkgPath(callee), Name: callee.Name()})
		} else {
			s = eff.Summary(callee)
		}
		var out []ssa.Value
		for i, a := range cc.Args {
			if !isPtrLikeType(a.Type()) {
				continue
			}
			if len(s.WritesRoot(i)) > 0 {
				out = append(out, a)
			}
		}
		return out
	}
	return nil
}

// hasPartitionIndex: the address chain of addr contains an index that is a [start,end) counter
// of the closure cf; also reports whether the address is rooted in captured / shared memory.
func addrShape(addr ssa.Value, cf *ssa.Function) (shared bool, partitioned bool) {
	return addrShapeP(addr, cf.Params[0])
}

func addrShapeP(addr ssa.Value, startP *ssa.Parameter) (shared bool, partitioned bool) {
	seen := map[ssa.Value]bool{}
	var walk func(v ssa.Value, d int)
	walk = func(v ssa.Value, d int) {
		if v == nil || d > 24 || seen[v] {
			return
		}
		seen[v] = true
		switch x := v.(type) {
		case *ssa.FreeVar:
			shared = true
		case *ssa.Global:
			shared = true
		case *ssa.Parameter:
			if isPtrLikeType(x.Type()) {
				shared = true
			}
		case *ssa.IndexAddr:
			if rangeCounterP(x.Index, startP, 0) {
				partitioned = true
			}
			walk(x.X, d+1)
		case *ssa.FieldAddr:
			walk(x.X, d+1)
		case *ssa.Slice:
			// a[start:end] / a[lo:hi] with partition-derived bounds
			if x.Low != nil && (rangeCounterP(x.Low, startP, 0) || startDerived(x.Low, startP, 0)) {
				partitioned = true
			}
			walk(x.X, d+1)
		case *ssa.UnOp:
			if x.Op == token.MUL {
				walk(x.X, d+1)
			}
		case *ssa.Phi:
			for _, e := range x.Edges {
				walk(e, d+1)
			}
		case *ssa.ChangeType:
			walk(x.X, d+1)
		case *ssa.Convert:
			walk(x.X, d+1)
		case *ssa.Alloc:
			// local cell: follow what was stored in it (captured pointers)
			if !x.Heap || true {
				for _, r := range *x.Referrers() {
					if st, ok := r.(*ssa.Store); ok && st.Addr == ssa.Value(x) && isPtrLikeType(st.Val.Type()) {
						walk(st.Val, d+1)
					}
				}
			}
		case *ssa.Call:
			// fluent API: the result is the receiver
			if f := x.Call.StaticCallee(); f != nil && f.Signature.Recv() != nil && len(x.Call.Args) > 0 && returnsReceiver(f) {
				walk(x.Call.Args[0], d+1)
				return
			}
			// unsafe.Slice / helper returning a view: follow pointer-like arguments
			for _, a := range x.Call.Args {
				if isPtrLikeType(a.Type()) {
					walk(a, d+1)
				}
			}
		}
	}
	walk(addr, 0)
	return
}

// partitionedWrites checks the closures handed to parallel helpers inside fn. It returns the
// number of closures analysed and a description of every shared write that is not indexed by a
// [start,end) counter. A call that forwards the closure's start and end to a callee together
// with the shared slice is checked inside the callee against the corresponding parameters
// (assembly kernels taking (a, ..., start, end, ...) are trusted to respect their range).
func partitionedWrites(p *Program, fn *ssa.Function) (int, []string) {
	eff := sharedEffects(p)
	var bad []string
	cls := parallelClosures(fn)
	var check func(f *ssa.Function, startP, endP *ssa.Parameter, depth int)
	check = func(f *ssa.Function, startP, endP *ssa.Parameter, depth int) {
		for _, b := range f.Blocks {
			for _, in := range b.Instrs {
				// forwarding call?
				if ci, ok := in.(ssa.CallInstruction); ok {
					cc := ci.Common()
					si, ei := -1, -1
					for i, a := range cc.Args {
						if derivedFromParamInt(a, startP) || isPhiOfParam(a, startP) {
							si = i
						} else if stripConv(a) == ssa.Value(endP) {
							ei = i
						}
					}
					if si >= 0 && ei >= 0 {
						if callee := cc.StaticCallee(); callee != nil {
							if callee.Blocks == nil {
								continue // assembly range kernel (trusted)
							}
							if depth < 3 && si < len(callee.Params) && ei < len(callee.Params) {
								check(callee, callee.Params[si], callee.Params[ei], depth+1)
								continue
							}
						}
					}
				}
				for _, addr := range writtenAddrs(eff, in) {
					if isLocalCellAddr(addr) {
						continue // assignment to a local variable of the closure
					}
					shared, part := addrShapeP(addr, startP)
					if !shared || part {
						continue
					}
					if reason := partitionException(f, in); reason != "" {
						continue
					}
					// a write guarded by `start == k` is performed by one partition only
					if guardedByStartEq(b, startP) {
						continue
					}
					if underMutex(f, in) {
						continue
					}
					// a method that takes a lock before its first store serialises its writes itself
					// (firstErr.report(i, err))
					if ci, isCall := in.(ssa.CallInstruction); isCall {
						if callee := ci.Common().StaticCallee(); callee != nil && writesUnderOwnLock(callee) {
							continue
						}
					}
					bad = append(bad, fmt.Sprintf("%s writes %s", p.Pos(instrPos(in)), descValue(addr, 0)))
				}
			}
		}
	}
	for _, pc := range cls {
		check(pc.fn, pc.fn.Params[0], pc.fn.Params[1], 0)
	}
	return len(cls), bad
}

// guardedByStartEq: block b is dominated by the true edge of `start == const`.
func guardedByStartEq(b *ssa.BasicBlock, startP *ssa.Parameter) bool {
	for _, g := range dominatingGuards(b) {
		if g.Op == token.EQL && (stripConv(g.X) == ssa.Value(startP) || isPhiOfParam(g.X, startP)) {
			if _, ok := constInt(g.Y); ok {
				return true
			}
		}
	}
	return false
}

// awaited: every path from the go statement g to a return passes the receive instruction recv.
func awaited(fn *ssa.Function, g ssa.Instruction, recv ssa.Instruction) bool {
	gb, rb := g.Block(), recv.Block()
	if gb == rb {
		gi, ri := -1, -1
		for i, in := range gb.Instrs {
			if in == g {
				gi = i
			}
			if in == recv {
				ri = i
			}
		}
		return gi >= 0 && ri > gi
	}
	// cut the receive block: is a return still reachable from g's block?
	deleted := map[edge]bool{}
	for _, s := range rb.Succs {
		deleted[edge{rb.Index, s.Index}] = true
	}
	seen := reach(fn, gb, deleted)
	for _, b := range fn.Blocks {
		if !seen[b.Index] || b == rb {
			continue
		}
		if _, ok := b.Instrs[len(b.Instrs)-1].(*ssa.Return); ok {
			return false
		}
	}
	return true
}

// startDerived: v is the partition start, possibly bumped on one path and shifted by a
// loop-invariant offset (a[start+m : end+m]).
func startDerived(v ssa.Value, startP *ssa.Parameter, depth int) bool {
	if depth > 4 {
		return false
	}
	v = stripConv(v)
	if v == ssa.Value(startP) || derivedFromParamInt(v, startP) || isPhiOfParam(v, startP) {
		return true
	}
	if b, ok := v.(*ssa.BinOp); ok && (b.Op == token.ADD || b.Op == token.SUB) {
		if startDerived(b.X, startP, depth+1) && loopInvariant(b.Y) {
			return true
		}
		if b.Op == token.ADD && startDerived(b.Y, startP, depth+1) && loopInvariant(b.X) {
			return true
		}
	}
	return false
}

// underMutex: the instruction is dominated by a (*sync.Mutex).Lock call of its function (and
// an Unlock follows): the shared write is serialised.
func underMutex(f *ssa.Function, at ssa.Instruction) bool {
	for _, b := range f.Blocks {
		for _, in := range b.Instrs {
			if call, ok := in.(*ssa.Call); ok {
				cl := calleeOf(&call.Call)
				if cl.Pkg == "sync" && cl.Name == "Lock" && instrDominates(in, at) {
					return true
				}
			}
		}
	}
	return false
}

// isLocalCellAddr: the address designates (part of) a local variable: an Alloc reached through
// field / array-element selection only (no load in between).
func isLocalCellAddr(addr ssa.Value) bool {
	for i := 0; i < 12; i++ {
		switch x := addr.(type) {
		case *ssa.Alloc:
			return true
		case *ssa.FieldAddr:
			addr = x.X
		case *ssa.IndexAddr:
			if _, ok := x.X.Type().Underlying().(*types.Pointer); !ok {
				return false
			}
			addr = x.X
		default:
			return false
		}
	}
	return false
}

// partitionExceptions: shared writes whose disjointness rests on an arithmetic argument the
// rule cannot make; each entry names the enclosing top-level function and gives the reason.
var partitionExceptions = map[string]string{
	"partitionScalars": "digits[chunk*len(scalars)+i]: i is the partition counter and i < len(scalars), so rows of different chunks and columns of different partitions never coincide",
	"transversalHash":  "res[(col+j)*sisKeySize : ...]: partitions are multiples of the 16-column block (col steps by the block size, j < block size)",
}

func partitionException(f *ssa.Function, in ssa.Instruction) string {
	root := f
	for root.Parent() != nil {
		root = root.Parent()
	}
	return partitionExceptions[root.Name()]
}

// writesUnderOwnLock: every store of the function to memory that is not a local variable is
// dominated by a (*sync.Mutex).Lock / (*sync.RWMutex).Lock call of the same function.
func writesUnderOwnLock(f *ssa.Function) bool {
	if len(f.Blocks) == 0 {
		return false
	}
	n := 0
	for _, b := range f.Blocks {
		for _, in := range b.Instrs {
			// e.once.Do(func() { e.err = err }): the stores of the function literal run once
			if call, ok := in.(*ssa.Call); ok {
				if cl := calleeOf(&call.Call); cl.Pkg == "sync" && cl.Recv == "Once" && cl.Name == "Do" {
					n++
					continue
				}
			}
			st, ok := in.(*ssa.Store)
			if !ok || isLocalCellAddr(st.Addr) {
				continue
			}
			n++
			if !underMutex(f, in) {
				return false
			}
		}
	}
	return n > 0
}
