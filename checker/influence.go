package main

import (
	"strings"

	"golang.org/x/tools/go/ssa"
)

// influenceSet computes the parameter-rooted locations (canonical descriptions such as "p0",
// "p1.H", "p3.Lines") that reach the given sink values through data flow inside fn. The slice is
// flow-insensitive on local memory (any store into a local may reach any load of it) and treats
// a call as depending on all its operands and as possibly writing every local address handed to
// it: dependence is over-approximated, so a location that is NOT in the set certainly does not
// influence the sinks.
func influenceSet(fn *ssa.Function, sinks []ssa.Value) map[string]bool {
	out := map[string]bool{}
	seen := map[ssa.Value]bool{}
	var work []ssa.Value
	push := func(v ssa.Value) {
		if v != nil && !seen[v] {
			seen[v] = true
			work = append(work, v)
		}
	}
	record := func(addrOrVal ssa.Value) {
		d := descValue(addrOrVal, 0)
		if !strings.HasPrefix(d, "p") || len(d) < 2 || !(d[1] == 'r' || (d[1] >= '0' && d[1] <= '9')) {
			return
		}
		// record all prefixes at field / index boundaries
		for i := 2; i <= len(d); i++ {
			if i == len(d) || d[i] == '.' || d[i] == '[' {
				out[d[:i]] = true
			}
		}
	}
	// localRoot: the Alloc an address is derived from (through FieldAddr/IndexAddr/Slice), or nil
	var localRoot func(v ssa.Value, d int) *ssa.Alloc
	localRoot = func(v ssa.Value, d int) *ssa.Alloc {
		if d > 12 {
			return nil
		}
		switch x := v.(type) {
		case *ssa.Alloc:
			return x
		case *ssa.FieldAddr:
			return localRoot(x.X, d+1)
		case *ssa.IndexAddr:
			return localRoot(x.X, d+1)
		case *ssa.Slice:
			return localRoot(x.X, d+1)
		case *ssa.ChangeType:
			return localRoot(x.X, d+1)
		}
		return nil
	}
	// derived addresses of an alloc
	var derived func(v ssa.Value, acc *[]ssa.Value, d int)
	derived = func(v ssa.Value, acc *[]ssa.Value, d int) {
		if d > 12 || v.Referrers() == nil {
			return
		}
		*acc = append(*acc, v)
		for _, r := range *v.Referrers() {
			switch x := r.(type) {
			case *ssa.FieldAddr:
				derived(x, acc, d+1)
			case *ssa.IndexAddr:
				derived(x, acc, d+1)
			case *ssa.Slice:
				derived(x, acc, d+1)
			case *ssa.ChangeType:
				derived(x, acc, d+1)
			}
		}
	}
	allocDone := map[*ssa.Alloc]bool{}
	processAlloc := func(a *ssa.Alloc) {
		if allocDone[a] {
			return
		}
		allocDone[a] = true
		var addrs []ssa.Value
		derived(a, &addrs, 0)
		for _, ad := range addrs {
			if ad.Referrers() == nil {
				continue
			}
			for _, r := range *ad.Referrers() {
				switch x := r.(type) {
				case *ssa.Store:
					if x.Addr == ad {
						push(x.Val)
					}
				case ssa.CallInstruction:
					// the call may write the local from its other operands
					for _, op := range x.Common().Args {
						push(op)
					}
					if x.Common().IsInvoke() {
						push(x.Common().Value)
					}
				}
			}
		}
	}
	for _, s := range sinks {
		push(s)
	}
	for len(work) > 0 {
		v := work[len(work)-1]
		work = work[:len(work)-1]
		record(v)
		if a := localRoot(v, 0); a != nil {
			processAlloc(a)
		}
		switch x := v.(type) {
		case *ssa.UnOp:
			push(x.X)
		case *ssa.Call:
			for _, a := range x.Call.Args {
				push(a)
			}
			push(x.Call.Value)
		case *ssa.Parameter, *ssa.Const, *ssa.Global, *ssa.FreeVar, *ssa.Builtin, *ssa.Function:
		default:
			if in, ok := v.(ssa.Instruction); ok {
				for _, op := range in.Operands(nil) {
					if op != nil && *op != nil {
						push(*op)
					}
				}
			}
		}
	}
	return out
}
