package main

import (
	"strconv"
	"strings"

	"golang.org/x/tools/go/ssa"
)

// influenceSet computes the parameter-rooted locations (canonical descriptions such as "p0",
// "p1.H", "p3.Lines") that reach the given sink values through data flow inside fn. The slice is
// flow-insensitive on local memory (any store into a local may reach any load of it) and treats
// a call as depending on all its operands and as possibly writing every local address handed to
// it: dependence is over-approximated, so a location that is NOT in the set certainly does not
// influence the sinks.
func influenceSet(fn *ssa.Function, sinks []ssa.Value) map[string]bool {
	return influenceSetOpt(fn, sinks, false)
}

// influenceSetOpt: with lenSeparately, len(x) records "len(<x>)" and does not count as a use of
// the contents of x.
func influenceSetOpt(fn *ssa.Function, sinks []ssa.Value, lenSeparately bool) map[string]bool {
	out := map[string]bool{}
	seen := map[ssa.Value]bool{}
	var work []ssa.Value
	push := func(v ssa.Value) {
		if v != nil && !seen[v] {
			seen[v] = true
			work = append(work, v)
		}
	}
	record := func(addrOrVal ssa.Value) {
		d := descValue(addrOrVal, 0)
		if !strings.HasPrefix(d, "p") || len(d) < 2 || !(d[1] == 'r' || (d[1] >= '0' && d[1] <= '9')) {
			return
		}
		// record all prefixes at field / index boundaries
		for i := 2; i <= len(d); i++ {
			if i == len(d) || d[i] == '.' || d[i] == '[' {
				out[d[:i]] = true
			}
		}
	}
	// localRoot: the Alloc an address is derived from (through FieldAddr/IndexAddr/Slice), or nil
	var localRoot func(v ssa.Value, d int) ssa.Value
	localRoot = func(v ssa.Value, d int) ssa.Value {
		if d > 12 {
			return nil
		}
		switch x := v.(type) {
		case *ssa.Alloc:
			return x
		case *ssa.MakeSlice:
			// a buffer made here: filled by copy / append / element stores
			return x
		case *ssa.FieldAddr:
			return localRoot(x.X, d+1)
		case *ssa.IndexAddr:
			return localRoot(x.X, d+1)
		case *ssa.Slice:
			return localRoot(x.X, d+1)
		case *ssa.ChangeType:
			return localRoot(x.X, d+1)
		}
		return nil
	}
	// derived addresses of an alloc
	var derived func(v ssa.Value, acc *[]ssa.Value, d int)
	derived = func(v ssa.Value, acc *[]ssa.Value, d int) {
		if d > 12 || v.Referrers() == nil {
			return
		}
		*acc = append(*acc, v)
		for _, r := range *v.Referrers() {
			switch x := r.(type) {
			case *ssa.FieldAddr:
				derived(x, acc, d+1)
			case *ssa.IndexAddr:
				derived(x, acc, d+1)
			case *ssa.Slice:
				derived(x, acc, d+1)
			case *ssa.ChangeType:
				derived(x, acc, d+1)
			}
		}
	}
	allocDone := map[ssa.Value]bool{}
	processAlloc := func(a ssa.Value) {
		if allocDone[a] {
			return
		}
		allocDone[a] = true
		var addrs []ssa.Value
		derived(a, &addrs, 0)
		for _, ad := range addrs {
			if ad.Referrers() == nil {
				continue
			}
			for _, r := range *ad.Referrers() {
				switch x := r.(type) {
				case *ssa.Store:
					if x.Addr == ad {
						push(x.Val)
					}
				case ssa.CallInstruction:
					// the call may write the local from its other operands
					for _, op := range x.Common().Args {
						push(op)
					}
					if x.Common().IsInvoke() {
						push(x.Common().Value)
					}
				}
			}
		}
	}
	for _, s := range sinks {
		push(s)
	}
	for len(work) > 0 {
		v := work[len(work)-1]
		work = work[:len(work)-1]
		record(v)
		if a := localRoot(v, 0); a != nil {
			processAlloc(a)
		}
		switch x := v.(type) {
		case *ssa.UnOp:
			push(x.X)
		case *ssa.Call:
			if l := lenOf(x); l != nil && lenSeparately {
				if d := descValue(l, 0); strings.HasPrefix(d, "p") {
					out["len("+d+")"] = true
				} else {
					push(l) // length of a local: depends on whatever sized it
				}
				continue
			}
			for _, a := range x.Call.Args {
				push(a)
			}
			push(x.Call.Value)
		case *ssa.Parameter, *ssa.Const, *ssa.Global, *ssa.FreeVar, *ssa.Builtin, *ssa.Function:
		default:
			if in, ok := v.(ssa.Instruction); ok {
				for _, op := range in.Operands(nil) {
					if op != nil && *op != nil {
						push(*op)
					}
				}
			}
		}
	}
	return out
}

// ivInfluence: influenceSet on the inlined view. Sinks are values of arbitrary frames; what
// reaches a parameter of an inner frame continues from the argument of its call site.
func ivInfluence(v *IView, sinks []ivValue, lenSeparately bool) map[string]bool {
	out := map[string]bool{}
	byFrame := map[*ivFrame][]ssa.Value{}
	var order []*ivFrame
	add := func(fr *ivFrame, val ssa.Value) {
		if _, ok := byFrame[fr]; !ok {
			order = append(order, fr)
		}
		byFrame[fr] = append(byFrame[fr], val)
	}
	for _, s := range sinks {
		add(s.fr, s.val)
	}
	done := map[*ivFrame]int{}
	for changed := true; changed; {
		changed = false
		for i := 0; i < len(order); i++ {
			fr := order[i]
			if done[fr] == len(byFrame[fr]) {
				continue
			}
			done[fr] = len(byFrame[fr])
			changed = true
			set := influenceSetOpt(fr.fn, byFrame[fr], lenSeparately)
			if fr.parent == nil {
				for k := range set {
					out[k] = true
				}
				continue
			}
			args := fr.site.Common().Args
			isMethod := fr.fn.Signature.Recv() != nil
			for k := range set {
				isLen := strings.HasPrefix(k, "len(")
				tok := strings.TrimSuffix(strings.TrimPrefix(k, "len("), ")")
				// parameter token at the head of the description
				j := 1
				for j < len(tok) && (tok[j] == 'r' || (tok[j] >= '0' && tok[j] <= '9')) {
					j++
				}
				head := tok[:j]
				idx := -1
				if head == "pr" && isMethod {
					idx = 0
				} else if n, err := strconv.Atoi(head[1:]); err == nil {
					idx = n
					if isMethod {
						idx++
					}
				}
				if idx < 0 || idx >= len(args) {
					continue
				}
				if isLen && lenSeparately {
					// the length of what the caller passed: when the caller hands on its own parameter,
					// it is the length of that parameter (followed further up); a slice built by the
					// caller has a length of its own: keep following the value (its construction decides)
					if pa, isParam := stripConv(args[idx]).(*ssa.Parameter); isParam {
						up := fr.parent
						key := "len(p" + paramIndex(pa) + ")"
						for up != nil {
							if up.parent == nil {
								out[key] = true
								break
							}
							// the parent is itself inlined: translate once more
							pargs := up.site.Common().Args
							pi := -1
							for q, fp := range up.fn.Params {
								if fp == pa {
									pi = q
								}
							}
							if pi < 0 || pi >= len(pargs) {
								add(up.parent, pargs[0])
								break
							}
							next, ok := stripConv(pargs[pi]).(*ssa.Parameter)
							if !ok {
								add(up.parent, pargs[pi])
								break
							}
							pa = next
							key = "len(p" + paramIndex(pa) + ")"
							up = up.parent
						}
						continue
					}
					add(fr.parent, args[idx])
					continue
				}
				add(fr.parent, args[idx])
			}
		}
	}
	return out
}

type ivValue struct {
	fr  *ivFrame
	val ssa.Value
}
