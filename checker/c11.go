package main

import (
	"fmt"
	"strings"

	"golang.org/x/tools/go/ssa"
)

func init() { register("C11", checkC11) }

func checkC11(c *Ctx) {
	p := mustLoad(c, K1)
	eff := sharedEffects(p)
	pkgs := p.FamilyPkgs("ecc/*/kzg")
	indexLints(c, p, "ecc/*/kzg")
	c.Rule("C11.guard", "GUARD (table from the scheme): Commit/Open/BatchOpenSinglePoint refuse empty or oversized polynomials and mismatched digest counts; Verify returns nil only on the success edge of PairingCheckFixedQ applied to [f(a)-f(alpha)+a*H, H-proof] and the key's lines, with no error; BatchVerifySinglePoint = FoldProof then Verify; FoldProof requires LenEq(digests, claimed values) and a successfully derived gamma; BatchVerifyMultiPoints requires both LenEq, a non-empty batch, and either the single Verify or the pairing check on the folded digests", 7*7)
	c.Rule("C11.bind", "BINDING (L16): the Fiat-Shamir challenge gamma binds the point, every digest, every claimed value and every extra transcript datum (each Bind error tested) before it is computed; FoldProof/BatchOpenSinglePoint pass exactly their point, digests, claimed values, hash and extra data to it", 7*3)
	c.Rule("C11.mod", "EFFECTS: the verification and opening entry points write none of their slice/pointer arguments (keys, digests, proofs, points, polynomials): a verifying key and the argument slices can be reused for any number of calls", 7*8)
	c.Rule("C11.setup", "CEREMONY: MpcSetup.Verify accepts a contribution only after its size matches, [tau]G2 is in the subgroup, every G1 power is in the subgroup (parallel check reported through the channel), the update proof verifies against the previous [tau]G2, and the same-ratio check is applied to the powers of the contribution being verified", 7)

	for _, pk := range pkgs {
		get := func(name string) *ssa.Function {
			fn := p.Func(pk, "", name)
			if fn == nil {
				c.Undecided("anchor %s.%s not found", pk, name)
			}
			return fn
		}
		if fn := get("Commit"); fn != nil {
			RequireFacts(c, p, "C11.guard", fn, AcceptNilErr, nil, []Req{
				{"NonEmpty(p)", `^0 != len\(p0\)$`},
				{"Fits(p,SRS)", `^len\(p0\) <= len\(p1\.G1\)$`},
				{"msm-ok", `^noerr G1Affine\.MultiExp\(.*p1\.G1\[:len\(p0\)\],p0,`},
			})
		}
		if fn := get("Open"); fn != nil {
			RequireFacts(c, p, "C11.guard", fn, AcceptNilErr, nil, []Req{
				{"NonEmpty(p)", `^0 != len\(p0\)$`},
				{"Fits(p,SRS)", `^len\(p0\) <= len\(p2\.G1\)$`},
				{"quotient-committed-or-zero", `^noerr Commit\(dividePolyByXminusA\(|^0 == len\(dividePolyByXminusA\(|^1 == len\(p0\)$|^len\(p0\) == 1$|^len\(p0\) <= 1$|^len\(p0\) < 2$`}, // a constant polynomial has the zero quotient
			})
		}
		if fn := get("Verify"); fn != nil {
			RequireFacts(c, p, "C11.guard", fn, AcceptNilErr, nil, []Req{
				{"pairing-check-true", `^ok PairingCheckFixedQ\(\[local:G1Affine,p1\.H\],p3\.Lines\)#0$`},
				{"pairing-check-noerr", `^noerr PairingCheckFixedQ\(\[local:G1Affine,p1\.H\],p3\.Lines\)$`},
			})
			checkInfluence(c, p, "C11.guard", fn, "PairingCheckFixedQ", []string{"p0", "p1.H", "p1.ClaimedValue", "p2", "p3.G1", "p3.Lines"})
		}
		if fn := get("BatchOpenSinglePoint"); fn != nil {
			RequireFacts(c, p, "C11.guard", fn, AcceptNilErr, nil, []Req{
				{"LenEq(polys,digests)", `^len\(p0\) == len\(p1\)$`},
				{"NonEmpty(each p)", `^0 != len\(p0\[\*\]\)$`},
				{"Fits(each p,SRS)", `^len\(p0\[\*\]\) <= len\(p4\.G1\)$`},
			})
			RequireFacts(c, p, "C11.bind", fn, AcceptNilErr, nil, []Req{
				{"gamma(point,digests,values,hash,data)", `^noerr deriveGamma\(p2,p1,local:BatchOpeningProof\.ClaimedValues,p3,p5\)$`},
			})
		}
		if fn := get("FoldProof"); fn != nil {
			RequireFacts(c, p, "C11.guard", fn, AcceptNilErr, nil, []Req{
				{"LenEq(digests,claims)", `^len\(p0\) == len\(p1\.ClaimedValues\)$`},
				{"fold-ok", `^noerr fold\((.*,)?p0,(.*,)?p1\.ClaimedValues[,)]|^noerr fold\((.*,)?p1\.ClaimedValues,(.*,)?p0[,)]`},
			})
			RequireFacts(c, p, "C11.bind", fn, AcceptNilErr, nil, []Req{
				{"gamma(point,digests,values,hash,data)", `^noerr deriveGamma\(p2,p0,p1\.ClaimedValues,p3,p4\)$`},
			})
		}
		if fn := get("BatchVerifySinglePoint"); fn != nil {
			RequireFacts(c, p, "C11.guard", fn, AcceptNilErr, nil, []Req{
				{"folded", `^noerr FoldProof\(p0,p1,p2,p3,p5\)$`},
				{"verified", `^noerr Verify\(local:Digest,local:OpeningProof,p2,p4\)$`},
			})
		}
		if fn := get("BatchVerifyMultiPoints"); fn != nil {
			RequireFacts(c, p, "C11.guard", fn, AcceptNilErr, nil, []Req{
				{"LenEq(digests,proofs)", `^len\(p0\) == len\(p1\)$`},
				{"LenEq(digests,points)", `^len\(p0\) == len\(p2\)$`},
				{"NonEmpty", `^0 != len\(p0\)$`},
				{"verified", `^noerr Verify\(p0\[0\],p1\[0\],p2\[0\],p3\)$|^ok PairingCheckFixedQ\(\[fold\((.*,)?p0[,)].*#0,local:G1Affine\],p3\.Lines\)#0$`},
			})
		}
		if fn := get("deriveGamma"); fn != nil {
			RequireFacts(c, p, "C11.bind", fn, AcceptNilErr, nil, []Req{
				{"binds(point)", `^noerr Transcript\.Bind\(.*,Element\.Marshal\(p0\)\)$`},
				{"binds(digests)", `^noerr Transcript\.Bind\(.*,G1Affine\.Marshal\(p1\[\*\]\)\)$`},
				{"binds(claimedValues)", `^noerr Transcript\.Bind\(.*,Element\.Marshal\(p2\[\*\]\)\)$`},
				{"binds(dataTranscript)", `^noerr Transcript\.Bind\(.*,p4\[\*\]\)$`},
				{"challenge-computed", `^noerr Transcript\.ComputeChallenge\(NewTranscript\(p3,`},
			})
		}
		// effects: arguments untouched
		for _, name := range []string{"Commit", "Open", "Verify", "BatchOpenSinglePoint", "FoldProof", "BatchVerifySinglePoint", "BatchVerifyMultiPoints", "deriveGamma"} {
			fn := p.Func(pk, "", name)
			if fn == nil {
				continue
			}
			c.Instance("C11.mod", 1)
			s := eff.Summary(fn)
			ok := true
			msg := ""
			for i := range fn.Params {
				if !reachesPointerAny(fn.Params[i].Type()) {
					continue
				}
				if w := s.WritesRoot(i); len(w) > 0 {
					ok = false
					msg = funcKey(fn) + ": argument " + fn.Params[i].Name() + " is written at " + joinStr(w)
				}
			}
			c.Ob("C11.mod", pk, funcKey(fn), "arguments-unmodified", p.Pos(fn.Pos()), ok, msg)
		}
		// ceremony
		if fn := p.Func(pk, "MpcSetup", "Verify"); fn != nil {
			RequireFacts(c, p, "C11.setup", fn, AcceptNilErr, nil, []Req{
				{"LenEq(sizes)", `^len\(p0\.srs\.Pk\.G1\) == len\(pr\.srs\.Pk\.G1\)$`},
				{"InSubgroup([tau]G2)", `^ok G2Affine\.IsInSubGroup\(p0\.srs\.Vk\.G2\[1\]\)$`},
				{"update-proof-verified", `^noerr UpdateProof\.Verify\(p0\.proof,append\("KZG Setup",MpcSetup\.hash\(pr\)\),0,\[local:ValueUpdate\]\)$`},
				{"same-ratio-on-next", `^noerr SameRatioMany\(\[p0\.srs\.Pk\.G1,p0\.srs\.Vk\.G2\]\)$`},
			})
		} else {
			c.Undecided("anchor %s.MpcSetup.Verify not found", pk)
		}
	}
	for t := range eff.Trusted {
		c.Trust(t)
	}
	c.Assume("completeness and soundness of the pairing equation as algebra are value-level: not decided; PairingCheckFixedQ is the C05 pairing")
}

// checkInfluence: every listed input (described by provenance) of fn reaches, through data flow,
// an argument of the deciding call: a verifier that does not look at one of its inputs accepts
// false statements that differ only there.
func checkInfluence(c *Ctx, p *Program, rule string, fn *ssa.Function, deciding string, inputs []string) {
	c.Instance(rule, 1)
	// collect the backward slice of the deciding call's arguments
	var sinks []ssa.Value
	for _, b := range fn.Blocks {
		for _, in := range b.Instrs {
			if call, ok := in.(*ssa.Call); ok && calleeOf(&call.Call).Name == deciding {
				sinks = append(sinks, call.Call.Args...)
			}
		}
	}
	// the deciding call made by a helper of the package (checkPairing(a, b, vk)): the arguments of
	// the helper that reach the deciding call there are the sinks here
	viaHelper := map[string]bool{}
	if len(sinks) == 0 {
		for _, b := range fn.Blocks {
			for _, in := range b.Instrs {
				call, ok := in.(*ssa.Call)
				if !ok {
					continue
				}
				h := call.Call.StaticCallee()
				if h == nil || h.Blocks == nil || h.Pkg != fn.Pkg {
					continue
				}
				var hs []ssa.Value
				for _, hb := range h.Blocks {
					for _, hin := range hb.Instrs {
						if hc, ok := hin.(*ssa.Call); ok && calleeOf(&hc.Call).Name == deciding {
							hs = append(hs, hc.Call.Args...)
						}
					}
				}
				if len(hs) == 0 {
					continue
				}
				hr := influenceSet(h, hs)
				for i := range h.Params {
					if i >= len(call.Call.Args) {
						break
					}
					tok := fmt.Sprintf("p%d", i)
					if h.Signature.Recv() != nil {
						if i == 0 {
							tok = "pr"
						} else {
							tok = fmt.Sprintf("p%d", i-1)
						}
					}
					var ri map[string]bool
					for k, v := range hr {
						if v && (k == tok || strings.HasPrefix(k, tok+".") || strings.HasPrefix(k, tok+"[")) {
							// what reaches this argument here reaches, with the path the helper follows
							// from its parameter (vk → vk.Lines), the deciding call
							if ri == nil {
								ri = influenceSet(fn, []ssa.Value{call.Call.Args[i]})
							}
							for r, ok := range ri {
								if ok {
									viaHelper[r+k[len(tok):]] = true
								}
							}
						}
					}
				}
			}
		}
	}
	reached := influenceSet(fn, sinks)
	for k := range viaHelper {
		reached[k] = true
	}
	for _, want := range inputs {
		c.Ob(rule, relPkg(fnPkgPath(fn)), funcKey(fn), "input-influences-decision("+want+")", p.Pos(fn.Pos()), reached[want],
			funcKey(fn)+": input "+want+" does not flow into the arguments of "+deciding+": the verdict does not depend on it")
	}
}
