package main

import (
	"fmt"
	"go/token"
	"go/types"

	"golang.org/x/tools/go/ssa"
)

// L12: guarded indexing / slicing of caller-supplied slices. For every slice expression,
// index expression or slice-to-array conversion applied to a slice that comes from a parameter,
// the bound must be implied by comparisons with len(s) that dominate the access. Recognised
// proofs:
//   - constant bound k and a dominating guard giving len(s) >= k' with k' >= k;
//   - bound v (SSA value) and a dominating edge establishing v <= len(s) / v < len(s);
//   - bound lo+c where lo is a loop counter (0, +c) whose loop condition is lo < len(s), together
//     with a dominating guard len(s) % c == 0;
//   - bound lo+c with a dominating edge establishing lo+c <= len(s);
//   - bound len(s) itself.
// Anything else is reported (the access may panic or read spare capacity).

type boundGuard struct {
	blk  *ssa.BasicBlock // block entered when the guard holds (single predecessor)
	atom Atom            // normalised so that it holds on entry of blk
}

// dominatingGuards returns the comparison atoms known to hold at block b.
func dominatingGuards(b *ssa.BasicBlock) []Atom {
	var out []Atom
	for d := b; d != nil; d = d.Idom() {
		id := d.Idom()
		if id == nil {
			break
		}
		iff, ok := id.Instrs[len(id.Instrs)-1].(*ssa.If)
		if !ok || len(d.Preds) != 1 {
			continue
		}
		a := atomOf(iff.Cond)
		if a.Kind != "cmp" {
			continue
		}
		for si, s := range id.Succs {
			if s != d {
				continue
			}
			if si == 1 {
				a.Op = negOp(a.Op)
			}
			out = append(out, a)
		}
	}
	return out
}

// conditionalGuards: facts "C => G" established by the shape
//
//	if C { if !G { return/panic } }   ...   if C' { access }      with C' structurally equal to C
//
// returned as the guards G that hold at block b because b is dominated by the true edge of an
// If whose condition equals C and that If is dominated by the first one.
func conditionalGuards(fn *ssa.Function, b *ssa.BasicBlock) []Atom {
	var out []Atom
	// conditions known true at b: (cond value, If block)
	type known struct {
		a   Atom
		blk *ssa.BasicBlock
	}
	var conds []known
	for d := b; d != nil; d = d.Idom() {
		id := d.Idom()
		if id == nil {
			break
		}
		iff, ok := id.Instrs[len(id.Instrs)-1].(*ssa.If)
		if !ok || len(d.Preds) != 1 {
			continue
		}
		a := atomOf(iff.Cond)
		if a.Kind != "cmp" {
			continue
		}
		for si, s := range id.Succs {
			if s == d {
				if si == 1 {
					a.Op = negOp(a.Op)
				}
				conds = append(conds, known{a, id})
			}
		}
	}
	if len(conds) == 0 {
		return nil
	}
	for _, region := range fn.Blocks {
		if len(region.Preds) == 0 {
			continue
		}
		// every predecessor enters the region on an If edge; predecessors form a
		// short-circuit chain (C1 || C2 || ...): pred i+1 is reached only from pred i
		var cas []Atom
		chain := true
		var first *ssa.BasicBlock
		for pi, pb := range region.Preds {
			iff, ok := pb.Instrs[len(pb.Instrs)-1].(*ssa.If)
			if !ok {
				chain = false
				break
			}
			ca := atomOf(iff.Cond)
			if ca.Kind != "cmp" {
				chain = false
				break
			}
			if pb.Succs[0] == region && pb.Succs[1] == region {
				chain = false
				break
			}
			if pb.Succs[1] == region {
				ca.Op = negOp(ca.Op)
			}
			if pi == 0 {
				first = pb
			} else if len(pb.Preds) != 1 || pb.Preds[0] != region.Preds[pi-1] {
				chain = false
				break
			}
			cas = append(cas, ca)
		}
		if !chain || first == nil {
			continue
		}
		match := false
		for _, ca := range cas {
			for _, k := range conds {
				if k.a.Op == ca.Op && sameValue(k.a.X, ca.X, 0) && sameValue(k.a.Y, ca.Y, 0) && first != k.blk && first.Dominates(k.blk) {
					match = true
				}
			}
		}
		if !match {
			continue
		}
		// the region starts with a guard whose failing edge leaves the function
		giff, ok := region.Instrs[len(region.Instrs)-1].(*ssa.If)
		if !ok {
			continue
		}
		g := atomOf(giff.Cond)
		if g.Kind != "cmp" {
			continue
		}
		for gi := range region.Succs {
			other := region.Succs[1-gi]
			if !exitsFunction(other) {
				continue
			}
			ga := g
			if gi == 1 {
				ga.Op = negOp(ga.Op)
			}
			out = append(out, ga)
		}
	}
	return out
}

// exitsFunction: the block ends in a return or panic without branching.
func exitsFunction(b *ssa.BasicBlock) bool {
	switch b.Instrs[len(b.Instrs)-1].(type) {
	case *ssa.Return, *ssa.Panic:
		return true
	}
	return false
}

// sameValue: structural equality of small integer expressions.
func sameValue(a, b ssa.Value, depth int) bool {
	a, b = stripConv(a), stripConv(b)
	if a == b {
		return true
	}
	if depth > 3 {
		return false
	}
	if sameLoad(a, b) {
		return true
	}
	if ka, ok := constInt(a); ok {
		if kb, ok := constInt(b); ok {
			return ka == kb
		}
		return false
	}
	if la, lb := lenOf(a), lenOf(b); la != nil && lb != nil {
		return sameValue(la, lb, depth+1) || sameLoad(la, lb)
	}
	ba, ok1 := a.(*ssa.BinOp)
	bb, ok2 := b.(*ssa.BinOp)
	if ok1 && ok2 && ba.Op == bb.Op {
		return sameValue(ba.X, bb.X, depth+1) && sameValue(ba.Y, bb.Y, depth+1)
	}
	return false
}

// lenLowerBound: the largest constant L with len(s) >= L implied by the guards.
func lenLowerBound(guards []Atom, s ssa.Value) int64 {
	var L int64
	isLen := func(v ssa.Value) bool {
		if ms, ok := s.(*ssa.MakeSlice); ok && sameValue(v, ms.Len, 0) {
			return true
		}
		l := lenOf(v)
		return l != nil && (l == s || sameValue(l, s, 0) || sameLoad(l, s))
	}
	for _, g := range guards {
		x, y, op := g.X, g.Y, g.Op
		if isLen(y) {
			x, y, op = y, x, swapOp(op)
		}
		if !isLen(x) {
			continue
		}
		k, ok := constInt(y)
		if !ok {
			continue
		}
		switch op {
		case token.GEQ, token.EQL:
			if k > L {
				L = k
			}
		case token.GTR:
			if k+1 > L {
				L = k + 1
			}
		case token.NEQ:
			// a length is never negative: len(s) != 0 is len(s) >= 1
			if k == 0 && L < 1 {
				L = 1
			}
		}
	}
	return L
}

// provesLE: guards imply e <= len(s) (strict: e < len(s)).
type phiBoundKey struct {
	ph     *ssa.Phi
	strict bool
}

// provesLEBusy: bounds being established by induction (a strict bound in progress also covers the
// non-strict question, never the other way round)
var provesLEBusy = map[phiBoundKey]bool{}

func provesLE(fn *ssa.Function, at *ssa.BasicBlock, guards []Atom, e ssa.Value, s ssa.Value, strict bool) bool {
	e = stripConv(e)
	// e + 1 <= len(s)  <=>  e < len(s)
	if b, ok := e.(*ssa.BinOp); ok && b.Op == token.ADD && !strict {
		x, k := b.X, b.Y
		if c, ok := constInt(k); !ok || c != 1 {
			x, k = b.Y, b.X
		}
		if c, ok := constInt(k); ok && c == 1 {
			if provesLE(fn, at, guards, x, s, true) {
				return true
			}
		}
	}
	// a variable that takes several values (a counter advanced on some paths): the bound holds if it
	// holds for every value that flows in, judged with what is known on the edge it flows in by; the
	// variable itself, met again around a loop, is assumed to satisfy it (induction)
	if ph, ok := e.(*ssa.Phi); ok && !provesLEBusy[phiBoundKey{ph, strict}] && !(!strict && provesLEBusy[phiBoundKey{ph, true}]) && len(ph.Edges) <= 6 {
		provesLEBusy[phiBoundKey{ph, strict}] = true
		all := true
		for i, v := range ph.Edges {
			if stripConv(v) == ssa.Value(ph) {
				continue
			}
			pred := ph.Block().Preds[i]
			gs := append([]Atom{}, dominatingGuards(pred)...)
			if iff, isIf := pred.Instrs[len(pred.Instrs)-1].(*ssa.If); isIf && len(pred.Succs) == 2 && pred.Succs[0] != pred.Succs[1] {
				if a := atomOf(iff.Cond); a.Kind == "cmp" {
					if pred.Succs[1] == ph.Block() {
						a.Op = negOp(a.Op)
					}
					gs = append(gs, a)
				}
			}
			if !provesLE(fn, pred, gs, v, s, strict) {
				all = false
				break
			}
		}
		delete(provesLEBusy, phiBoundKey{ph, strict})
		if all {
			return true
		}
	} else if ok && (provesLEBusy[phiBoundKey{ph, strict}] || (!strict && provesLEBusy[phiBoundKey{ph, true}])) {
		return true
	}
	isLen := func(v ssa.Value) bool {
		if ms, ok := s.(*ssa.MakeSlice); ok && sameValue(v, ms.Len, 0) {
			return true
		}
		l := lenOf(v)
		return l != nil && (l == s || sameValue(l, s, 0) || sameLoad(l, s))
	}
	if k, ok := evalConstInt(e, 0); ok {
		L := lenLowerBound(guards, s)
		if strict {
			return k < L
		}
		return k <= L
	}
	if isLen(e) && !strict {
		return true
	}
	// min(len(s), x)
	if c, ok := e.(*ssa.Call); ok {
		isMin := false
		if b, ok := c.Call.Value.(*ssa.Builtin); ok && b.Name() == "min" {
			isMin = true
		} else if f := c.Call.StaticCallee(); f != nil && isMinFunc(f) {
			isMin = true
		}
		if isMin {
			for _, a := range c.Call.Args {
				if isLen(a) && !strict {
					return true
				}
			}
		}
	}
	for _, g := range guards {
		x, y, op := g.X, g.Y, g.Op
		// e op len(s)
		if isLen(x) && sameValue(y, e, 0) {
			x, y, op = y, x, swapOp(op)
		}
		if sameValue(x, e, 0) && isLen(y) {
			switch op {
			case token.LSS:
				return true
			case token.LEQ:
				if !strict {
					return true
				}
			}
		}
	}
	// e < c (constant, from a dominating comparison such as a loop condition) and c <= len(s)
	{
		L := lenLowerBound(guards, s)
		for _, g := range guards {
			x, y, op := g.X, g.Y, g.Op
			if sameValue(y, e, 0) {
				x, y, op = y, x, swapOp(op)
			}
			if !sameValue(x, e, 0) {
				continue
			}
			k, ok := constInt(y)
			if !ok {
				continue
			}
			switch op {
			case token.LSS: // e < k
				if k <= L || (!strict && k <= L+1) {
					return true
				}
			case token.LEQ: // e <= k
				if k < L || (!strict && k <= L) {
					return true
				}
			}
		}
	}
	// floor-division lemma: e = (i+c)*B, c in {0,1}, under a dominating i < N with N = len(s)/B (or
	// the length of a slice made with that many elements): (i+1)*B <= N*B <= len(s)
	if x, B, ok := mulConst(e); ok && !strict {
		i := stripConv(x)
		if ad, isAdd := i.(*ssa.BinOp); isAdd && ad.Op == token.ADD {
			if k, ok := constInt(ad.Y); ok && k == 1 {
				i = stripConv(ad.X)
			} else if k, ok := constInt(ad.X); ok && k == 1 {
				i = stripConv(ad.Y)
			}
		}
		isQuot := func(v ssa.Value) bool {
			v = stripConv(v)
			// len(m) for a slice m made with len(s)/B elements
			if l := lenOf(v); l != nil {
				if ms, ok := stripConv(l).(*ssa.MakeSlice); ok {
					v = stripConv(ms.Len)
				}
			}
			q, ok := v.(*ssa.BinOp)
			if !ok || q.Op != token.QUO {
				return false
			}
			k, ok := constInt(q.Y)
			return ok && k == B && isLen(stripConv(q.X))
		}
		for _, g := range guards {
			gx, gy, op := stripConv(g.X), stripConv(g.Y), g.Op
			if sameValue(gy, i, 0) {
				gx, gy, op = gy, gx, swapOp(op)
			}
			if sameValue(gx, i, 0) && op == token.LSS && isQuot(gy) {
				return true
			}
			// product lemma: i < N and len(s) == N*B (or >=): (i+1)*B <= N*B <= len(s)
			if sameValue(gx, i, 0) && op == token.LSS {
				N := gy
				for _, g2 := range guards {
					lx, ly, op2 := g2.X, g2.Y, g2.Op
					if isLen(stripConv(ly)) {
						lx, ly, op2 = ly, lx, swapOp(op2)
					}
					if !isLen(stripConv(lx)) || (op2 != token.EQL && op2 != token.GEQ) {
						continue
					}
					if n2, b2, ok := mulConst(ly); ok && b2 == B && sameValue(n2, N, 0) {
						return true
					}
				}
			}
		}
	}
	// ceiling-division lemma: e = B*(i-k), k >= 1, under a dominating i <= E with
	// E = (L + B - 1) / B and len(s) = L: (E-1)*B <= L-1, hence e < L whenever the access is reached
	if m, ok := e.(*ssa.BinOp); ok && m.Op == token.MUL {
		for _, pr := range [][2]ssa.Value{{m.X, m.Y}, {m.Y, m.X}} {
			B := stripConv(pr[0])
			sub, ok := stripConv(pr[1]).(*ssa.BinOp)
			if !ok || sub.Op != token.SUB {
				continue
			}
			if k, ok := constInt(sub.Y); !ok || k < 1 {
				continue
			}
			i := stripConv(sub.X)
			for _, g := range guards {
				x, y, op := stripConv(g.X), stripConv(g.Y), g.Op
				if sameValue(y, i, 0) {
					x, y, op = y, x, swapOp(op)
				}
				if !sameValue(x, i, 0) || (op != token.LEQ && op != token.LSS) {
					continue
				}
				q, ok := y.(*ssa.BinOp)
				if !ok || q.Op != token.QUO || !sameValue(stripConv(q.Y), B, 0) {
					continue
				}
				// numerator (L + B) - 1 or L + (B - 1)
				num, ok := stripConv(q.X).(*ssa.BinOp)
				if !ok {
					continue
				}
				var L ssa.Value
				if num.Op == token.SUB {
					if k, ok := constInt(num.Y); ok && k == 1 {
						if ad, ok := stripConv(num.X).(*ssa.BinOp); ok && ad.Op == token.ADD {
							switch {
							case sameValue(stripConv(ad.Y), B, 0):
								L = ad.X
							case sameValue(stripConv(ad.X), B, 0):
								L = ad.Y
							}
						}
					}
				}
				if L != nil && isLen(stripConv(L)) {
					return true
				}
			}
		}
	}
	// e = lo + c with the modular idiom
	if b, ok := e.(*ssa.BinOp); ok && b.Op == token.ADD {
		lo, cst := b.X, b.Y
		c, ok := constInt(cst)
		if !ok {
			lo, cst = b.Y, b.X
			c, ok = constInt(cst)
		}
		if ok && c > 0 && !strict {
			if ph, isPhi := stripConv(lo).(*ssa.Phi); isPhi {
				// counter from 0 stepping by c
				init, step := false, false
				for _, ed := range ph.Edges {
					ed = stripConv(ed)
					if k, ok := constInt(ed); ok && k == 0 {
						init = true
					} else if bb, ok := ed.(*ssa.BinOp); ok && bb.Op == token.ADD && stripConv(bb.X) == ssa.Value(ph) {
						if k, ok := constInt(bb.Y); ok && k == c {
							step = true
						}
					}
				}
				// loop condition lo < len(s) dominates
				cond := false
				for _, g := range guards {
					if stripConv(g.X) == ssa.Value(ph) && isLen(g.Y) && g.Op == token.LSS {
						cond = true
					}
					if isLen(g.X) && stripConv(g.Y) == ssa.Value(ph) && g.Op == token.GTR {
						cond = true
					}
				}
				// len(s) % c == 0
				mod := false
				for _, g := range guards {
					x, y := g.X, g.Y
					if k, ok := constInt(x); ok && k == 0 {
						x, y = y, x
					}
					if k, ok := constInt(y); !ok || k != 0 || g.Op != token.EQL {
						continue
					}
					if r, ok := stripConv(x).(*ssa.BinOp); ok && r.Op == token.REM && isLen(r.X) {
						if k, ok := constInt(r.Y); ok && k == c {
							mod = true
						}
					}
				}
				if init && step && cond && mod {
					return true
				}
			}
		}
	}
	return false
}

// fromParamSlice: the slice value s is (possibly through phis) a parameter of fn.
func fromParamSlice(s ssa.Value, depth int) bool {
	if depth > 4 {
		return false
	}
	switch x := s.(type) {
	case *ssa.MakeSlice:
		// a buffer whose length is an input-dependent value behaves like a caller-sized slice
		if _, ok := constInt(x.Len); !ok {
			for _, r := range rootsOf(x.Len) {
				if r.Kind == "param" {
					// sizes read from the receiver's configuration are not caller-chosen lengths
					fn := r.Param.Parent()
					if fn.Signature.Recv() != nil && len(fn.Params) > 0 && fn.Params[0] == r.Param {
						continue
					}
					return true
				}
			}
		}
		return false
	case *ssa.Parameter:
		return isSliceType(x.Type())
	case *ssa.Phi:
		for _, e := range x.Edges {
			if fromParamSlice(e, depth+1) {
				return true
			}
		}
	case *ssa.Slice:
		return fromParamSlice(x.X, depth+1)
	case *ssa.UnOp:
		// spilled parameter
		if x.Op == token.MUL {
			if a, ok := x.X.(*ssa.Alloc); ok {
				for _, r := range *a.Referrers() {
					if st, ok := r.(*ssa.Store); ok && st.Addr == ssa.Value(a) && fromParamSlice(st.Val, depth+1) {
						return true
					}
				}
			}
		}
	}
	return false
}

// unguardedAccesses lists the accesses on parameter slices whose bound is not proven.
func unguardedAccesses(p *Program, fn *ssa.Function) (sites int, hits []Finding) {
	for _, b := range fn.Blocks {
		var guards []Atom
		gdone := false
		get := func() []Atom {
			if !gdone {
				guards = append(dominatingGuards(b), conditionalGuards(fn, b)...)
				// guards established by the terminator of dominators only; plus loop header conds
				gdone = true
			}
			return guards
		}
		for _, in := range b.Instrs {
			switch x := in.(type) {
			case *ssa.Slice:
				if !isSliceType(x.X.Type()) || !fromParamSlice(x.X, 0) {
					continue
				}
				sites++
				var bound ssa.Value
				what := ""
				if x.High != nil {
					bound, what = x.High, "high bound"
				} else if x.Low != nil {
					bound, what = x.Low, "low bound"
				} else {
					continue
				}
				// s[a:][:n] is s[a:a+n]: the bound to justify is a+n against len(s)
				if inner, ok := x.X.(*ssa.Slice); ok && x.Low == nil && x.High != nil && inner.Low != nil && inner.High == nil && inner.Max == nil && isSliceType(inner.X.Type()) {
					if provesSumLE(fn, b, get(), inner.Low, x.High, inner.X) {
						continue
					}
				}
				if !provesLE(fn, b, get(), bound, x.X, false) {
					hits = append(hits, Finding{fn, instrPos(in), "slice(" + descValue(x.X, 0) + "," + descValue(bound, 0) + ")",
						fmt.Sprintf("%s slices %s with %s %s that no dominating comparison with len(%s) justifies: the expression panics or reads beyond the given slice (spare capacity) for some input length", funcKey(fn), descValue(x.X, 0), what, descValue(bound, 0), descValue(x.X, 0))})
				}
			case *ssa.IndexAddr:
				if !isSliceType(x.X.Type()) || !fromParamSlice(x.X, 0) {
					continue
				}
				sites++
				if provesLE(fn, b, get(), x.Index, x.X, true) {
					continue
				}
				// range loops over the same slice are bounded by construction
				if ascendingFullRange(x) {
					continue
				}
				hits = append(hits, Finding{fn, instrPos(in), "index(" + descValue(x.X, 0) + "," + descValue(x.Index, 0) + ")",
					fmt.Sprintf("%s indexes %s with %s without a dominating comparison with its length: the access panics for some input", funcKey(fn), descValue(x.X, 0), descValue(x.Index, 0))})
			case *ssa.SliceToArrayPointer:
				if !fromParamSlice(x.X, 0) {
					continue
				}
				sites++
				n := x.Type().(*types.Pointer).Elem().Underlying().(*types.Array).Len()
				// the operand is usually a fresh sub-slice s[lo:lo+n]: its own bound was checked above
				if sl, ok := x.X.(*ssa.Slice); ok && sl.High != nil && sl.Low != nil {
					if hb, ok := stripConv(sl.High).(*ssa.BinOp); ok && hb.Op == token.ADD && sameValue(hb.X, sl.Low, 0) {
						if k, ok := constInt(hb.Y); ok && k >= n {
							continue
						}
					}
					lo, ok1 := evalConstInt(sl.Low, 0)
					hi, ok2 := evalConstInt(sl.High, 0)
					if ok1 && ok2 && hi-lo >= n {
						continue
					}
					// s[i*B : (i+1)*B]: exactly B elements
					if x1, b1, okh := mulConst(sl.High); okh {
						if x0, b0, okl := mulConst(sl.Low); okl && b0 == b1 && b0 >= n {
							if ad, ok := stripConv(x1).(*ssa.BinOp); ok && ad.Op == token.ADD {
								if k, ok := constInt(ad.Y); ok && k == 1 && sameValue(ad.X, x0, 0) {
									continue
								}
								if k, ok := constInt(ad.X); ok && k == 1 && sameValue(ad.Y, x0, 0) {
									continue
								}
							}
						}
					}
				}
				if lenLowerBound(get(), x.X) >= n {
					continue
				}
				// s[a:][:k] with k >= n: exactly k elements (its own bound was checked above)
				if sl, ok := x.X.(*ssa.Slice); ok && sl.Low == nil && sl.High != nil {
					if k, ok := constInt(sl.High); ok && k >= n {
						continue
					}
				}
				hits = append(hits, Finding{fn, instrPos(in), "array-conversion(" + descValue(x.X, 0) + ")",
					fmt.Sprintf("%s converts %s to *[%d]T without a dominating guard len >= %d: the conversion panics for shorter inputs", funcKey(fn), descValue(x.X, 0), n, n)})
			}
		}
	}
	return
}

// isMinFunc: a two-argument integer function whose body is `if a < b { return a }; return b`
// (or the symmetric forms): every return value is one of the parameters and the parameter
// returned on each edge is the smaller one.
func isMinFunc(f *ssa.Function) bool {
	if len(f.Params) != 2 || f.Blocks == nil || len(f.Blocks) != 3 {
		return false
	}
	iff, ok := f.Blocks[0].Instrs[len(f.Blocks[0].Instrs)-1].(*ssa.If)
	if !ok {
		return false
	}
	a := atomOf(iff.Cond)
	if a.Kind != "cmp" {
		return false
	}
	retOf := func(b *ssa.BasicBlock) ssa.Value {
		if r, ok := b.Instrs[len(b.Instrs)-1].(*ssa.Return); ok && len(r.Results) == 1 {
			return r.Results[0]
		}
		return nil
	}
	t, e := retOf(f.Blocks[0].Succs[0]), retOf(f.Blocks[0].Succs[1])
	if t == nil || e == nil {
		return false
	}
	x, y := a.X, a.Y
	switch a.Op {
	case token.LSS, token.LEQ:
		return t == x && e == y
	case token.GTR, token.GEQ:
		return t == y && e == x
	}
	return false
}

// mulConst: v = x * B or B * x with a constant B > 0.
func mulConst(v ssa.Value) (ssa.Value, int64, bool) {
	m, ok := stripConv(v).(*ssa.BinOp)
	if !ok || m.Op != token.MUL {
		return nil, 0, false
	}
	if k, ok := constInt(m.Y); ok && k > 0 {
		return m.X, k, true
	}
	if k, ok := constInt(m.X); ok && k > 0 {
		return m.Y, k, true
	}
	return nil, 0, false
}

// provesSumLE: a + n <= len(s), decided by the prover on the synthetic sum (the prover looks at the
// structure of the bound only).
func provesSumLE(fn *ssa.Function, at *ssa.BasicBlock, guards []Atom, a, n ssa.Value, s ssa.Value) (ok bool) {
	defer func() {
		if recover() != nil {
			ok = false
		}
	}()
	sum := &ssa.BinOp{Op: token.ADD, X: a, Y: n}
	return provesLE(fn, at, guards, sum, s, false)
}
