package main

import (
	"go/constant"
	"go/token"
	"go/types"
	"strings"

	"golang.org/x/tools/go/ssa"
)

func init() { register("C10", checkC10) }

func fftPkgs(p *Program) []string {
	return p.FamilyPkgs("ecc/*/fr/fft", "field/koalabear/fft", "field/babybear/fft", "field/goldilocks/fft")
}

func checkC10(c *Ctx) {
	p := mustLoad(c, K1)
	indexLints(c, p, "ecc/*/fr/fft", "field/koalabear/fft", "field/babybear/fft", "field/goldilocks/fft")
	eff := sharedEffects(p)
	pkgs := fftPkgs(p)
	c.Rule("C10.codec", "CODEC: Domain.ReadFrom returns a nil error only after every binary.Read / io.ReadFull succeeded, every element passed the canonical ByteOrder.Element and the cardinality is a non-zero power of two within the 2-adicity of the field; it never uses a raw Reader.Read (any reader chunking); the tables of the receiver are rebuilt from the decoded parameters when the decoded precompute flag is set and dropped otherwise; WriteTo tests every write", 10*2)
	c.Rule("C10.readonly", "EFFECTS: FFT, FFTInverse and the recursive kernels never write the Domain (tables, generators, flags): a domain shared by concurrent transforms is read-only; they write only the vector a", 10*2)
	c.Rule("C10.partition", "PARTITION (L8): every closure handed to parallel.Execute in the fft package writes shared slices only at indices derived from its own [start,end) range — the structural condition for the result not to depend on the task count", 10)
	c.Rule("C10.join", "JOIN (L8): a recursive half spawned with `go` is awaited (receive on its done channel) on every path before the function returns, and the callee closes that channel on every exit (deferred close)", 10*2)
	c.Rule("C10.switch", "EXHAUSTIVE (L15): the switch over the decimation in FFT and FFTInverse handles DIF and DIT and panics otherwise", 10*2)

	for _, pk := range pkgs {
		pkg := p.ByPath[modPath+"/"+pk]
		if rf := p.Func(pk, "Domain", "ReadFrom"); rf != nil {
			RequireFacts(c, p, "C10.codec", rf, AcceptNilErr, nil, []Req{
				{"header-read", `^noerr encoding/binary\.Read\(p0,.*pr\.Cardinality\)$|^noerr io\.ReadFull\(p0,local:\[8\]byte`},
				{"elements-read-fully", `^noerr io\.ReadFull\(p0,`},
				{"elements-canonical", `^noerr (bigEndian|littleEndian)\.Element\(`},
				{"flag-read", `^noerr encoding/binary\.Read\(p0,.*pr\.withPrecompute\)$|^noerr io\.ReadFull\(p0,local:\[1\]byte`},
				{"cardinality-non-zero", `^0 != pr\.Cardinality$|^pr\.Cardinality != 0$|^0 < pr\.Cardinality$|^1 == math/bits\.OnesCount64\(pr\.Cardinality\)$`},
				{"cardinality-power-of-two", `pr\.Cardinality-1\)&pr\.Cardinality\) == 0|pr\.Cardinality&\(pr\.Cardinality-1\)\) == 0|^1 == math/bits\.OnesCount64\(pr\.Cardinality\)$`},
				{"cardinality-within-2-adicity", `^noerr Generator\(pr\.Cardinality\)$`},
			})
			// MUST-PASS: a decoded domain with the precompute flag set has its tables rebuilt from
			// the decoded parameters on every accepting path (they depend on the decoded shift, not
			// on what the receiver held before)
			c.Instance("C10.codec", 1)
			{
				deleted := map[edge]bool{}
				calls := 0
				for _, b := range rf.Blocks {
					for _, in := range b.Instrs {
						if call, ok := in.(*ssa.Call); ok && calleeOf(&call.Call).Name == "preComputeTwiddles" {
							calls++
							for _, sc := range b.Succs {
								deleted[edge{b.Index, sc.Index}] = true
							}
						}
					}
					if iff, ok := b.Instrs[len(b.Instrs)-1].(*ssa.If); ok {
						// the edge on which the decoded flag is false, whichever way the test is written
						if at := atomOf(iff.Cond); at.Kind == "val" {
							if ld, ok := at.X.(*ssa.UnOp); ok && ld.Op == token.MUL && descValue(ld.X, 0) == "pr.withPrecompute" {
								falseEdge := 1
								if at.Neg {
									falseEdge = 0
								}
								deleted[edge{b.Index, b.Succs[falseEdge].Index}] = true
							}
						}
					}
				}
				ok := calls > 0
				where := ""
				if ok {
					r := reach(rf, rf.Blocks[0], deleted)
					acc, _ := acceptReturns(rf, AcceptNilErr)
					for _, a := range acc {
						if !r[a.ret.Block().Index] {
							continue
						}
						// the rebuild and the return in one block: the call precedes the return
						inBlock := false
						for _, in := range a.ret.Block().Instrs {
							if call, isCall := in.(*ssa.Call); isCall && calleeOf(&call.Call).Name == "preComputeTwiddles" {
								inBlock = true
							}
						}
						if inBlock {
							continue
						}
						ok = false
						where = p.Pos(instrPos(a.ret))
					}
				}
				// and when the flag is not set the receiver's previous tables are dropped: some store to
				// the table fields exists on the flag-false branch
				cleared := false
				for _, b := range rf.Blocks {
					for _, in := range b.Instrs {
						if st, isSt := in.(*ssa.Store); isSt {
							// a coset table of the receiver (a field, or an entry of an array of tables) is
							// set to its zero value
							addr := st.Addr
							if ia, isIA := addr.(*ssa.IndexAddr); isIA {
								addr = ia.X
							}
							if fa, isFA := addr.(*ssa.FieldAddr); isFA && strings.HasPrefix(strings.ToLower(fieldName(fa.X.Type(), fa.Field)), "coset") && isTableField(derefType(fa.Type())) {
								if k, isC := st.Val.(*ssa.Const); isC && k.Value == nil {
									cleared = true
								}
							}
						}
					}
				}
				c.Ob("C10.codec", pk, funcKey(rf), "tables-dropped-when-flag-clear", p.Pos(rf.Pos()), cleared, funcKey(rf)+": a domain decoded without the precompute flag keeps the tables its receiver held before (Twiddles()/CosetTable() then return the tables of another domain)")
				c.Ob("C10.codec", pk, funcKey(rf), "tables-rebuilt-when-flag-set", p.Pos(rf.Pos()), ok, funcKey(rf)+": the accepting return at "+where+" is reachable with the decoded precompute flag set but without rebuilding the twiddle/coset tables from the decoded parameters: a receiver that already held tables keeps them (wrong coset)")
			}
			// ... and the rebuild itself is unconditional: every return of preComputeTwiddles has
			// defined the four tables (the routine runs after the parameters changed; nothing the
			// receiver held before is a function of the new shift)
			if pt := p.Func(pk, "Domain", "preComputeTwiddles"); pt != nil {
				ms := sharedEffects(p).Must(pt)
				var missing []string
				// the tables: the unexported fields of the domain that hold vectors of elements (by type,
				// not by name: two tables merged into an array of tables are still tables)
				var tables []string
				if st, isSt := derefType(pt.Params[0].Type()).Underlying().(*types.Struct); isSt {
					for i := 0; i < st.NumFields(); i++ {
						if f := st.Field(i); !f.Exported() && isTableField(f.Type()) {
							tables = append(tables, f.Name())
						}
					}
				}
				if len(tables) < 2 {
					missing = append(missing, "(fewer than two table fields found in Domain)")
				}
				for _, f := range tables {
					if !covered(pt, ms.MustAll, Loc{0, "." + f}, 0) {
						missing = append(missing, f)
					}
				}
				c.Ob("C10.codec", pk, funcKey(pt), "tables-defined-on-every-return", p.Pos(pt.Pos()), len(missing) == 0, funcKey(pt)+": some return leaves "+strings.Join(missing, ", ")+" as the receiver held them before: a domain decoded into a used receiver keeps tables computed for another shift / generator")
			}
			sites, hits := rawReads([]*ssa.Function{rf})
			_ = sites
			reportFindings(c, p, "C10.codec", []*ssa.Function{rf}, hits, "no-raw-read")
		} else {
			c.Undecided("anchor %s.Domain.ReadFrom not found", pk)
		}
		if wf := p.Func(pk, "Domain", "WriteTo"); wf != nil {
			c.Instance("C10.codec", 1)
			_, hits := droppedErrors(p, []*ssa.Function{wf})
			reportFindings(c, p, "C10.codec", []*ssa.Function{wf}, hits, "errors-inspected")
		}
		for _, name := range []string{"FFT", "FFTInverse"} {
			fn := p.Func(pk, "Domain", name)
			if fn == nil {
				c.Undecided("anchor %s.Domain.%s not found", pk, name)
				continue
			}
			c.Instance("C10.readonly", 1)
			s := eff.Summary(fn)
			w := s.WritesRoot(0)
			c.Ob("C10.readonly", pk, funcKey(fn), "domain-not-written", p.Pos(fn.Pos()), len(w) == 0, funcKey(fn)+": writes the domain at "+joinStr(w)+": concurrent transforms on a shared domain race and a later transform sees modified tables")
			// decimation switch
			c.Instance("C10.switch", 1)
			ok := false
			_ = pkg
			// the parameter of the named enumeration type and the values of its constants
			var dec *ssa.Parameter
			for _, prm := range fn.Params[1:] {
				if n, isNamed := prm.Type().(*types.Named); isNamed && isInteger(n) && n.Obj().Pkg() != nil && n.Obj().Pkg().Path() == fnPkgPath(fn) {
					dec = prm
				}
			}
			if dec != nil {
				var want []int64
				sc := dec.Type().(*types.Named).Obj().Pkg().Scope()
				for _, nm := range sc.Names() {
					if k, isConst := sc.Lookup(nm).(*types.Const); isConst && types.Identical(k.Type(), dec.Type()) {
						if v, exact := constant.Int64Val(k.Val()); exact {
							want = append(want, v)
						}
					}
				}
				ok = len(want) >= 2 && exhaustiveDispatch(NewIView(fn), dec, want)
			}
			c.Ob("C10.switch", pk, funcKey(fn), "decimation-exhaustive", p.Pos(fn.Pos()), ok, funcKey(fn)+": the decimation switch does not handle both DIF and DIT with a panicking default")
		}
		// partition + join over all functions of the package
		nClosures := 0
		var bad []string
		for _, fn := range libFuncs(p, pk) {
			if fn.Parent() != nil {
				continue
			}
			n, b := partitionedWrites(p, fn)
			nClosures += n
			bad = append(bad, b...)
			hasGo := false
			for _, blk := range fn.Blocks {
				for _, in := range blk.Instrs {
					if _, isGo := in.(*ssa.Go); isGo {
						hasGo = true
					}
				}
			}
			if hasGo && (strings.HasSuffix(fn.Name(), "FFT") || strings.Contains(fn.Name(), "fft")) {
				checkSplitJoin10(c, p, fn)
			}
		}
		c.Instance("C10.partition", 1)
		c.Ob("C10.partition", pk, pk, "closures-partitioned", "-", nClosures > 0 && len(bad) == 0, pk+": "+joinStr(bad))
	}
	for t := range eff.Trusted {
		c.Trust(t)
	}
	c.Assume("the linear map computed (DFT), twiddle values and the unrolled kernels are value-level: not decided")
}

// checkSplitJoin10: spawned halves are awaited; callee closes its done channel by defer.
func checkSplitJoin10(c *Ctx, p *Program, fn *ssa.Function) {
	pkg, fk := relPkg(fnPkgPath(fn)), funcKey(fn)
	c.Instance("C10.join", 1)
	ok := true
	for _, b := range fn.Blocks {
		for _, in := range b.Instrs {
			g, isGo := in.(*ssa.Go)
			if !isGo {
				continue
			}
			// find the channel argument handed to the goroutine
			var ch ssa.Value
			for _, a := range g.Call.Args {
				if _, isCh := a.Type().Underlying().(interface{ Dir() int }); isCh {
					ch = a
				}
				if strings.HasPrefix(a.Type().String(), "chan ") {
					ch = a
				}
			}
			joined := false
			for _, b2 := range fn.Blocks {
				for _, in2 := range b2.Instrs {
					u, isU := in2.(*ssa.UnOp)
					if !isU || u.Op.String() != "<-" {
						continue
					}
					if ch != nil && u.X != ch {
						continue
					}
					if awaited(fn, g, in2) {
						joined = true
					}
				}
			}
			if !joined {
				ok = false
			}
		}
	}
	c.Ob("C10.join", pkg, fk, "spawned-half-awaited", p.Pos(fn.Pos()), ok, fk+": a recursive half is spawned but not awaited on every path to the return: the caller may read the vector while it is still being transformed")
	// deferred close of the done channel parameter
	var chParam *ssa.Parameter
	for _, prm := range fn.Params {
		if strings.HasPrefix(prm.Type().String(), "chan ") {
			chParam = prm
		}
	}
	if chParam != nil {
		deferred := false
		for _, b := range fn.Blocks {
			for _, in := range b.Instrs {
				if d, isD := in.(*ssa.Defer); isD {
					if bi, isB := d.Call.Value.(*ssa.Builtin); isB && bi.Name() == "close" && len(d.Call.Args) == 1 && d.Call.Args[0] == ssa.Value(chParam) {
						deferred = true
					}
				}
			}
		}
		c.Ob("C10.join", pkg, fk, "done-channel-closed-on-every-exit", p.Pos(fn.Pos()), deferred, fk+": the done channel is not closed by a deferred close: an early return leaves the parent waiting forever")
	}
}

// isTableField: a slice, a slice of slices, or a small array of those, of field elements.
func isTableField(t types.Type) bool {
	for d := 0; d < 4; d++ {
		switch u := t.Underlying().(type) {
		case *types.Slice:
			if n, ok := u.Elem().(*types.Named); ok && n.Obj().Name() == "Element" {
				return true
			}
			t = u.Elem()
		case *types.Array:
			if d > 0 {
				return false
			}
			t = u.Elem()
		default:
			return false
		}
	}
	return false
}
