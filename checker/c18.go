package main

import (
	"regexp"
	"go/ast"
	"fmt"
	"go/types"
	"sort"
	"strings"

	"golang.org/x/tools/go/ssa"
)

func init() { register("C18", checkC18) }

func libPkg(pk string) bool {
	if strings.HasPrefix(pk, "internal/generator") || strings.HasPrefix(pk, "field/generator") || strings.HasPrefix(pk, "field/goff") ||
		strings.Contains(pk, "testutils") || strings.Contains(pk, "test_vector_utils") || strings.HasPrefix(pk, "internal/gkr") ||
		strings.HasSuffix(pk, "/generate") || strings.Contains(pk, "/internal/generator") || strings.HasPrefix(pk, "field/internal") || strings.Contains(pk, "/gkr/") || strings.HasPrefix(pk, "internal/field") {
		return false
	}
	return true
}

// exportedAPI: exported package-level functions and exported methods of exported types.
func exportedAPI(p *Program) []*ssa.Function {
	var out []*ssa.Function
	for _, fn := range p.RepoFuncs() {
		if fn.Parent() != nil || fn.Object() == nil || !fn.Object().Exported() {
			continue
		}
		if fn.Origin() != nil && fn.Origin() != fn {
			continue
		}
		pk := relPkg(fnPkgPath(fn))
		if !libPkg(pk) {
			continue
		}
		if recv := fn.Signature.Recv(); recv != nil {
			n := namedName(recv.Type())
			if n == "" || !types.NewVar(0, nil, n, nil).Exported() {
				continue
			}
		}
		out = append(out, fn)
	}
	return out
}

// modKey is the table key for a documented destination: family|func|param-index
func modKey(fn *ssa.Function, i int) string {
	return normFamily(relPkg(fnPkgPath(fn))) + "|" + strings.TrimPrefix(funcKey(fn), relPkg(fnPkgPath(fn))+".") + "|" + fmt.Sprint(i)
}

// normFamily maps a package path to its family pattern (curve / small-field names replaced).
func normFamily(pk string) string {
	seg := strings.Split(pk, "/")
	for i, s := range seg {
		switch s {
		case "bls12-377", "bls12-381", "bls24-315", "bls24-317", "bn254", "bw6-633", "bw6-761", "grumpkin", "secp256k1", "stark-curve":
			seg[i] = "*"
		case "koalabear", "babybear", "goldilocks":
			if i == 1 && seg[0] == "field" {
				seg[i] = "*"
			}
		case "bandersnatch":
			seg[i] = "twistededwards"
		}
	}
	return strings.Join(seg, "/")
}

func checkC18(c *Ctx) {
	p := mustLoad(c, K1)
	eff := NewEffects(p)
	c.Rule("C18.mod", "EFFECTS: an exported function or method does not write, directly or through callees, memory reachable from a pointer/slice/map parameter other than its receiver, unless (family|func|param) is a documented destination listed with a reason in the checker's table, or the function's own doc comment names the parameter as what it sets / writes into / overwrites (verb next to the parameter's name)", 2500)
	dest := documentedDestinations()
	used := map[string]bool{}
	var undocumented []string
	for _, fn := range exportedAPI(p) {
		s := eff.Summary(fn)
		c.Instance("C18.mod", 1)
		start := 0
		if fn.Signature.Recv() != nil {
			start = 1
		}
		for i := start; i < len(fn.Params); i++ {
			t := fn.Params[i].Type()
			if !reachesPointerAny(t) {
				continue
			}
			w := s.WritesRoot(i)
			// writes of the parameter variable itself (path "") for by-value non-pointer types are local
			key := modKey(fn, i-start)
			if _, ok := dest[key]; ok {
				used[key] = true
				continue
			}
			ok := len(w) == 0
			msg := ""
			if !ok && fieldsAreDestinations(w) {
				// a configuration struct whose Dst / Res / Out / Buf / Scratch field is the only thing written
				c.Ob("C18.mod", relPkg(fnPkgPath(fn)), funcKey(fn), fmt.Sprintf("param#%d-documented-destination", i-start), p.Pos(fn.Pos()), true, "")
				continue
			}
			if !ok && docNamesDestination(funcDoc(p, fn), fn.Params[i].Name()) {
				// a destination documented by the function's own comment (new API need not be in the table)
				c.Ob("C18.mod", relPkg(fnPkgPath(fn)), funcKey(fn), fmt.Sprintf("param#%d-documented-destination", i-start), p.Pos(fn.Pos()), true, "")
				continue
			}
			if !ok {
				if len(w) > 5 {
					w = append(w[:5], "…")
				}
				msg = fmt.Sprintf("%s: parameter #%d (%s %s) is written (paths %v) although it is not a documented destination — a caller re-using the argument gets a different result", funcKey(fn), i-start, fn.Params[i].Name(), types.TypeString(t, func(*types.Package) string { return "" }), w)
				undocumented = append(undocumented, key+"  // "+strings.Join(w, ","))
			}
			c.Ob("C18.mod", relPkg(fnPkgPath(fn)), funcKey(fn), fmt.Sprintf("param#%d-unmodified", i-start), p.Pos(fn.Pos()), ok, msg)
		}
	}
	sort.Strings(undocumented)
	if len(undocumented) > 0 && c.Only == "" {
		seen := map[string]bool{}
		for _, u := range undocumented {
			if !seen[u] {
				seen[u] = true
				c.Note("undocumented destination: " + u)
			}
		}
	}
	// ---- (b) global state
	c.Rule("C18.globals", "GLOBALS: no library function writes a package-level variable (directly or by handing its address to a writing callee) outside package initialisation and outside a function run by sync.Once/OnceValue; sync.* and atomic typed globals are exempt. Positive control: the same matcher must find the initialisation-time writes", 1)
	{
		all := libFuncs(p)
		sites, hits := globalWrites(p, eff, all, false)
		ctl, _ := globalWrites(p, eff, all, true)
		c.Instance("C18.globals", ctl)
		_ = sites
		reportFindings(c, p, "C18.globals", nil, hits, "")
		c.Ob("C18.globals", "-", "-", "matcher-control(init-time writes found)", "-", ctl > 20, "the global-write matcher found no initialisation-time writes: the rule is vacuous")
	}
	// ---- lazily initialised globals (L17)
	c.Rule("C18.lazy", "LAZY-INIT (L17): a global written only by the function handed to sync.Once.Do is read (or its address handed to a callee) only after a dominating once.Do in the reader, or after one in every caller up to the exported entry points", 16)
	{
		all := libFuncs(p)
		inits, sites, hits := lazyInitViolations(p, eff, all)
		c.Instance("C18.lazy", len(inits))
		_ = sites
		reportFindings(c, p, "C18.lazy", nil, hits, "")
		c.Ob("C18.lazy", "-", "-", "once-initialised-globals-found", "-", len(inits) >= 16, "fewer lazily initialised globals recognised than confirmed by hand (8 twisted-Edwards curveParams + 8 mimcConstants)")
	}
	// ---- pooled objects
	c.Rule("C18.pool", "POOL: an object obtained from a sync.Pool is completely redefined (whole store, clear, provably full copy, Reset/SetZero) before anything reads it; a function that hands an object back to the pool (Put, also deferred) returns no memory of it (the object, a slice or pointer derived from it, the pointer-like result of a method on it); pooled big.Int scratch values are covered by C08.pool", 8)
	{
		sites, hits := pooledObjectsReadBeforeDefined(p, eff, libFuncs(p))
		_, esc := pooledMemoryEscapes(p, libFuncs(p))
		hits = append(hits, esc...)
		c.Instance("C18.pool", sites)
		reportFindings(c, p, "C18.pool", nil, hits, "")
		c.Ob("C18.pool", "-", "-", "pool-gets-analysed", "-", sites > 0, "no sync.Pool.Get site found")
	}
	// ---- scratch buffers kept across calls
	c.Rule("C18.stalecap", "STALE-CAPACITY: no library function extends a slice into its spare capacity (s[:n] with n taken from or compared with cap(s)) without clearing the exposed elements: a buffer kept in a struct or a pool and resliced to the size of the next job still holds the values of the previous one, and code written for a fresh make() relies on zeros (cap() is not used anywhere on the reference tree)", 1000)
	{
		n := 0
		var hits []Finding
		for _, fn := range libFuncs(p) {
			k, h := staleCapacityReslices(p, fn)
			n += k
			hits = append(hits, h...)
		}
		c.Instance("C18.stalecap", n)
		reportFindings(c, p, "C18.stalecap", nil, hits, "")
		c.Ob("C18.stalecap", "-", "-", "reslices-scanned", "-", n > 0, "no reslice found in the library")
	}
	// ---- package-level caches are read-only for their users
	c.Rule("C18.cache", "L-CACHE: an object obtained from a package-level cache (sync.Map global: Load, or the getter functions that return its values) is never written — by a store, or by handing it, or a local now holding it, to a callee whose mod summary writes that argument's elements — and never returned by an exported function; an object handed to Store / LoadOrStore of such a cache is complete at that point (no store, copy or writing call through it afterwards in the function): cached objects are shared by all callers and goroutines", 8)
	{
		ci, sites, hits := cacheViolations(p, eff, libFuncs(p))
		c.Instance("C18.cache", sites)
		reportFindings(c, p, "C18.cache", nil, hits, "")
		c.Ob("C18.cache", "-", "-", "caches-and-getters-found", "-", len(ci.globals) >= 6 && len(ci.getters) >= 6, fmt.Sprintf("expected the 8 lagrangeBasis caches and their getters, found %d caches / %d getters", len(ci.globals), len(ci.getters)))
	}
	// ---- exported functions do not hand out package-level storage
	c.Rule("C18.leak", "L-LEAK: no exported function returns a slice / map / pointer (directly or inside a returned array / exported struct field) whose provenance is a package-level variable: the caller could modify tables shared by the whole process (found: G1IsogenyMap / G2IsogenyMap)", 2000)
	{
		sites, hits := globalLeaks(p, libFuncs(p))
		c.Instance("C18.leak", sites)
		reportFindings(c, p, "C18.leak", nil, hits, "")
		c.Ob("C18.leak", "-", "-", "exported-results-analysed", "-", sites >= 2000, "fewer exported functions with pointer-like results than on the reference tree")
	}
	// ---- parallel closures write disjoint ranges (L8)
	c.Rule("C18.partition", "PARTITION (L8): every func(start,end) closure handed to a parallel helper anywhere in the library writes shared (captured) memory only at indices derived from its own range, under a guard start == k, through sync/atomic, or inside a forwarded range callee", 250)
	{
		nCl := 0
		var bad []string
		for _, fn := range libFuncs(p) {
			if fn.Parent() != nil {
				continue
			}
			n, b := partitionedWrites(p, fn)
			nCl += n
			for _, x := range b {
				bad = append(bad, funcKey(fn)+": "+x)
			}
		}
		c.Instance("C18.partition", nCl)
		for _, b := range bad {
			parts := strings.SplitN(b, ": ", 2)
			c.Ob("C18.partition", "-", parts[0], "shared-write("+lastField(parts[1])+")", strings.Fields(parts[1])[0], false, b+": concurrent partitions write the same location (data race, result depends on the schedule)")
		}
		c.Ob("C18.partition", "-", "-", "closures-analysed", "-", nCl > 0, "no parallel closure found")
	}
	for t := range eff.Trusted {
		c.Trust(t)
	}
}

func lastField(s string) string {
	f := strings.Fields(s)
	if len(f) == 0 {
		return s
	}
	return f[len(f)-1]
}

// reachesPointerAny: does a value of type t contain any pointer-like component?
func reachesPointerAny(t types.Type) bool {
	return reachesPointerRec(t, 0)
}

func reachesPointerRec(t types.Type, d int) bool {
	if d > 6 {
		return false
	}
	switch u := t.Underlying().(type) {
	case *types.Pointer, *types.Slice, *types.Map:
		return true
	case *types.Interface:
		return false // interface-typed parameters (io.Writer, hash.Hash) are stream/state objects by contract
	case *types.Struct:
		for i := 0; i < u.NumFields(); i++ {
			if reachesPointerRec(u.Field(i).Type(), d+1) {
				return true
			}
		}
	case *types.Array:
		return reachesPointerRec(u.Elem(), d+1)
	}
	return false
}

// funcDoc: the doc comment of a source function (empty when it has none).
func funcDoc(p *Program, fn *ssa.Function) string {
	if fn.Syntax() == nil {
		return ""
	}
	if fd, ok := fn.Syntax().(*ast.FuncDecl); ok && fd.Doc != nil {
		return fd.Doc.Text()
	}
	return ""
}

// docNamesDestination: the doc comment of the function says that the parameter is written: "sets
// dst to", "writes ... into dst", "stores the result in res", "fills table", "dst = ...",
// "x is overwritten / modified", "in place". The verb has to stand next to the parameter's name:
// "sets p to the sum of points" documents p, not points.
func docNamesDestination(doc, name string) bool {
	if doc == "" || name == "" || name == "_" {
		return false
	}
	n := regexp.QuoteMeta(name)
	pats := []string{
		`(?i)\b(sets?|fills?|overwrites?|modifies|mutates|updates|clears|zeroes|resets|populates)\s+(the\s+)?(slice\s+|vector\s+|buffer\s+|elements of\s+)?` + n + `\b`,
		`(?i)\b(in|into|to)\s+` + n + `\b[^.;]*$|(?i)\b(writes?|stores?|puts?|places?|copies|copy|saves?|appends?|results?|output)\b[^.;]{0,120}\b(in|into|to)\s+(the\s+)?` + n + `\b`,
		`(?i)\b` + n + `\b(\[[^\]]*\])?\s*(=|:=|←|<-|\+=|\*=|-=)[^=]`,
		`(?i)\b` + n + `\b\s+(is|are|gets?|will be|must be)\s+(set|written|overwritten|filled|modified|updated|the (output|destination|result))`,
		`(?i)\bin[- ]place\b[^.;]{0,40}\b` + n + `\b|\b` + n + `\b[^.;]{0,40}\bin[- ]place\b`,
	}
	for _, pt := range pats {
		if regexp.MustCompile(pt).MatchString(doc) {
			return true
		}
	}
	// a sentence that names the parameter and speaks of a destination / of overwriting:
	// "with a caller supplied destination ... result must have the same length as points; its
	// previous content is ignored and entirely overwritten"
	if regexp.MustCompile(`(?i)\b` + n + `\b`).MatchString(doc) &&
		regexp.MustCompile(`(?i)\b(destination|overwritten|output (buffer|slice|vector)|receives the result)\b`).MatchString(doc) &&
		regexp.MustCompile(`(?i)^(dst|dest|res|result|results|out|output|buf|buffer|table|target|into)\d*$`).MatchString(name) {
		return true
	}
	return false
}

// fieldsAreDestinations: every written path goes through a field whose name says destination.
func fieldsAreDestinations(paths []string) bool {
	if len(paths) == 0 {
		return false
	}
	re := regexp.MustCompile(`(?i)^\.(dst|dest|destination|res|result|results|out|output|buf|buffer|scratch)\b`)
	for _, w := range paths {
		if w == "…" {
			continue
		}
		if !re.MatchString(w) {
			return false
		}
	}
	return true
}
