package main

import (
	"go/types"
	"strings"
	"golang.org/x/tools/go/ssa"
)

func init() { register("C12", checkC12) }

func checkC12(c *Ctx) {
	p := mustLoad(c, K1)
	eff := NewEffects(p)
	eddsa := p.FamilyPkgs("ecc/*/twistededwards/eddsa", "ecc/bls12-381/bandersnatch/eddsa")
	ecdsa := p.FamilyPkgs("ecc/*/ecdsa")
	c.Rule("C12.guard", "GUARD (tables written from the schemes): eddsa Signature.SetBytes accepts only with exact length, 0 < R.y < p, 0 < S < order, R parsed and on curve; eddsa key SetBytes only with length, parsed and on-curve A; eddsa Verify returns true only after hFunc != nil, A on curve, a successfully parsed signature and both coordinate equalities; ecdsa Signature.SetBytes only with exact length and 0 < r,s < n (each component tested separately); ecdsa Verify returns true only after a parsed signature and the comparison of x mod n with r; RecoverFrom/recoverP only with range-checked inputs and a checked ModSqrt", 8*5+10*4)
	c.Rule("C12.def", "DEFASSIGN: SetBytes of signatures and keys writes every field of the destination on accept and never reads the destination first", 8*3+10*3)
	c.Rule("C12.count", "COUNT: on every accepting return of a SetBytes(buf) (int, error) the reported count equals the largest offset of buf that was read", 8*3+10*3)
	c.Rule("C12.read", "READFULL: key generation and nonce derivation never use a raw Reader.Read", 0)
	c.Rule("C12.err", "ERRORS: Sign/Verify/GenerateKey/SetBytes inspect every error of their callees", 100)

	cmpRange := func(src, bound string) string {
		return `^-1 == Int\.Cmp\(local:Int<-SetBytes\(` + src + `\),` + bound + `\)$`
	}
	nonZero := func(src string) string {
		return `^0 != Int\.Cmp\(local:Int<-SetBytes\(` + src + `\),math/big\.NewInt\(0\)\)$`
	}
	var setters []*ssa.Function
	for _, pk := range eddsa {
		need := func(recv, name string) *ssa.Function {
			fn := p.Func(pk, recv, name)
			if fn == nil {
				c.Undecided("anchor %s.(%s).%s not found", pk, recv, name)
			}
			return fn
		}
		if fn := need("Signature", "SetBytes"); fn != nil {
			setters = append(setters, fn)
			RequireFacts(c, p, "C12.guard", fn, AcceptNilErr, nil, []Req{
				{"LenEq(sizeSignature)", `^\d+ == len\(p0\)$`},
				{"R.y<p", cmpRange(`local:\[\d+\]byte.*`, `Modulus\(\)`)},
				{"R.y!=0", nonZero(`local:\[\d+\]byte.*`)},
				{"S<order", cmpRange(`p0\[\d+:\d+\]`, `local:CurveParams\.Order`)},
				{"S!=0", nonZero(`p0\[\d+:\d+\]`)},
				{"R-parsed", `^noerr PointAffine\.SetBytes\(pr\.R,p0\[:\d+\]\)$`},
				{"OnCurve(R)", `^ok PointAffine\.IsOnCurve\(pr\.R\)$`},
			})
		}
		if fn := need("PublicKey", "SetBytes"); fn != nil {
			setters = append(setters, fn)
			RequireFacts(c, p, "C12.guard", fn, AcceptNilErr, nil, []Req{
				{"LenGE", `^\d+ <= len\(p0\)$`},
				{"A-parsed", `^noerr PointAffine\.SetBytes\(pr\.A,`},
				{"OnCurve(A)", `^ok PointAffine\.IsOnCurve\(pr\.A\)$`},
			})
		}
		if fn := need("PrivateKey", "SetBytes"); fn != nil {
			setters = append(setters, fn)
			RequireFacts(c, p, "C12.guard", fn, AcceptNilErr, nil, []Req{
				{"LenGE", `^\d+ <= len\(p0\)$`},
				{"A-parsed", `^noerr PointAffine\.SetBytes\(pr\.PublicKey\.A,`},
				{"OnCurve(A)", `^ok PointAffine\.IsOnCurve\(pr\.PublicKey\.A\)$`},
			})
		}
		if fn := need("PublicKey", "Verify"); fn != nil {
			RequireFacts(c, p, "C12.guard", fn, AcceptTrueBool, nil, []Req{
				{"hFunc!=nil", `^p2 != nil$`},
				{"OnCurve(A)", `^ok PointAffine\.IsOnCurve\(pr\.A\)$`},
				{"signature-parsed", `^noerr Signature\.SetBytes\(local:Signature,p0\)$`},
				{"hash-write-checked", `^noerr Writer\.Write\(p2,`},
				{"X-equal", `^ok Element\.Equal\(local:PointAffine\.X,local:PointAffine\.X\)$`},
				{"Y-equal", `^ok Element\.Equal\(local:PointAffine\.Y,local:PointAffine\.Y\)$`},
			})
		}
		if fn := p.Func(pk, "PublicKey", "Verify"); fn != nil {
			// A is only known to be on the curve (SetBytes, Verify test IsOnCurve, not the subgroup):
			// the scalar that multiplies A is used as computed from the hash — reducing it modulo the
			// subgroup order changes [k]A for keys with a small-order component
			c.Instance("C12.guard", 1)
			ok, where := true, p.Pos(fn.Pos())
			for _, b := range fn.Blocks {
				for _, in := range b.Instrs {
					call, isCall := in.(*ssa.Call)
					if !isCall || len(call.Call.Args) != 3 {
						continue
					}
					cl := calleeOf(&call.Call)
					if cl.Name != "ScalarMultiplication" || !strings.HasSuffix(descValue(call.Call.Args[1], 0), ".A") {
						continue
					}
					scalar := fluentRoot(call.Call.Args[2])
					for _, b2 := range fn.Blocks {
						for _, in2 := range b2.Instrs {
							c2, isCall2 := in2.(*ssa.Call)
							if !isCall2 || len(c2.Call.Args) != 3 {
								continue
							}
							cl2 := calleeOf(&c2.Call)
							if cl2.Pkg != "math/big" || (cl2.Name != "Mod" && cl2.Name != "Rem") {
								continue
							}
							if fluentRoot(c2.Call.Args[0]) == scalar && strings.Contains(descValue(c2.Call.Args[2], 0), "Order") && instrMayPrecede(fn, c2, call) {
								ok = false
								where = p.Pos(c2.Pos())
							}
						}
					}
				}
			}
			// a verification that establishes subgroup membership of the key first may reduce
			for _, b := range fn.Blocks {
				for _, in := range b.Instrs {
					if call, isCall := in.(*ssa.Call); isCall && strings.Contains(calleeOf(&call.Call).Name, "SubGroup") {
						ok = true
					}
				}
			}
			c.Ob("C12.guard", pk, funcKey(fn), "key-scalar-not-reduced-mod-order", where, ok, funcKey(fn)+": the scalar that multiplies the public key is reduced modulo the subgroup order; the key is only known to be on the curve, for a key with a small-order component [k mod r]A differs from [k]A and valid signatures are rejected")
		}
		if fn := need("PrivateKey", "Sign"); fn != nil {
			RequireFacts(c, p, "C12.guard", fn, AcceptNilErr, nil, []Req{
				{"hFunc!=nil", `^p1 != nil$`},
				{"hash-write-checked", `^noerr Writer\.Write\(p1,`},
			})
		}
	}
	for _, pk := range ecdsa {
		need := func(recv, name string) *ssa.Function {
			fn := p.Func(pk, recv, name)
			if fn == nil {
				c.Undecided("anchor %s.(%s).%s not found", pk, recv, name)
			}
			return fn
		}
		if fn := need("Signature", "SetBytes"); fn != nil {
			setters = append(setters, fn)
			RequireFacts(c, p, "C12.guard", fn, AcceptNilErr, nil, []Req{
				{"LenEq(sizeSignature)", `^\d+ == len\(p0\)$`},
				{"r<n", cmpRange(`p0\[:\d+\]`, `Modulus\(\)`)},
				{"r!=0", nonZero(`p0\[:\d+\]`)},
				{"s<n", cmpRange(`p0\[\d+:\d+\]`, `Modulus\(\)`)},
				{"s!=0", nonZero(`p0\[\d+:\d+\]`)},
			})
		}
		if fn := need("PublicKey", "SetBytes"); fn != nil {
			setters = append(setters, fn)
			RequireFacts(c, p, "C12.guard", fn, AcceptNilErr, nil, []Req{
				{"LenGE", `^\d+ <= len\(p0\)$`},
				{"A-parsed-and-validated", `^noerr G1Affine\.SetBytes\(pr\.A,`},
				{"A-not-infinity", `^not G1Affine\.IsInfinity\(pr\.A\)$`},
			})
		}
		if fn := need("PrivateKey", "SetBytes"); fn != nil {
			setters = append(setters, fn)
			RequireFacts(c, p, "C12.guard", fn, AcceptNilErr, nil, []Req{
				{"LenGE", `^\d+ <= len\(p0\)$`},
				{"A-parsed-and-validated", `^noerr G1Affine\.SetBytes\(pr\.PublicKey\.A,`},
			})
		}
		if fn := need("PublicKey", "Verify"); fn != nil {
			RequireFacts(c, p, "C12.guard", fn, AcceptTrueBool, nil, []Req{
				{"signature-parsed", `^noerr Signature\.SetBytes\(local:Signature,p0\)$`},
				{"public-key-not-infinity", `^not G1Affine\.IsInfinity\(pr\.A\)$`},
				{"x-mod-n-equals-r", `^0 == Int\.Cmp\(local:Int<-Mod\(local:Int,(?:g:order|Modulus\(\))\),local:Int<-SetBytes\(local:Signature\.R`},
			})
		}
		if fn := p.Func(pk, "", "HashToInt"); fn != nil {
			// bits2int: the number of excess bits shifted out is computed from the length of the very
			// bytes that are converted (after the truncation to the size of the order), not from the
			// length of the digest before truncation
			c.Instance("C12.guard", 1)
			var conv, shiftLen []ssa.Value
			for _, b := range fn.Blocks {
				for _, in := range b.Instrs {
					call, ok := in.(*ssa.Call)
					if !ok || call.Call.IsInvoke() {
						continue
					}
					cl := calleeOf(&call.Call)
					if cl.Pkg != "math/big" {
						continue
					}
					switch cl.Name {
					case "SetBytes":
						if len(call.Call.Args) == 2 {
							conv = append(conv, stripConv(call.Call.Args[1]))
						}
					case "Rsh":
						if len(call.Call.Args) == 3 {
							// lengths in the backward slice of the shift amount
							seen := map[ssa.Value]bool{}
							var walk func(v ssa.Value, d int)
							walk = func(v ssa.Value, d int) {
								v = stripConv(v)
								if v == nil || seen[v] || d > 8 {
									return
								}
								seen[v] = true
								if bo, ok := v.(*ssa.BinOp); ok {
									walk(bo.X, d+1)
									walk(bo.Y, d+1)
									return
								}
								if _, isConst := v.(*ssa.Const); isConst {
									return
								}
								// a length quantity: len(x), or a value (clamped length) used as such
								shiftLen = append(shiftLen, v)
							}
							walk(call.Call.Args[2], 0)
						}
					}
				}
			}
			ok, msg := true, ""
			if len(conv) > 0 && len(shiftLen) > 0 {
				for _, l := range shiftLen {
					same := false
					for _, cv := range conv {
						// the quantity is len(converted bytes) ...
						if c2, ok := l.(*ssa.Call); ok {
							if lx := lenOf(c2); lx != nil && stripConv(lx) == cv {
								same = true
							}
						}
						// ... or the upper bound the converted bytes were cut at
						if sl, ok := cv.(*ssa.Slice); ok && sl.Low == nil && sl.High != nil && stripConv(sl.High) == l {
							same = true
						}
					}
					if _, isLen := l.(*ssa.Call); !isLen {
						if _, isPhi := l.(*ssa.Phi); !isPhi {
							same = true // not a length quantity the rule understands: nothing claimed
						}
					}
					if !same {
						ok = false
						msg = funcKey(fn) + ": the shift that drops the excess bits is computed from " + descValue(l, 0) + " while the bytes converted are " + descValue(conv[0], 0) + ": for digests longer than the order the excess is counted on the untruncated digest and too many bits are dropped"
					}
				}
			}
			c.Ob("C12.guard", pk, funcKey(fn), "excess-bits-from-converted-bytes", p.Pos(fn.Pos()), ok, msg)
		}
		if fn := p.Func(pk, "", "recoverP"); fn != nil {
			RequireFacts(c, p, "C12.guard", fn, AcceptNilErr, nil, []Req{
				{"sqrt-checked", `^Int\.ModSqrt\(.*\) != nil$`},
			})
		}
		if fn := p.Func(pk, "PublicKey", "RecoverFrom"); fn != nil { // only some curves have key recovery
			RequireFacts(c, p, "C12.guard", fn, AcceptNilErr, nil, []Req{
				{"recoverP-ok", `^noerr recoverP\(`},
			})
		}
	}
	for _, fn := range setters {
		checkSetterDef(c, p, eff, "C12.def", fn)
		c.Instance("C12.count", 1)
		decided, ok, msg, pos := byteCountMismatch(p, fn)
		ps := p.Pos(fn.Pos())
		if !ok {
			ps = p.Pos(pos)
		}
		if decided {
			c.Ob("C12.count", relPkg(fnPkgPath(fn)), funcKey(fn), "count-equals-consumed", ps, ok, msg)
		}
	}
	// raw reads + error discipline in the signature packages
	var fns []*ssa.Function
	for _, pk := range append(append([]string{}, eddsa...), ecdsa...) {
		fns = append(fns, libFuncs(p, pk)...)
	}
	sites, hits := rawReads(fns)
	c.Instance("C12.read", sites)
	reportFindings(c, p, "C12.read", fns, hits, "no-raw-read")
	esites, ehits := droppedErrors(p, fns)
	c.Instance("C12.err", esites)
	var real []Finding
	for _, h := range ehits {
		// constructors of std primitives whose error only reports an invalid key size / nil
		// argument that the caller fixes as a constant
		if h.Construct == "unused-error(crypto/aes.NewCipher)" {
			continue // key is a 32-byte array: NewCipher cannot fail (KeySizeError only)
		}
		if h.Construct == "unused-error(Writer.Write)" {
			continue // sha512 hash.Hash.Write never returns an error (std contract)
		}
		real = append(real, h)
	}
	reportFindings(c, p, "C12.err", fns, real, "errors-inspected")
	for t := range eff.Trusted {
		c.Trust(t)
	}
	c.Assume("G1Affine.SetBytes validates the point (C07); PointAffine.SetBytes is strict (C07)")
}

// fluentRoot: the object a fluent chain x.F(..).G(..) operates on (the receiver of the first call).
func fluentRoot(v ssa.Value) ssa.Value {
	for i := 0; i < 16; i++ {
		c, ok := v.(*ssa.Call)
		if !ok || len(c.Call.Args) == 0 || c.Call.IsInvoke() || !types.Identical(c.Type(), c.Call.Args[0].Type()) {
			break
		}
		v = c.Call.Args[0]
	}
	return addrBase(v)
}
