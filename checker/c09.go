package main

import (
	"fmt"
	"go/types"
	"sort"
	"strings"

	"golang.org/x/tools/go/ssa"
)

func init() { register("C09", checkC09) }

func topLevelFuncs(p *Program) map[string]*ssa.Function {
	out := map[string]*ssa.Function{}
	for _, fn := range p.RepoFuncs() {
		if fn.Parent() != nil || (fn.Origin() != nil && fn.Origin() != fn) || !libPkg(relPkg(fnPkgPath(fn))) {
			continue
		}
		out[funcKey(fn)] = fn
	}
	return out
}

func fileOf(p *Program, fn *ssa.Function) string {
	if !fn.Pos().IsValid() {
		return ""
	}
	return strings.TrimPrefix(p.Fset.Position(fn.Pos()).Filename, repoDir+"/")
}

// readsCPUFlag: fn loads a boolean global of utils/cpu or a supportAdx-like package flag.
func readsCPUFlag(fn *ssa.Function) bool { return readsCPUFlagD(fn, 0) }

func readsCPUFlagD(fn *ssa.Function, depth int) bool {
	for _, b := range fn.Blocks {
		for _, in := range b.Instrs {
			// a predicate of the package that wraps the flag test (useAVX512(n))
			if call, ok := in.(*ssa.Call); ok && depth < 2 {
				if h := call.Call.StaticCallee(); h != nil && h.Blocks != nil && len(h.Blocks) <= 12 && fnPkgPath(h) == fnPkgPath(fn) && h.Signature.Results().Len() == 1 && isBasic(h.Signature.Results().At(0).Type()) {
					if readsCPUFlagD(h, depth+1) {
						return true
					}
				}
			}
			if u, ok := in.(*ssa.UnOp); ok {
				if g, ok := u.X.(*ssa.Global); ok {
					if strings.HasSuffix(g.Pkg.Pkg.Path(), "utils/cpu") || strings.HasPrefix(g.Name(), "support") || strings.HasPrefix(g.Name(), "Support") {
						return true
					}
				}
			}
		}
	}
	return false
}

func repoCallees(fn *ssa.Function) map[string]bool {
	out := map[string]bool{}
	for _, b := range fn.Blocks {
		for _, in := range b.Instrs {
			if ci, ok := in.(ssa.CallInstruction); ok {
				if f := ci.Common().StaticCallee(); f != nil && strings.HasPrefix(fnPkgPath(f), modPath) && f.Blocks != nil {
					out[f.Name()] = true
				}
			}
		}
	}
	return out
}

func checkC09(c *Ctx) {
	p1 := mustLoad(c, K1)
	p2 := mustLoad(c, K2)
	progs := []*Program{p2}
	if c.Thorough() {
		progs = append(progs, mustLoad(c, K3))
	}
	c.Rule("C09.sig", "P1 SIGNATURE: every function that has a different body under another build configuration (amd64 default vs purego, thorough: vs arm64) has the identical signature there, and exists there", 100)
	c.Rule("C09.panic", "P2/P3 PANIC PARITY: for every such function with slice inputs, the entry decision lists of the two variants (explicit panics, length comparisons, &s[0] and s[a:] on the inputs, inlined generic helpers, both values of every CPU flag) are evaluated as predicates over all assignments of representative lengths (0,1,2,3 and the constants the variants compare with, +-1); an assignment where one variant certainly panics and the other certainly does not is a violation", 70)
	c.Rule("C09.fallback", "P4 FALLBACK ARM: a function that branches on a CPU feature flag calls every generic helper that its purego sibling calls (the non-accelerated arm is the portable implementation)", 40)

	c.Rule("C09.flag", "FLAG PARITY: inside one function that branches on a CPU feature flag, the panic behaviour (explicit panics, &s[0], s[a:] on the slice inputs) is the same for every value of the flags on every assignment of representative lengths: the accelerated arm has exactly the preconditions of the portable arm", 40)
	f1 := topLevelFuncs(p1)
	{
		var keys []string
		for k := range f1 {
			keys = append(keys, k)
		}
		sort.Strings(keys)
		for _, k := range keys {
			a := f1[k]
			if a.Blocks == nil || !readsCPUFlag(a) || len(sliceInputs(a)) == 0 || !libPkg(relPkg(fnPkgPath(a))) {
				continue
			}
			c.Instance("C09.flag", 1)
			_, diffs := flagParity(p1, a)
			msg := ""
			if len(diffs) > 0 {
				d := diffs
				if len(d) > 3 {
					d = append(d[:3], fmt.Sprintf("… %d more length assignments", len(diffs)-3))
				}
				msg = fmt.Sprintf("%s: panic behaviour depends on the CPU: %s", k, strings.Join(d, "; "))
			}
			c.Ob("C09.flag", relPkg(fnPkgPath(a)), k, "panic-independent-of-cpu-flags", p1.Pos(a.Pos()), len(diffs) == 0, msg)
		}
	}
	for _, px := range progs {
		fx := topLevelFuncs(px)
		var keys []string
		for k := range f1 {
			keys = append(keys, k)
		}
		sort.Strings(keys)
		for _, k := range keys {
			a := f1[k]
			b, ok := fx[k]
			file1 := fileOf(p1, a)
			if !ok {
				// functions that exist only in the accelerated configuration are fine when
				// unexported helpers (asm stubs, dispatch helpers); exported API must exist everywhere
				if a.Object() != nil && a.Object().Exported() {
					c.Instance("C09.sig", 1)
					c.Ob("C09.sig", relPkg(fnPkgPath(a)), k, "exists-in-"+px.Cfg.ID, p1.Pos(a.Pos()), false, k+" is exported in the default amd64 build but does not exist under configuration "+px.Cfg.ID)
				}
				continue
			}
			file2 := fileOf(px, b)
			if file1 == file2 {
				continue // same source: same behaviour
			}
			c.Instance("C09.sig", 1)
			same := types.Identical(a.Signature, b.Signature) || a.Signature.String() == b.Signature.String()
			c.Ob("C09.sig", relPkg(fnPkgPath(a)), k, "signature-identical-in-"+px.Cfg.ID, p1.Pos(a.Pos()), same, fmt.Sprintf("%s has signature %s in %s but %s in %s", k, a.Signature, p1.Cfg.ID, b.Signature, px.Cfg.ID))
			if a.Blocks == nil || b.Blocks == nil {
				continue
			}
			if len(sliceInputs(a)) > 0 {
				cases, diffs := panicParity(p1, a, px, b)
				c.Instance("C09.panic", 1)
				msg := ""
				if len(diffs) > 0 {
					d := diffs
					if len(d) > 3 {
						d = append(d[:3], fmt.Sprintf("… %d more length assignments", len(diffs)-3))
					}
					msg = fmt.Sprintf("%s (%s vs %s): panic behaviour differs: %s", k, file1, file2, strings.Join(d, "; "))
				}
				c.Ob("C09.panic", relPkg(fnPkgPath(a)), k, fmt.Sprintf("panic-parity-%s-vs-%s", p1.Cfg.ID, px.Cfg.ID), p1.Pos(a.Pos()), len(diffs) == 0, msg)
				_ = cases
			}
			if px == p2 && readsCPUFlag(a) {
				c.Instance("C09.fallback", 1)
				want := repoCallees(b)
				have := repoCallees(a)
				var missing []string
				for n := range want {
					if !have[n] {
						missing = append(missing, n)
					}
				}
				sort.Strings(missing)
				c.Ob("C09.fallback", relPkg(fnPkgPath(a)), k, "fallback-arm-is-portable-code", p1.Pos(a.Pos()), len(missing) == 0, fmt.Sprintf("%s branches on a CPU flag but never calls %v, which the purego variant uses: the non-accelerated arm is a different implementation", k, missing))
			}
		}
	}
	// ---- loop-carried counters advance on every iteration (deviance rule)
	c.Rule("C09.continue", "L-CONTINUE (deviance, 184 of 185 loops on the reference tree): a `continue` in a loop body does not skip the counter updates (x++, x += k of a variable declared outside the loop) that end the body — the shape of 'the fast arm skips a block and forgets to advance the index the other arm advances'. Listed exception: computeLagrangeBasis, whose d deliberately counts the factors that were not skipped", 150)
	{
		loops, finds := continueSkipsCounter(p1)
		c.Instance("C09.continue", loops)
		exceptions := map[string]string{"computeLagrangeBasis|d": "d is the degree reached so far: it counts the factors actually multiplied, the skipped index l contributes none"}
		for _, f := range finds {
			parts := strings.SplitN(f, "|", 3)
			fn := parts[0]
			short := fn[strings.LastIndex(fn, ".")+1:]
			if _, ok := exceptions[short+"|"+parts[1]]; ok {
				continue
			}
			pk := fn[:strings.LastIndex(fn, ".")]
			c.Ob("C09.continue", pk, fn, "continue-keeps-counter("+parts[1]+")", parts[2], false, fn+": the continue at "+parts[2]+" skips the update of "+parts[1]+" that ends the loop body: iterations taking that path do not advance "+parts[1])
		}
		c.Ob("C09.continue", "-", "-", "loops-with-trailing-updates-analysed", "-", loops > 0, "no loop analysed")
	}
	// ---- assembly range kernels are called on ranges the caller has checked
	c.Rule("C09.asmbounds", "ASM-BOUNDS: an assembly routine that takes a count / index argument together with &s[0] works on a range derived from those arguments and does no bounds checking; the call is dominated by a test that mentions len(s) (length agreement panic, empty-input return, or the dispatch to the portable code when the range does not fit), or s was allocated by the caller — otherwise inputs on which the portable code panics make the assembly read or write outside the slice (found: small-field FFT kernels)", 150)
	{
		n := 0
		var hits []Finding
		for _, fn := range libFuncs(p1) {
			k, h := asmCallBounds(p1, fn)
			n += k
			hits = append(hits, h...)
		}
		c.Instance("C09.asmbounds", n)
		reportFindings(c, p1, "C09.asmbounds", nil, hits, "")
		c.Ob("C09.asmbounds", "-", "-", "asm-range-calls-analysed", "-", n >= 150, "fewer calls of assembly range kernels found than on the reference tree")
	}
	// ---- scalar operands of vector operations are read once on every path
	c.Rule("C09.subalias", "SUB-OBJECT ALIASING: in vector operations with a scalar operand (Vector.ScalarMul(a, b *Element)) the scalar may point to an element of the destination; no path reads it after the destination was written (the AVX-512 routines load it once, so a portable loop re-reading it would compute something else): every path works on a copy taken first", 20)
	{
		n := 0
		for _, px := range []*Program{p1, p2} {
			eff := sharedEffects(px)
			var hits []Finding
			for _, fn := range libFuncs(px) {
				if fn.Parent() != nil || fn.Object() == nil || !fn.Object().Exported() || fn.Signature.Recv() == nil || namedName(fn.Signature.Recv().Type()) != "Vector" {
					continue
				}
				k, h := subObjectHazards(px, eff, fn)
				n += k
				for i := range h {
					h[i].Construct += "@" + px.Cfg.ID
				}
				hits = append(hits, h...)
			}
			reportFindings(c, px, "C09.subalias", nil, hits, "")
		}
		c.Instance("C09.subalias", n)
		c.Ob("C09.subalias", "-", "-", "scalar-operands-analysed", "-", n >= 40, "fewer Vector operations with a scalar operand found than the 23 field packages have in two configurations")
	}
	c.Assume("bit-equality of assembly and Go results is not decided: assembly is a trusted base")
	c.Trust("the assembly kernels process exactly the element range they are given")
}
