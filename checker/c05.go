package main

import (
	"fmt"
	"go/token"
	"sort"
	"strings"

	"golang.org/x/tools/go/ssa"
)

func init() { register("C05", checkC05) }

func pairingPkgs(p *Program) []string {
	var out []string
	for _, pk := range p.FamilyPkgs("ecc/*") {
		if p.Func(pk, "", "MillerLoop") != nil {
			out = append(out, pk)
		}
	}
	return out
}

func checkC05(c *Ctx) {
	p := mustLoad(c, K1)
	eff := sharedEffects(p)
	pkgs := pairingPkgs(p)
	argRoleLint(c, p, append(append([]string{}, pkgs...), "ecc/*/internal/fptower")...)
	c.Rule("C05.guard", "GUARD: MillerLoop and MillerLoopFixedQ return a nil error only with n != 0 and equal lengths of the two argument lists (size mismatches are errors); Pair/PairFixedQ/PairingCheck/PairingCheckFixedQ only after a successful Miller loop / pairing", 7*6)
	c.Rule("C05.struct", "STRUCTURE: the four computation variants share one pipeline per kind: Pair returns FinalExponentiation applied to the MillerLoop result; PairingCheck returns the comparison of the Pair result with one; the FixedQ variants likewise over MillerLoopFixedQ — so the variants cannot diverge in the final exponentiation or the comparison", 7*4)
	c.Rule("C05.filter", "FILTER: in MillerLoop a pair is kept (appended to the working lists) only on the path where neither member is the point at infinity", 7)
	c.Rule("C05.mod", "EFFECTS: none of the pairing entry points writes its point lists or the precomputed lines (the same arguments give the same value on every call)", 7*6)

	for _, pk := range pkgs {
		get := func(name string) *ssa.Function {
			fn := p.Func(pk, "", name)
			if fn == nil {
				c.Undecided("anchor %s.%s not found", pk, name)
			}
			return fn
		}
		for _, name := range []string{"MillerLoop", "MillerLoopFixedQ"} {
			if fn := get(name); fn != nil {
				RequireFacts(c, p, "C05.guard", fn, AcceptNilErr, nil, []Req{
					{"NonEmpty", `^0 != len\(p0\)$`},
					{"LenEq", `^len\(p0\) == len\(p1\)$`},
				})
			}
		}
		type st struct{ fn, inner, post string }
		for _, s := range []st{{"Pair", "MillerLoop", "FinalExponentiation"}, {"PairFixedQ", "MillerLoopFixedQ", "FinalExponentiation"}, {"PairingCheck", "Pair", "Equal"}, {"PairingCheckFixedQ", "PairFixedQ", "Equal"}} {
			fn := get(s.fn)
			if fn == nil {
				continue
			}
			// kept as a thin wrapper of a generalised function (PairWithOptions(P, Q, opts...)):
			// the pipeline is that of the function that does the work
			if tgt, pm := thinWrapperTarget(fn); tgt != nil && pm[0] == 0 && pm[1] == 1 {
				fn = tgt
			}
			isInner := func(n string) bool { return n == s.inner || strings.HasPrefix(n, s.inner+"With") }
			RequireFacts(c, p, "C05.guard", fn, AcceptNilErr, nil, []Req{{"inner-ok", `^noerr ` + s.inner + `(With\w+)?\(p0,p1[,)]`}})
			c.Instance("C05.struct", 1)
			// the value returned on acceptance is post(...) whose argument derives from inner(...)
			ok := false
			acc, _ := acceptReturns(fn, AcceptNilErr)
			for _, a := range acc {
				v := retValue(a.ret, 0)
				call, _ := callResult(v)
				if call == nil {
					continue
				}
				if n := calleeOf(&call.Call).Name; n != s.post && !(s.post == "Equal" && n == "IsOne") {
					// a helper of the package that applies post to what it is given (isOneGT(&f))
					h := call.Call.StaticCallee()
					if h == nil || h.Blocks == nil || fnPkgPath(h) != fnPkgPath(fn) || !(reachesCallee(h, s.post) || (s.post == "Equal" && reachesCallee(h, "IsOne"))) {
						continue
					}
				}
				infl := false
				seen := map[ssa.Value]bool{}
				var walk func(x ssa.Value, d int)
				walk = func(x ssa.Value, d int) {
					if x == nil || d > 12 || seen[x] {
						return
					}
					seen[x] = true
					if cc, _ := callResult(x); cc != nil && isInner(calleeOf(&cc.Call).Name) {
						infl = true
					}
					switch y := x.(type) {
					case *ssa.Call:
						for _, a := range y.Call.Args {
							walk(a, d+1)
						}
					case *ssa.Alloc:
						for _, r := range *y.Referrers() {
							if stt, ok := r.(*ssa.Store); ok && stt.Addr == ssa.Value(y) {
								walk(stt.Val, d+1)
							}
						}
					case *ssa.UnOp:
						walk(y.X, d+1)
					case *ssa.Extract:
						walk(y.Tuple, d+1)
					}
				}
				for _, arg := range call.Call.Args {
					walk(arg, 0)
				}
				if infl {
					ok = true
				}
			}
			c.Ob("C05.struct", pk, funcKey(fn), "returns-"+s.post+"-of-"+s.inner, p.Pos(fn.Pos()), ok,
				funcKey(fn)+": the value returned on success is not "+s.post+" applied to the result of "+s.inner)
		}
		// filter
		if fn := p.Func(pk, "", "MillerLoop"); fn != nil {
			// the filtering loop is in MillerLoop itself or in a helper of the package that receives P
			// and Q (in whatever positions): find the function that appends elements of both
			host, iP, iQ := fn, 0, 1
			findAppends := func(f *ssa.Function, iP, iQ int) []ssa.Instruction {
				var appends []ssa.Instruction
				wantP, wantQ := fmt.Sprintf("[p%d[*]]", iP), fmt.Sprintf("[p%d[*]]", iQ)
				for _, b := range f.Blocks {
					for _, in := range b.Instrs {
						if call, ok := in.(*ssa.Call); ok {
							if bi, ok := call.Call.Value.(*ssa.Builtin); ok && bi.Name() == "append" && len(call.Call.Args) == 2 {
								// append of an element taken from P or Q
								if d := descValue(call.Call.Args[1], 0); d == wantP || d == wantQ {
									appends = append(appends, in)
								} else {
									// append(pairs, pair{p: P[k], q: Q[k]}): the pair kept as one record
									for _, leaf := range appendedLeafValues(call.Call.Args[1]) {
										if d := "[" + descValue(leaf, 0) + "]"; d == wantP || d == wantQ {
											appends = append(appends, in)
											break
										}
									}
								}
							}
						}
					}
				}
				return appends
			}
			appends := findAppends(fn, 0, 1)
			if len(appends) == 0 {
				for _, fw := range forwardedHelpers(fn) {
					jp, okP := fw.param[0]
					jq, okQ := fw.param[1]
					if !okP || !okQ {
						continue
					}
					if ap := findAppends(fw.callee, jp, jq); len(ap) > 0 {
						host, iP, iQ, appends = fw.callee, jp, jq, ap
						break
					}
				}
			}
			RequireFactsAtInstr(c, p, "C05.filter", host, appends, "pair-kept", []Req{
				{"P[k]-finite", fmt.Sprintf(`^not G1Affine\.IsInfinity\(p%d\[\*\]\)$`, iP)},
				{"Q[k]-finite", fmt.Sprintf(`^not G2Affine\.IsInfinity\(p%d\[\*\]\)$`, iQ)},
			})
		}
		// effects
		for _, name := range []string{"MillerLoop", "MillerLoopFixedQ", "Pair", "PairFixedQ", "PairingCheck", "PairingCheckFixedQ"} {
			fn := p.Func(pk, "", name)
			if fn == nil {
				continue
			}
			c.Instance("C05.mod", 1)
			s := eff.Summary(fn)
			ok := true
			msg := ""
			for i := range fn.Params {
				if w := s.WritesRoot(i); len(w) > 0 {
					ok = false
					if len(w) > 3 {
						w = w[:3]
					}
					msg = funcKey(fn) + ": argument " + fn.Params[i].Name() + " is written at " + joinStr(w) + ": a second call with the same argument objects computes a different value"
				}
			}
			c.Ob("C05.mod", pk, funcKey(fn), "arguments-unmodified", p.Pos(fn.Pos()), ok, msg)
		}
	}
	// ---- association consistency of line coefficients and their scaling tables
	c.Rule("C05.assoc", "ASSOCIATION (deviance inside one function): in the Miller loops every line coefficient R_k is scaled (MulByElement) by an entry of one and the same per-pair table throughout the function (R0 with x/y, R1 with 1/y, ...): a coefficient scaled by two different tables, or a table used for two different coefficients, means one site has its factors swapped", 14)
	_ = 0
	for _, pk := range pairingPkgs(p) {
		for _, name := range []string{"MillerLoop", "MillerLoopFixedQ"} {
			fn := p.Func(pk, "", name)
			if fn == nil {
				continue
			}
			c.Instance("C05.assoc", 1)
			byField := map[string]map[string]bool{}
			byTable := map[string]map[string]bool{}
			sites := 0
			for _, b := range fn.Blocks {
				for _, in := range b.Instrs {
					call, ok := in.(*ssa.Call)
					if !ok || calleeOf(&call.Call).Name != "MulByElement" || len(call.Call.Args) != 3 {
						continue
					}
					fa, ok := call.Call.Args[1].(*ssa.FieldAddr)
					if !ok {
						continue
					}
					field := fieldName(fa.X.Type(), fa.Field)
					if !strings.HasPrefix(strings.ToUpper(field), "R") {
						continue
					}
					tbl := ""
					switch sc := call.Call.Args[2].(type) {
					case *ssa.IndexAddr: // &yInv[k]
						tbl = tableIdentity(sc.X)
					case *ssa.FieldAddr: // &p[k].X
						if ia, ok := sc.X.(*ssa.IndexAddr); ok {
							if t := tableIdentity(ia.X); t != "" {
								tbl = t + "." + fieldName(sc.X.Type(), sc.Field)
							}
						}
					}
					if tbl == "" {
						continue
					}
					sites++
					if byField[field] == nil {
						byField[field] = map[string]bool{}
					}
					byField[field][tbl] = true
					if byTable[tbl] == nil {
						byTable[tbl] = map[string]bool{}
					}
					byTable[tbl][field] = true
				}
			}
			ok := true
			msg := ""
			for f, ts := range byField {
				if len(ts) > 1 {
					ok = false
					msg = fmt.Sprintf("%s: line coefficient %s is scaled by entries of %d different tables (%s) at different sites", funcKey(fn), f, len(ts), strings.Join(sortedKeys(ts), ", "))
				}
			}
			for t, fs := range byTable {
				if len(fs) > 1 {
					ok = false
					msg = fmt.Sprintf("%s: the table %s scales %d different line coefficients (%s) at different sites", funcKey(fn), t, len(fs), strings.Join(sortedKeys(fs), ", "))
				}
			}
			if sites > 0 {
				c.Ob("C05.assoc", pk, funcKey(fn), "coefficient-table-association-consistent", p.Pos(fn.Pos()), ok, msg)
			}
		}
	}
	for t := range eff.Trusted {
		c.Trust(t)
	}
	c.Assume("bilinearity, non-degeneracy and equality of the fixed-argument and generic Miller loops as values are not decided (value level)")
}

func sortedKeys(m map[string]bool) []string {
	var out []string
	for k := range m {
		out = append(out, k)
	}
	sort.Strings(out)
	return out
}

// tableIdentity names the slice a scaling factor is taken from: the local variable (through its
// debug name) or the defining call.
func tableIdentity(v ssa.Value) string {
	v = stripConv(v)
	switch x := v.(type) {
	case *ssa.UnOp:
		if a, ok := x.X.(*ssa.Alloc); ok {
			return "var:" + a.Comment
		}
		return tableIdentity(x.X)
	case *ssa.Call:
		return "call:" + calleeOf(&x.Call).Name + "@" + x.Name()
	case *ssa.MakeSlice:
		return "make:" + x.Name()
	case *ssa.Phi:
		return "phi:" + x.Comment
	case *ssa.Parameter:
		return "param:" + x.Name()
	}
	return ""
}

// appendedLeafValues: the values stored into the element(s) of the variadic argument of an append,
// looking into a struct literal built in place or in a temporary.
func appendedLeafValues(v ssa.Value) []ssa.Value {
	sl, ok := v.(*ssa.Slice)
	if !ok {
		return nil
	}
	al, ok := sl.X.(*ssa.Alloc)
	if !ok || al.Referrers() == nil {
		return nil
	}
	var out []ssa.Value
	var fieldsOf func(addr ssa.Value)
	fieldsOf = func(addr ssa.Value) {
		refs := addr.Referrers()
		if refs == nil {
			return
		}
		for _, r := range *refs {
			switch x := r.(type) {
			case *ssa.Store:
				if x.Addr != addr {
					continue
				}
				if ld, isLoad := x.Val.(*ssa.UnOp); isLoad && ld.Op == token.MUL {
					if tmp, isAlloc := ld.X.(*ssa.Alloc); isAlloc {
						fieldsOf(tmp)
						continue
					}
				}
				out = append(out, x.Val)
			case *ssa.FieldAddr:
				if x.X == addr {
					fieldsOf(x)
				}
			}
		}
	}
	for _, r := range *al.Referrers() {
		if ia, ok := r.(*ssa.IndexAddr); ok {
			fieldsOf(ia)
		}
	}
	return out
}
