package main

// documentedDestinations: parameters that an exported function is documented (or, for the
// two-letter helpers, named) to write. Key: family|func|param-index (receiver not counted).
// One line of reason each; every entry was confirmed by reading the function and its comment.
func documentedDestinations() map[string]string {
	m := map[string]string{}
	add := func(reason string, keys ...string) {
		for _, k := range keys {
			m[k] = reason
		}
	}
	for _, f := range []string{"ecc/*/fp", "ecc/*/fr", "field/*"} {
		add("res *big.Int is the output of the conversion", f+"|(*Element).BigInt|0", f+"|(Element).ToBigIntRegular|0")
		add("Butterfly(a, b) sets a = a+b, b = a-b in place (documented)", f+"|Butterfly|0", f+"|Butterfly|1")
		add("MulByN(x) multiplies x in place (documented: x *= N)", f+"|MulBy3|0", f+"|MulBy5|0", f+"|MulBy13|0")
	}
	add("MulByN(x) multiplies x in place", "field/*/extensions|MulBy7|0", "field/*/extensions|MulBy11|0")
	add("res is the accumulator of the multiply-accumulate kernel", "field/*/extensions|MulAccE4|2")
	for _, f := range []string{"ecc/*/fr/fft", "field/*/fft"} {
		add("the FFT is computed in place on a (documented)", f+"|(*Domain).FFT|0", f+"|(*Domain).FFTInverse|0")
		add("BitReverse permutes its argument in place (documented)", f+"|BitReverse|0")
		add("table is the output buffer of BuildExpTable", f+"|BuildExpTable|1")
	}
	for _, f := range []string{"ecc/*/fr/poseidon2", "field/*/poseidon2"} {
		add("the permutation is applied in place to input (documented)", f+"|(*Permutation).Permutation|0", f+"|(*Permutation).Permutation16x24|0")
	}
	for _, f := range []string{"ecc/*/fr/sis", "field/*/sis"} {
		add("res is the output vector of the hash", f+"|(*RSis).Hash|1")
		add("InnerHash advances the limb iterator it, accumulates into res and uses k as scratch (documented)", f+"|(*RSis).InnerHash|0", f+"|(*RSis).InnerHash|1", f+"|(*RSis).InnerHash|2")
	}
	add("res is the output codeword", "field/*/vortex|(*Params).EncodeReedSolomon|1")
	add("merkleLeaves is the output slice of the batched hash", "field/*/vortex|HashPoseidon2x16|1")
	add("pX, pY are mapped in place through the isogeny (documented: sets p to the image)", "ecc/*/hash_to_curve|G1Isogeny|0", "ecc/*/hash_to_curve|G1Isogeny|1", "ecc/*/hash_to_curve|G2Isogeny|0", "ecc/*/hash_to_curve|G2Isogeny|1")
	add("z is the destination of z = Z*x", "ecc/*/hash_to_curve|G1MulByZ|0", "ecc/*/hash_to_curve|G2MulByZ|0")
	add("z is the destination of the square-root-ratio", "ecc/*/hash_to_curve|G1SqrtRatio|0", "ecc/*/hash_to_curve|G2SqrtRatio|0")
	add("the compressed elements are decompressed in place (the slice is also returned)", "ecc/*/internal/fptower|BatchDecompressKarabina|0")
	add("result is the output digit buffer", "ecc|NafDecomposition|1")
	add("res *Lattice is the output", "ecc|PrecomputeLattice|2")
	add("the ceremony helpers scale the given representations in place (documented: 'scales g1 and g2 representations')", "ecc/*/mpcsetup|UpdateMonomialsG1|0", "ecc/*/mpcsetup|UpdateMonomialsG2|0", "ecc/*/mpcsetup|UpdateValues|0", "ecc/*/mpcsetup|UpdateValues|3")
	add("Verify records the challenge it derived in next.challenge when next carries none (setup transcript chaining by design)", "ecc/*/kzg|(*MpcSetup).Verify|0")
	add("r is the output buffer of the expression evaluation", "ecc/*/fr/iop|Evaluate|1")
	add("the ratio builders convert their entry polynomials to Lagrange/regular form in place; the denoted polynomials are unchanged (representation change only, cf. C20)", "ecc/*/fr/iop|BuildRatioCopyConstraint|0", "ecc/*/fr/iop|BuildRatioShuffledVectors|0", "ecc/*/fr/iop|BuildRatioShuffledVectors|1")
	add("p *Pool is a scratch-memory pool, its bookkeeping is its purpose", "ecc/*/fr/polynomial|(MultiLin).Evaluate|1", "ecc/*/fr/polynomial|NewPool|0")
	add("r is the remainder output of QuoRem", "field/eisenstein|(*ComplexNumber).QuoRem|2")
	return m
}
