package main

import (
	"fmt"
	"go/token"
	"go/types"
	"strings"

	"golang.org/x/tools/go/ssa"
)

// GUARD engine: "every accepting exit of fn is dominated by fact F" decided as reachability of
// the accepting returns in the SSA CFG after deleting the edges that establish F.

// Fact is a predicate established by control-flow edges.
type Fact struct {
	Name string
	// Edge reports which successor (0 = true edge, 1 = false edge) of the If establishes the
	// fact; -1 if this If does not establish it.
	Edge func(iff *ssa.If, a Atom) int
	// Ret reports that returning v itself carries the fact (delegation: `return g(...)`).
	Ret func(v ssa.Value) bool
}

type AcceptKind int

const (
	AcceptNilErr    AcceptKind = iota // last result of type error may be nil
	AcceptTrueBool                    // (first) bool result may be true
	AcceptAny                         // every normal return
	AcceptNonNilPtr                   // first pointer result may be non-nil
)

type GuardSpec struct {
	Rule   string
	Fn     *ssa.Function
	Accept AcceptKind
	Assume []Fact // edges deleted unconditionally (paths violating an assumption are not accepting paths of interest)
	Facts  []Fact
}

type acceptRet struct {
	ret   *ssa.Return
	val   ssa.Value // deciding result value (nil for AcceptAny)
	kind  AcceptKind
	deleg []string // statements carried by a delegating return, conditionals resolved (see fillDelegations)
}

func resultIndex(fn *ssa.Function, kind AcceptKind) int {
	res := fn.Signature.Results()
	switch kind {
	case AcceptNilErr:
		for i := res.Len() - 1; i >= 0; i-- {
			if isErrorType(res.At(i).Type()) {
				return i
			}
		}
	case AcceptTrueBool, AcceptFalseBool:
		for i := 0; i < res.Len(); i++ {
			if b, ok := res.At(i).Type().Underlying().(*types.Basic); ok && b.Kind() == types.Bool {
				return i
			}
		}
	case AcceptNonNilPtr:
		for i := 0; i < res.Len(); i++ {
			if _, ok := res.At(i).Type().Underlying().(*types.Pointer); ok {
				return i
			}
		}
	}
	return -1
}

func isErrorType(t types.Type) bool {
	n, ok := t.(*types.Named)
	return ok && n.Obj().Pkg() == nil && n.Obj().Name() == "error"
}

// retValue resolves the value returned in slot idx, looking through defer-spilled named results
// (load of an Alloc preceded by a store in the same block).
func retValue(ret *ssa.Return, idx int) ssa.Value {
	v := ret.Results[idx]
	if u, ok := v.(*ssa.UnOp); ok && u.Op == token.MUL {
		if a, ok := u.X.(*ssa.Alloc); ok {
			b := ret.Block()
			var last ssa.Value
			for _, in := range b.Instrs {
				if in == ssa.Instruction(u) {
					break
				}
				if st, ok := in.(*ssa.Store); ok && st.Addr == a {
					last = st.Val
				}
			}
			if last != nil {
				return last
			}
		}
	}
	return v
}

// knownNonNil: is v known non-nil at block b through a dominating `v != nil` edge.
func knownNonNilAt(v ssa.Value, b *ssa.BasicBlock) bool {
	for d := b; d != nil; d = d.Idom() {
		id := d.Idom()
		if id == nil {
			break
		}
		iff, ok := id.Instrs[len(id.Instrs)-1].(*ssa.If)
		if !ok {
			continue
		}
		a := atomOf(iff.Cond)
		if a.Kind != "nilcmp" || a.X != v {
			continue
		}
		// which successor of id leads (exclusively) to d?
		for si, s := range id.Succs {
			if s == d && len(d.Preds) == 1 {
				// atom: X==nil holds on true edge iff !Neg
				nilSide := 0
				if a.Neg {
					nilSide = 1
				}
				if si != nilSide {
					return true
				}
			}
		}
	}
	return false
}

func mayBeNilErr(v ssa.Value, at *ssa.BasicBlock, depth int) bool {
	if depth > 8 {
		return true
	}
	switch x := v.(type) {
	case *ssa.Const:
		return x.Value == nil
	case *ssa.MakeInterface:
		return false
	case *ssa.Parameter:
		if isErrorType(x.Type()) && paramNeverNilError(x) {
			return false // a sentinel handed in by every caller of this unexported helper
		}
	case *ssa.UnOp:
		if x.Op == token.MUL {
			if _, ok := x.X.(*ssa.Global); ok {
				return false // package-level sentinel error
			}
		}
	case *ssa.Call:
		cl := calleeOf(&x.Call)
		if (cl.Pkg == "errors" && (cl.Name == "New" || cl.Name == "Join")) || (cl.Pkg == "fmt" && cl.Name == "Errorf") {
			return false
		}
	case *ssa.Phi:
		for i, e := range x.Edges {
			pred := x.Block().Preds[i]
			if mayBeNilErr(e, pred, depth+1) {
				return true
			}
		}
		return false
	}
	if knownNonNilAt(v, at) {
		return false
	}
	return true
}

func mayBeFalse(v ssa.Value, depth int) bool {
	if b, ok := constBool(v); ok {
		return !b
	}
	if p, ok := v.(*ssa.Phi); ok && depth < 8 {
		for _, e := range p.Edges {
			if mayBeFalse(e, depth+1) {
				return true
			}
		}
		return false
	}
	return true
}

func mayBeTrue(v ssa.Value, depth int) bool {
	if b, ok := constBool(v); ok {
		return b
	}
	if p, ok := v.(*ssa.Phi); ok && depth < 8 {
		for _, e := range p.Edges {
			if mayBeTrue(e, depth+1) {
				return true
			}
		}
		return false
	}
	return true
}

func acceptReturns(fn *ssa.Function, kind AcceptKind) ([]acceptRet, error) {
	idx := -1
	if kind != AcceptAny {
		idx = resultIndex(fn, kind)
		if idx < 0 {
			return nil, fmt.Errorf("function %s has no result of the kind required by the accept rule", fn)
		}
	}
	var out []acceptRet
	for _, b := range fn.Blocks {
		if len(b.Instrs) == 0 {
			continue
		}
		ret, ok := b.Instrs[len(b.Instrs)-1].(*ssa.Return)
		if !ok {
			continue
		}
		if b.Index != 0 && len(b.Preds) == 0 {
			continue // recover block: not reachable by normal control flow
		}
		if kind == AcceptAny {
			out = append(out, acceptRet{ret: ret, kind: kind})
			continue
		}
		v := retValue(ret, idx)
		switch kind {
		case AcceptNilErr:
			if mayBeNilErr(v, b, 0) {
				out = append(out, acceptRet{ret: ret, val: v, kind: kind})
			}
		case AcceptTrueBool:
			if mayBeTrue(v, 0) {
				out = append(out, acceptRet{ret: ret, val: v, kind: kind})
			}
		case AcceptFalseBool:
			if mayBeFalse(v, 0) {
				out = append(out, acceptRet{ret: ret, val: v, kind: kind})
			}
		case AcceptNonNilPtr:
			if !isNilConst(v) {
				out = append(out, acceptRet{ret: ret, val: v, kind: kind})
			}
		}
	}
	return out, nil
}

// establishingEdges returns the edges of fn that establish f.
func establishingEdges(fn *ssa.Function, f Fact) map[edge]bool {
	out := map[edge]bool{}
	if f.Edge == nil {
		return out
	}
	for _, b := range fn.Blocks {
		if len(b.Instrs) == 0 {
			continue
		}
		iff, ok := b.Instrs[len(b.Instrs)-1].(*ssa.If)
		if !ok {
			continue
		}
		si := f.Edge(iff, atomOf(iff.Cond))
		if si == 0 || si == 1 {
			out[edge{b.Index, b.Succs[si].Index}] = true
		}
	}
	return out
}

// closeLoops implements the "for all i" reading: a loop every iteration of which passes an
// establishing edge also establishes the fact for whatever follows the loop, so its bypass edges
// (loop-condition exit from the header, or the rotated-loop guard in the pre-header) are deleted
// as well. Iterated to a fixpoint for nested loops. Early exits from inside the loop body that
// precede the check are kept (conservative).
func closeLoops(fn *ssa.Function, deleted map[edge]bool) {
	loops := loopsOf(fn)
	for changed := true; changed; {
		changed = false
		for _, l := range loops {
			// is the loop guarded: from header, staying inside the loop and avoiding deleted
			// edges, no back-edge source is reachable.
			seen := map[int]bool{l.header.Index: true}
			stack := []*ssa.BasicBlock{l.header}
			for len(stack) > 0 {
				b := stack[len(stack)-1]
				stack = stack[:len(stack)-1]
				for _, s := range b.Succs {
					if !l.blocks[s.Index] || deleted[edge{b.Index, s.Index}] || seen[s.Index] {
						continue
					}
					if s == l.header {
						continue
					}
					seen[s.Index] = true
					stack = append(stack, s)
				}
			}
			guarded := true
			hasDeletedInside := false
			for _, u := range l.backs {
				if seen[u.Index] && !deleted[edge{u.Index, l.header.Index}] {
					guarded = false
				}
			}
			for e := range deleted {
				if l.blocks[e.from] && l.blocks[e.to] {
					hasDeletedInside = true
				}
				// an establishing edge may also leave... no: establishing edges stay inside.
			}
			if !guarded || !hasDeletedInside {
				continue
			}
			exitTargets := map[int]bool{}
			for bi := range l.blocks {
				for _, s := range fn.Blocks[bi].Succs {
					if !l.blocks[s.Index] {
						exitTargets[s.Index] = true
					}
				}
			}
			// header exits
			for _, s := range l.header.Succs {
				if !l.blocks[s.Index] {
					e := edge{l.header.Index, s.Index}
					if !deleted[e] {
						deleted[e] = true
						changed = true
					}
				}
			}
			// zero-trip guards: a branch taken when the loop's bound is zero (`if n == 0 { return }`
			// before `for i := 0; i < n; i++`) bypasses the loop exactly like the header exit does
			if bound := loopBound(l); bound != nil {
				for _, d := range fn.Blocks {
					if l.blocks[d.Index] || len(d.Instrs) == 0 || len(d.Succs) != 2 {
						continue
					}
					iff, ok := d.Instrs[len(d.Instrs)-1].(*ssa.If)
					if !ok {
						continue
					}
					a := atomOf(iff.Cond)
					if a.Kind != "cmp" {
						continue
					}
					x, y, op := a.X, a.Y, a.Op
					if _, isC := constInt(x); isC {
						x, y, op = y, x, swapOp(op)
					}
					k, isC := constInt(y)
					if !isC || !sameValue(x, bound, 0) {
						continue
					}
					for ei := 0; ei < 2; ei++ {
						o := op
						if ei == 1 {
							o = negOp(o)
						}
						zero := (k == 0 && (o == token.EQL || o == token.LEQ)) || (k == 1 && o == token.LSS)
						if !zero {
							continue
						}
						e := edge{d.Index, d.Succs[ei].Index}
						if !deleted[e] {
							deleted[e] = true
							changed = true
						}
					}
				}
			}
			// rotated loop guard in the pre-header
			if d := l.header.Idom(); d != nil && !l.blocks[d.Index] && len(d.Succs) == 2 {
				for i, s := range d.Succs {
					o := d.Succs[1-i]
					if s == l.header && !l.blocks[o.Index] && exitTargets[o.Index] {
						e := edge{d.Index, o.Index}
						if !deleted[e] {
							deleted[e] = true
							changed = true
						}
					}
				}
			}
		}
	}
}

// RunGuard decides one GuardSpec and records one obligation per (fact).
func RunGuard(c *Ctx, p *Program, g GuardSpec) {
	fn := g.Fn
	pkg, fk := relPkg(fnPkgPath(fn)), funcKey(fn)
	c.Instance(g.Rule, 1)
	acc, err := acceptReturns(fn, g.Accept)
	if err != nil {
		c.Undecided("%s: %v", g.Rule, err)
		return
	}
	if len(acc) == 0 {
		c.Ob(g.Rule, pkg, fk, "accepting-return", p.Pos(fn.Pos()), false, "no accepting return found: the function can never succeed, or the accept rule does not recognise its returns")
		return
	}
	base := map[edge]bool{}
	for _, a := range g.Assume {
		for e := range establishingEdges(fn, a) {
			base[e] = true
		}
	}
	for _, f := range g.Facts {
		deleted := map[edge]bool{}
		for e := range base {
			deleted[e] = true
		}
		est := establishingEdges(fn, f)
		for e := range est {
			deleted[e] = true
		}
		closeLoops(fn, deleted)
		seen := reach(fn, fn.Blocks[0], deleted)
		ok := true
		var witness []string
		var pos string
		for _, a := range acc {
			if !seen[a.ret.Block().Index] {
				continue
			}
			if a.val != nil && f.Ret != nil && f.Ret(a.val) {
				continue
			}
			ok = false
			pos = p.Pos(instrPos(a.ret))
			for _, b := range pathTo(fn, a.ret.Block(), deleted) {
				var ip token.Pos
				for _, in := range b.Instrs {
					if in.Pos().IsValid() {
						ip = in.Pos()
						break
					}
				}
				witness = append(witness, fmt.Sprintf("block %d (%s) %s", b.Index, b.Comment, p.Pos(ip)))
			}
			break
		}
		msg := ""
		if !ok {
			msg = fmt.Sprintf("%s: an accepting return is reachable without establishing %s (%d establishing edge(s) recognised in the function)", fk, f.Name, len(est))
		} else {
			pos = p.Pos(fn.Pos())
		}
		c.Ob(g.Rule, pkg, fk, f.Name, pos, ok, msg, witness...)
	}
}

// ---------- fact constructors ----------

// CallPred selects call sites.
type CallPred func(cl Callee, call *ssa.Call) bool

func calleeNamed(names ...string) CallPred {
	return func(cl Callee, _ *ssa.Call) bool {
		for _, n := range names {
			if i := strings.LastIndex(n, "."); i >= 0 {
				// Recv.Name form
				if cl.Recv == n[:i] && cl.Name == n[i+1:] {
					return true
				}
				continue
			}
			if cl.Name == n {
				return true
			}
		}
		return false
	}
}

// decidingResult: index of the result whose success edge establishes Ok(call): the bool result
// when there is one, otherwise the error result; -1 when neither exists.
func decidingResult(call *ssa.Call) (idx int, isBool bool) {
	sig := call.Call.Signature()
	res := sig.Results()
	for i := 0; i < res.Len(); i++ {
		if b, ok := res.At(i).Type().Underlying().(*types.Basic); ok && b.Kind() == types.Bool {
			return i, true
		}
	}
	for i := res.Len() - 1; i >= 0; i-- {
		if isErrorType(res.At(i).Type()) {
			return i, false
		}
	}
	return -1, false
}

// OkCall: the success edge of a call selected by pred (true edge of a bool result; nil edge of
// an error result when the callee has no bool result). A direct `return g(...)` delegates.
func OkCall(name string, pred CallPred) Fact {
	match := func(call *ssa.Call, idx int) (isBool, ok bool) {
		if call == nil || !pred(calleeOf(&call.Call), call) {
			return false, false
		}
		di, b := decidingResult(call)
		if di != idx {
			return false, false
		}
		return b, true
	}
	return Fact{
		Name: name,
		Edge: func(iff *ssa.If, a Atom) int {
			switch a.Kind {
			case "call":
				if isBool, ok := match(a.Call, a.Idx); ok && isBool {
					if a.Neg {
						return 1
					}
					return 0
				}
			case "nilcmp":
				call, idx := callResult(a.X)
				if isBool, ok := match(call, idx); ok && !isBool {
					if a.Neg {
						return 1
					}
					return 0
				}
			}
			return -1
		},
		Ret: func(v ssa.Value) bool {
			call, idx := callResult(v)
			_, ok := match(call, idx)
			return ok
		},
	}
}

// CmpFact is established by an integer/pointer comparison recognised by m, which returns the
// operator under which the fact holds for the (X,Y) order given, e.g. token.EQL.
func CmpFact(name string, m func(x, y ssa.Value) (token.Token, bool)) Fact {
	return Fact{
		Name: name,
		Edge: func(iff *ssa.If, a Atom) int {
			if a.Kind != "cmp" {
				return -1
			}
			try := func(x, y ssa.Value, op token.Token) int {
				want, ok := m(x, y)
				if !ok {
					return -1
				}
				if implies(op, want) {
					return 0
				}
				if implies(negOp(op), want) {
					return 1
				}
				return -1
			}
			if r := try(a.X, a.Y, a.Op); r >= 0 {
				return r
			}
			return try(a.Y, a.X, swapOp(a.Op))
		},
	}
}

// implies: does (x op y) imply (x want y)?
func implies(op, want token.Token) bool {
	if op == want {
		return true
	}
	switch want {
	case token.LEQ:
		return op == token.LSS || op == token.EQL
	case token.GEQ:
		return op == token.GTR || op == token.EQL
	case token.NEQ:
		return op == token.LSS || op == token.GTR
	}
	return false
}

// BoolValFact: the If tests an opaque boolean value selected by m (e.g. a parameter, a field
// load); holds on the true edge when want is true.
func BoolValFact(name string, want bool, m func(v ssa.Value) bool) Fact {
	return Fact{
		Name: name,
		Edge: func(iff *ssa.If, a Atom) int {
			if a.Kind != "val" || !m(a.X) {
				return -1
			}
			holdsOnTrue := want != a.Neg
			if holdsOnTrue {
				return 0
			}
			return 1
		},
	}
}

// NilFact: X == nil (wantNil) or X != nil established for a value selected by m.
func NilFact(name string, wantNil bool, m func(v ssa.Value) bool) Fact {
	return Fact{
		Name: name,
		Edge: func(iff *ssa.If, a Atom) int {
			if a.Kind != "nilcmp" || !m(a.X) {
				return -1
			}
			nilOnTrue := !a.Neg
			if nilOnTrue == wantNil {
				return 0
			}
			return 1
		},
	}
}

// paramNamed matches values derived from the parameter with that name.
func paramNamed(name string) func(v ssa.Value) bool {
	return func(v ssa.Value) bool { return fromParam(v, name) }
}

// LenEqFact: len(a) == len(b) for values selected by the two matchers.
func LenEqFact(name string, ma, mb func(v ssa.Value) bool) Fact {
	return CmpFact(name, func(x, y ssa.Value) (token.Token, bool) {
		lx, ly := lenOf(x), lenOf(y)
		if lx == nil || ly == nil {
			return 0, false
		}
		if ma(lx) && mb(ly) {
			return token.EQL, true
		}
		return 0, false
	})
}

// loopBound: the value N of the loop test `i < N` (i the counter phi of the header), nil if the
// header does not have that form.
func loopBound(l *loopInfo) ssa.Value {
	if len(l.header.Instrs) == 0 {
		return nil
	}
	iff, ok := l.header.Instrs[len(l.header.Instrs)-1].(*ssa.If)
	if !ok {
		return nil
	}
	a := atomOf(iff.Cond)
	if a.Kind != "cmp" {
		return nil
	}
	inHeader := func(v ssa.Value) bool {
		v = stripConv(v)
		if bo, ok := v.(*ssa.BinOp); ok && bo.Op == token.ADD {
			v = stripConv(bo.X)
		}
		ph, ok := v.(*ssa.Phi)
		return ok && ph.Block() == l.header
	}
	switch {
	case (a.Op == token.LSS || a.Op == token.NEQ) && inHeader(a.X) && !inHeader(a.Y):
		return stripConv(a.Y)
	case (a.Op == token.GTR || a.Op == token.NEQ) && inHeader(a.Y) && !inHeader(a.X):
		return stripConv(a.X)
	}
	return nil
}
