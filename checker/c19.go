package main

import (
	"fmt"
	"go/types"
	"sort"
	"strings"

	"golang.org/x/tools/go/ssa"
)

func init() { register("C19", checkC19) }

// pointee returns the element type of a pointer or slice (nil otherwise).
func pointee(t types.Type) types.Type {
	switch x := t.Underlying().(type) {
	case *types.Pointer:
		return x.Elem()
	case *types.Slice:
		return t // slices: compare the slice type itself (Vector vs Vector)
	}
	return nil
}

// sameObjectType: may receiver type rt and parameter type pt designate the same object?
func sameObjectType(rt, pt types.Type) bool {
	rp, pp := pointee(rt), pointee(pt)
	if rp == nil || pp == nil {
		return false
	}
	// receiver *Vector (pointer to slice) vs parameter Vector (slice)
	if s, ok := rp.Underlying().(*types.Slice); ok {
		if ps, ok := pt.Underlying().(*types.Slice); ok {
			return types.Identical(s.Elem(), ps.Elem())
		}
	}
	return types.Identical(rp, pp)
}

// arithmeticMethods enumerates the exported methods z.Op(x, ...) whose receiver may alias an
// operand.
func arithmeticMethods(p *Program) []*ssa.Function {
	var out []*ssa.Function
	for _, fn := range p.RepoFuncs() {
		if fn.Parent() != nil || fn.Signature.Recv() == nil || fn.Object() == nil || !fn.Object().Exported() {
			continue
		}
		pk := relPkg(fnPkgPath(fn))
		if strings.HasPrefix(pk, "internal/generator") || strings.HasPrefix(pk, "field/generator") || strings.HasPrefix(pk, "field/goff") || strings.Contains(pk, "/testutils") || strings.Contains(pk, "test_vector_utils") {
			continue
		}
		if fn.Origin() != nil && fn.Origin() != fn {
			continue // instantiations are covered by their origin
		}
		if !c19Scope(pk) {
			continue
		}
		rt := fn.Signature.Recv().Type()
		if _, ok := rt.Underlying().(*types.Pointer); !ok {
			if _, ok := rt.Underlying().(*types.Slice); !ok {
				continue
			}
		}
		has := false
		for i := 1; i < len(fn.Params); i++ {
			if sameObjectType(rt, fn.Params[i].Type()) {
				has = true
			}
		}
		if has {
			out = append(out, fn)
		}
	}
	return out
}

// c19Scope: packages holding the types the property names (field elements, extension-field
// elements, points in any coordinate system, twisted-Edwards points, polynomials, vectors).
func c19Scope(pk string) bool {
	seg := strings.Split(pk, "/")
	switch {
	case len(seg) == 2 && seg[0] == "ecc" && seg[1] != "twistededwards": // curve package
		return true
	case len(seg) == 3 && seg[0] == "ecc" && (seg[2] == "fp" || seg[2] == "fr" || seg[2] == "twistededwards" || seg[2] == "bandersnatch"):
		return true
	case len(seg) == 4 && seg[0] == "ecc" && seg[2] == "internal" && seg[3] == "fptower":
		return true
	case len(seg) == 4 && seg[0] == "ecc" && seg[2] == "fr" && (seg[3] == "polynomial" || seg[3] == "iop"):
		return true
	case len(seg) == 2 && seg[0] == "field" && (seg[1] == "koalabear" || seg[1] == "babybear" || seg[1] == "goldilocks"):
		return true
	case len(seg) == 3 && seg[0] == "field" && seg[2] == "extensions":
		return true
	case pk == "field/eisenstein":
		return true
	}
	return false
}

// c19Infeasible: (family|method|param) pairs where the receiver and the operand cannot be the
// same object, with the reason (confirmed by reading).
var c19Infeasible = map[string]string{
	"ecc/*/fr/polynomial|(*Polynomial).Add|0": "the only read that follows a write of the receiver is bigger[len(smaller):] in the branch taken when p is `smaller` (identity of the first element); if p is also `bigger` both have the same length and that tail is empty, otherwise `bigger` is the other operand",
	"ecc/*/fr/polynomial|(*Polynomial).Add|1": "same as parameter 0 (the two operands are swapped into bigger/smaller)",
	"ecc/*/fr/polynomial|(*MultiLin).Eq|0":    "the receiver must hold 2^len(q) entries (guarded by a panic) while q holds len(q): n = 2^n has no solution, so the two slices are never the same object",
}

// c19Outputs: operands documented as additional destinations (index among the operands), with
// the sentence of the doc comment that says so. They are checked like the receiver (no operand is
// read after they were written) and are exempt from operand immutability.
var c19Outputs = map[string]map[int]string{
	"field/eisenstein|(*ComplexNumber).QuoRem": {2: "\"QuoRem sets z to the quotient of x and y, r to the remainder\""},
}

func checkC19(c *Ctx) {
	cfgs := []Config{K1}
	if c.Thorough() {
		cfgs = []Config{K1, K2, K3}
	}
	c.Rule("C19.haz", "EFFECTS: for every exported method z.Op(x,...) whose receiver type equals the pointee/element type of an operand: no execution writes receiver memory at path w and later reads operand memory at an overlapping path r (unless the write is the identity copy z.w = x.w) — so every read of an operand sees the caller's value even when the operand is the receiver", 1200)
	c.Rule("C19.mod", "EFFECTS: operands other than the receiver are not written (Mod(f) ∩ operand = ∅), directly or through callees", 1200)
	for _, cfg := range cfgs {
		p := mustLoad(c, cfg)
		eff := NewEffects(p)
		for _, fn := range arithmeticMethods(p) {
			checkAliasSafe(c, p, eff, fn, cfg.ID)
		}
		if cfg.ID == K1.ID {
			c.Rule("C19.subalias", "SUB-OBJECT ALIASING: in the polynomial, vector and eisenstein packages an operand passed by pointer whose type is the element type of the receiver (p.ScaleInPlace(c *Element)) may be an element of the receiver; it is never read after a receiver element was written — found and fixed: Polynomial.ScaleInPlace/Scale/AddConstantInPlace/SubConstantInPlace", 30)
			n := 0
			var hits []Finding
			for _, fn := range p.RepoFuncs() {
				if fn.Parent() != nil || fn.Signature.Recv() == nil || fn.Object() == nil || !fn.Object().Exported() || (fn.Origin() != nil && fn.Origin() != fn) {
					continue
				}
				pk := relPkg(fnPkgPath(fn))
				if !c19Scope(pk) || fn.Blocks == nil {
					continue
				}
				k, h := subObjectHazards(p, eff, fn)
				n += k
				hits = append(hits, h...)
			}
			c.Instance("C19.subalias", n)
			reportFindings(c, p, "C19.subalias", nil, hits, "")
			c.Ob("C19.subalias", "-", "-", "component-typed-operands-analysed", "-", n >= 30, "fewer component-typed operands found than confirmed on the reference tree")
		}
		for t := range eff.Trusted {
			c.Trust(t)
		}
	}
	c.Assume("assembly routines load every input limb of an element before storing the corresponding output (trusted; not analysed)")
	c.Assume("sub-object aliasing is decided for pointer operands of a component type only (C19.subalias); overlapping sub-slices of one vector are not modelled")
}

func checkAliasSafe(c *Ctx, p *Program, eff *Effects, fn *ssa.Function, cfg string) {
	pkg, fk := relPkg(fnPkgPath(fn)), funcKey(fn)
	s := eff.Summary(fn)
	c.Instance("C19.haz", 1)
	c.Instance("C19.mod", 1)
	rt := fn.Signature.Recv().Type()
	outs := c19Outputs[relPkg(fnPkgPath(fn))+"|"+strings.TrimPrefix(fk, relPkg(fnPkgPath(fn))+".")]
	for i := 1; i < len(fn.Params); i++ {
		pt := fn.Params[i].Type()
		if pointee(pt) == nil {
			continue
		}
		same := sameObjectType(rt, pt)
		if doc, isOut := outs[i-1]; isOut {
			// a second destination: no other operand may be read after it was written
			c.Note(fk + ": operand " + fn.Params[i].Name() + " is a documented destination: " + doc)
			for j := 1; j < len(fn.Params); j++ {
				if j == i || !sameObjectType(pt, fn.Params[j].Type()) {
					continue
				}
				if _, alsoOut := outs[j-1]; alsoOut {
					continue
				}
				hz := s.HazBetween(i, j)
				ok := len(hz) == 0
				msg, pos := "", p.Pos(fn.Pos())
				if !ok {
					pos = p.Pos(s.Haz[hz[0]])
					msg = fmt.Sprintf("%s [%s]: when the destination %s and the operand %s are the same object the operand is read after the destination was written (write %s%s then read %s%s)", fk, cfg, fn.Params[i].Name(), fn.Params[j].Name(), fn.Params[i].Name(), hz[0].W.Path, fn.Params[j].Name(), hz[0].R.Path)
				}
				c.Ob("C19.haz", pkg, fk, fmt.Sprintf("dest#%d-vs-param#%d", i-1, j-1), pos, ok, msg)
			}
			continue
		}
		if same {
			if reason, exc := c19Infeasible[modKey(fn, i-1)]; exc {
				c.Note(fk + ": receiver/operand identity infeasible: " + reason)
				continue
			}
			hz := s.HazBetween(0, i)
			ok := len(hz) == 0
			msg, pos := "", p.Pos(fn.Pos())
			if !ok {
				h := hz[0]
				pos = p.Pos(s.Haz[h])
				var all []string
				for _, x := range hz {
					all = append(all, fmt.Sprintf("write %s%s then read %s%s", fn.Params[0].Name(), x.W.Path, fn.Params[i].Name(), x.R.Path))
				}
				if len(all) > 4 {
					all = append(all[:4], fmt.Sprintf("… %d more", len(all)-4))
				}
				msg = fmt.Sprintf("%s [%s]: when %s and %s are the same object the operand is read after the receiver was written: %s", fk, cfg, fn.Params[0].Name(), fn.Params[i].Name(), strings.Join(all, "; "))
			}
			c.Ob("C19.haz", pkg, fk, fmt.Sprintf("recv-vs-param#%d", i-1), pos, ok, msg)
		}
		// operand immutability (all pointer/slice operands of the same family)
		if same {
			w := s.WritesRoot(i)
			ok := len(w) == 0
			msg := ""
			if !ok {
				sort.Strings(w)
				if len(w) > 4 {
					w = w[:4]
				}
				msg = fmt.Sprintf("%s [%s]: operand %s is written (paths %v)", fk, cfg, fn.Params[i].Name(), w)
			}
			c.Ob("C19.mod", pkg, fk, fmt.Sprintf("param#%d-unmodified", i-1), p.Pos(fn.Pos()), ok, msg)
		}
	}
	// two operands aliasing each other: covered by operand immutability (no writes to either).
	for _, u := range s.Unknown {
		c.Note(fk + ": " + u)
	}
}
