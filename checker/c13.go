package main

import (
	"fmt"
	"strings"

	"golang.org/x/tools/go/ssa"
)

func init() { register("C13", checkC13) }

func checkC13(c *Ctx) {
	p := mustLoad(c, K1)
	c.Rule("C13.guard", "GUARD: ExpandMsgXmd returns a nil error only with 0 <= lenInBytes, ell <= 255, len(dst) <= 255 and every hash write (padding, msg, length, dst, dst length) error-tested — msg and dst both reach the hash; <field>.Hash returns nil error only after a successful ExpandMsgXmd on (msg, dst, count*L); EncodeTo/HashTo return nil error only after a successful Hash of (msg, dst) with the RFC count", 23+1+20)
	c.Rule("C13.bounds", "BOUNDS (L12): the output buffer of ExpandMsgXmd (length chosen by the caller) is only sliced with bounds justified by its length (no panic for outputs shorter than one hash block)", 1)
	c.Rule("C13.route", "MUST-PASS: on every group that has a ClearCofactor operation, each of MapToG*, EncodeToG*, HashToG* passes its result through ClearCofactor before every return; on the curves with an isogeny (SSWU), the result of every MapToCurve call is passed through the isogeny first", 20)
	c.Rule("C13.limbs", "MONTGOMERY-LIMBS (L19): outside the field packages no limb of a field element in Montgomery form is used as a number (parity for sgn0, ordering, bit tests); only values produced by Bits()/fromMont may be inspected limb-wise. The decoder scratch byte in unsafeComputeY is a listed exception", 100)

	// constant-time selects: CMOV(a, b, v != 0) — the flag of a Select that comes from a zero test is
	// a test of one of the objects taking part in the select (the exceptional case of SSWU step 7
	// replaces -tv2 by Z exactly when tv2 vanishes)
	c.Rule("C13.select", "SELECT-FLAG: where the condition of a constant-time Select is the result of a zero test (NotZero / IsZero) of an object v, v is the destination or one of the two alternatives of that Select: the exceptional value is substituted for the quantity that vanishes, not for another one", 10)
	{
		n := 0
		var hits []Finding
		for _, fn := range libFuncs(p, propScopes["C13"]...) {
			for _, b := range fn.Blocks {
				for _, in := range b.Instrs {
					call, ok := in.(*ssa.Call)
					if !ok || len(call.Call.Args) != 4 || calleeOf(&call.Call).Name != "Select" {
						continue
					}
					flag := call.Call.Args[1]
					for {
						if cv, ok := flag.(*ssa.Convert); ok {
							flag = cv.X
							continue
						}
						break
					}
					fc, ok := flag.(*ssa.Call)
					if !ok || len(fc.Call.Args) != 1 {
						continue
					}
					nm := calleeOf(&fc.Call).Name
					if !strings.HasSuffix(nm, "NotZero") && !strings.HasSuffix(nm, "IsZero") {
						continue
					}
					n++
					v := addrBase(fc.Call.Args[0])
					if v != addrBase(call.Call.Args[0]) && v != addrBase(call.Call.Args[2]) && v != addrBase(call.Call.Args[3]) {
						hits = append(hits, Finding{fn, call.Pos(), "select-flag-tests-an-operand(" + descValue(fc.Call.Args[0], 0) + ")",
							fmt.Sprintf("%s: the Select is steered by a zero test of %s, which is neither its destination nor one of its alternatives (%s, %s): the exceptional value replaces a quantity other than the one that vanishes", funcKey(fn), descValue(fc.Call.Args[0], 0), descValue(call.Call.Args[2], 0), descValue(call.Call.Args[3], 0))})
					}
				}
			}
		}
		c.Instance("C13.select", n)
		reportFindings(c, p, "C13.select", nil, hits, "")
		c.Ob("C13.select", "-", "-", "zero-test-selects-scanned", "-", n > 0, "no Select steered by a zero test found")
	}

	if fn := p.Func("field/hash", "", "ExpandMsgXmd"); fn != nil {
		RequireFacts(c, p, "C13.guard", fn, AcceptNilErr, nil, []Req{
			{"len>=0", `^0 <= p2$`},
			{"ell<=255", `^\(\(\(.*p2\)-1\)/.*\) <= 255$`},
			{"len(dst)<=255", `^len\(p1\) <= 255$`},
			{"len-bounded-above", `^p2 <= |^p2 < `},
		})
		// what is fed to the hash: decided on the inlined view (the writes may sit in a helper such as
		// hashConcat(h, parts...)): every Write on the hash has its error tested, and msg, the contents
		// of dst, the length of dst and lenInBytes each flow into the written data
		{
			v := NewIView(fn)
			var sinks []ivValue
			unchecked := ""
			for _, x := range v.Instrs() {
				call, ok := x.in.(*ssa.Call)
				if !ok || !call.Call.IsInvoke() || call.Call.Method.Name() != "Write" || len(call.Call.Args) != 1 {
					continue
				}
				sinks = append(sinks, ivValue{x.fr, call.Call.Args[0]})
				tested := errResultTested(call)
				for fr := x.fr; tested && fr.parent != nil; fr = fr.parent {
					if sc, isCall := fr.site.(*ssa.Call); !isCall || !errResultTested(sc) {
						tested = false
					}
				}
				if !tested {
					unchecked = p.Pos(instrPos(call))
				}
			}
			pk, fk := relPkg(fnPkgPath(fn)), funcKey(fn)
			c.Ob("C13.guard", pk, fk, "hash-writes-present", p.Pos(fn.Pos()), len(sinks) >= 1, fk+": no Write on a hash found")
			c.Ob("C13.guard", pk, fk, "hash-writes-error-tested", p.Pos(fn.Pos()), unchecked == "", fk+": the error of the hash Write at "+unchecked+" (or of the helper that performs it) is not tested")
			infl := ivInfluence(v, sinks, true)
			for _, w := range []struct{ name, key string }{{"msg-hashed", "p0"}, {"dst-hashed", "p1"}, {"dst-length-hashed", "len(p1)"}, {"length-hashed", "p2"}} {
				c.Ob("C13.guard", pk, fk, w.name, p.Pos(fn.Pos()), infl[w.key], fk+": "+w.key+" does not flow into the data written to the hash (RFC 9380 expand_message_xmd hashes msg, len_in_bytes, DST and len(DST))")
			}
			// the caller's buffers are inputs only
			s := sharedEffects(p).Summary(fn)
			for i := 0; i < 2 && i < len(fn.Params); i++ {
				w := s.WritesRoot(i)
				c.Ob("C13.guard", pk, fk, "input-"+fn.Params[i].Name()+"-unmodified", p.Pos(fn.Pos()), len(w) == 0, fk+": writes its input "+fn.Params[i].Name()+" (paths "+joinStr(w)+"): appending to a caller's slice overwrites its spare capacity")
			}
		}
		sites, hits := unguardedAccesses(p, fn)
		c.Instance("C13.bounds", 1)
		_ = sites
		reportFindings(c, p, "C13.bounds", []*ssa.Function{fn}, hits, "accesses-guarded")
	} else {
		c.Undecided("anchor field/hash.ExpandMsgXmd not found")
	}
	for _, pk := range fieldPkgs(p) {
		if fn := p.Func(pk, "", "Hash"); fn != nil {
			RequireFacts(c, p, "C13.guard", fn, AcceptNilErr, nil, []Req{
				{"expanded(msg,dst,count*L)", `^noerr ExpandMsgXmd\(p0,p1,\(\d+\*p2\)\)$`},
				// count*L is the only thing ExpandMsgXmd sees: a product that wraps around looks like a
				// small request, and the make([]Element, count) that follows panics (F71)
				{"count*L-does-not-wrap", `^\(\(\d+\*p2\)/\d+\) == p2$|^p2 == \(\(\d+\*p2\)/\d+\)$|^p2 <= \d+$|^p2 < \d+$`},
			})
		} else {
			c.Undecided("anchor %s.Hash not found", pk)
		}
	}
	// hash to curve
	for _, pk := range p.FamilyPkgs("ecc/*") {
		for _, g := range []string{"1", "2"} {
			enc, hsh, mp := p.Func(pk, "", "EncodeToG"+g), p.Func(pk, "", "HashToG"+g), p.Func(pk, "", "MapToG"+g)
			if enc == nil && hsh == nil && mp == nil {
				continue
			}
			for _, fn := range []*ssa.Function{enc, hsh} {
				if fn != nil {
					RequireFacts(c, p, "C13.guard", fn, AcceptNilErr, nil, []Req{
						{"hashed-to-field(msg,dst)", `^noerr Hash\(p0,p1,\d+\)$`},
					})
				}
			}
			hasCofactor := p.Func(pk, "G"+g+"Affine", "ClearCofactor") != nil || p.Func(pk, "G"+g+"Jac", "ClearCofactor") != nil
			hasIsogeny := p.Func(pk+"/hash_to_curve", "", "G"+g+"Isogeny") != nil
			for _, fn := range []*ssa.Function{enc, hsh, mp} {
				if fn == nil {
					continue
				}
				c.Instance("C13.route", 1)
				checkRoute(c, p, fn, g, hasCofactor, hasIsogeny)
			}
		}
	}
	// L19 over the whole library (hits attributed here)
	all := libFuncs(p)
	sites, hits := montgomeryLimbReads(all)
	c.Instance("C13.limbs", sites)
	var real []Finding
	for _, h := range hits {
		if h.Fn.Name() == "unsafeComputeY" {
			continue // reads the metadata byte stored in Y[0] by unsafeSetCompressedBytes (documented scratch), not a field value
		}
		real = append(real, h)
	}
	reportFindings(c, p, "C13.limbs", nil, real, "")
	c.Ob("C13.limbs", "-", "-", "limb-reads-analysed", "-", sites > 50, "too few limb reads found (rule would be vacuous)")
	c.Assume("RFC 9380 test vectors, the SvdW/SSWU formulas, the sign convention and subgroup membership of the values are value-level: not decided")
}

// checkRoute: ClearCofactor (and the isogeny before it) on every path to a normal return.
func checkRoute(c *Ctx, p *Program, fn *ssa.Function, g string, hasCofactor, hasIsogeny bool) {
	pkg, fk := relPkg(fnPkgPath(fn)), funcKey(fn)
	// on the inlined view: an unexported helper that maps and clears (hashToG1Jac) counts as the
	// code it contains
	v := NewIView(fn)
	var clears, isos, maps []ivInstr
	deleg := map[ssa.Instruction]bool{} // helper calls standing for the clearing they contain
	for _, x := range v.Instrs() {
		call, ok := x.in.(*ssa.Call)
		if !ok {
			continue
		}
		n := calleeOf(&call.Call).Name
		switch {
		case n == "ClearCofactor":
			clears = append(clears, x)
		case n == "G"+g+"Isogeny":
			isos = append(isos, x)
		case strings.HasPrefix(n, "MapToCurve"):
			maps = append(maps, x)
		case n == "MapToG"+g:
			// delegation to the map that already clears the cofactor
			clears = append(clears, x)
			isos = append(isos, x)
			deleg[x.in] = true
		default:
			// delegation to a helper of the package every successful return of which has passed
			// through ClearCofactor (hashToG1Jac): the call stands for the clearing; the helper's
			// own map / isogeny calls are seen through the inlined view
			if cal := call.Call.StaticCallee(); cal != nil && x.fr == v.root && cal.Pkg == fn.Pkg && len(cal.Blocks) > 0 && helperClears(cal, 0) {
				clears = append(clears, x)
				deleg[x.in] = true
			}
		}
	}
	instrDominates := func(a, b ivInstr) bool { return v.Dominates(a, b) }
	// accepting returns
	accRets, _ := acceptReturns(fn, autoAccept(fn))
	type accT struct{ ret ivInstr }
	var acc []accT
	for _, r := range v.rootReturns() {
		for _, a := range accRets {
			if ssa.Instruction(a.ret) == r.in {
				acc = append(acc, accT{r})
			}
		}
	}
	if hasCofactor {
		ok := len(acc) > 0
		for _, a := range acc {
			dom := false
			for _, cl := range clears {
				if instrDominates(cl, a.ret) {
					dom = true
				}
			}
			if !dom {
				ok = false
			}
		}
		c.Ob("C13.route", pkg, fk, "cofactor-cleared-before-return", p.Pos(fn.Pos()), ok, fk+": a successful return is reachable without ClearCofactor: the result is on the curve but not necessarily in the prime-order subgroup")
	}
	if hasIsogeny {
		ok := true
		msg := ""
		if len(maps) > 0 && len(isos) < len(maps) {
			ok = false
			msg = fmt.Sprintf("%s: %d MapToCurve results but %d isogeny applications", fk, len(maps), len(isos))
		}
		for _, m := range maps {
			// the isogeny must follow the map and precede the cofactor clearing
			follow := false
			for _, i := range isos {
				if instrDominates(m, i) {
					follow = true
				}
			}
			if !follow {
				ok = false
				msg = fk + ": a MapToCurve result is not passed through the isogeny"
			}
		}
		for _, i := range isos {
			for _, cl := range clears {
				if deleg[cl.in] {
					continue // the helper's own calls are ordered inside its frame
				}
				if cl != i && instrDominates(cl, i) {
					ok = false
					msg = fk + ": ClearCofactor is applied before the isogeny"
				}
			}
		}
		c.Ob("C13.route", pkg, fk, "isogeny-after-map-before-cofactor", p.Pos(fn.Pos()), ok, msg)
	}
}

// helperClears: every accepting return of fn is dominated by a ClearCofactor call (or by a call of
// a helper of the same package for which this holds).
func helperClears(fn *ssa.Function, depth int) bool {
	if depth > 3 || len(fn.Blocks) == 0 {
		return false
	}
	var clears []*ssa.Call
	for _, b := range fn.Blocks {
		for _, in := range b.Instrs {
			call, ok := in.(*ssa.Call)
			if !ok {
				continue
			}
			if calleeOf(&call.Call).Name == "ClearCofactor" {
				clears = append(clears, call)
			} else if cal := call.Call.StaticCallee(); cal != nil && cal != fn && cal.Pkg == fn.Pkg && helperClears(cal, depth+1) {
				clears = append(clears, call)
			}
		}
	}
	acc, _ := acceptReturns(fn, autoAccept(fn))
	if len(acc) == 0 || len(clears) == 0 {
		return false
	}
	for _, a := range acc {
		dom := false
		for _, cl := range clears {
			if instrDominates(cl, a.ret) {
				dom = true
			}
		}
		if !dom {
			return false
		}
	}
	return true
}
