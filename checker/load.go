package main

import (
	"fmt"
	"go/ast"
	"go/token"
	"go/types"
	"os"
	"sort"
	"strings"
	"sync"

	"golang.org/x/tools/go/callgraph"
	"golang.org/x/tools/go/callgraph/cha"
	"golang.org/x/tools/go/callgraph/vta"
	"golang.org/x/tools/go/packages"
	"golang.org/x/tools/go/ssa"
	"golang.org/x/tools/go/ssa/ssautil"
)

const modPath = "github.com/consensys/gnark-crypto"

var repoDir = "/repo"

// Config is one build configuration of /repo.
type Config struct {
	ID     string
	GOARCH string
	Tags   string
}

var (
	K1 = Config{"K1", "amd64", ""}
	K2 = Config{"K2", "amd64", "purego"}
	K3 = Config{"K3", "arm64", ""}
	K4 = Config{"K4", "386", ""}
)

// minRootPkgs is the number of root packages confirmed by hand on the pinned tree (258);
// a load that sees fewer is a broken load, not a verdict.
const minRootPkgs = 250

// Program is the type-checked + SSA form of one configuration.
type Program struct {
	Cfg    Config
	Fset   *token.FileSet
	Roots  []*packages.Package
	ByPath map[string]*packages.Package
	Prog   *ssa.Program
	SSA    map[string]*ssa.Package
	nFuncs int

	argRoles map[argRoleKey][]argRoleSite

	cgOnce sync.Once
	cg     *callgraph.Graph

	allOnce sync.Once
	all     map[*ssa.Function]bool
}

var (
	progMu    sync.Mutex
	progCache = map[string]*Program{}
)

// Load loads (once per process) the given configuration.
func Load(cfg Config) (*Program, error) {
	progMu.Lock()
	defer progMu.Unlock()
	if p, ok := progCache[cfg.ID]; ok {
		return p, nil
	}
	env := []string{}
	for _, e := range os.Environ() {
		if strings.HasPrefix(e, "GOWORK=") || strings.HasPrefix(e, "GOFLAGS=") || strings.HasPrefix(e, "GOARCH=") || strings.HasPrefix(e, "GOOS=") {
			continue
		}
		env = append(env, e)
	}
	flags := "-mod=mod"
	if cfg.Tags != "" {
		flags += " -tags=" + cfg.Tags
	}
	env = append(env, "GOWORK=off", "GOFLAGS="+flags, "GOARCH="+cfg.GOARCH, "GOOS=linux", "GOPROXY=off", "GOSUMDB=off", "GOTOOLCHAIN=local", "CGO_ENABLED=0")
	pc := &packages.Config{
		Mode:  packages.LoadAllSyntax,
		Dir:   repoDir,
		Env:   env,
		Tests: false,
	}
	roots, err := packages.Load(pc, "./...")
	if err != nil {
		return nil, fmt.Errorf("load %s: %w", cfg.ID, err)
	}
	nerr := 0
	packages.Visit(roots, nil, func(p *packages.Package) {
		for _, e := range p.Errors {
			if nerr < 20 {
				fmt.Fprintf(os.Stderr, "LOAD-ERROR[%s] %s: %v\n", cfg.ID, p.PkgPath, e)
			}
			nerr++
		}
	})
	if nerr > 0 {
		return nil, fmt.Errorf("load %s: %d package errors (type-check failure is not a verdict)", cfg.ID, nerr)
	}
	if len(roots) < minRootPkgs {
		return nil, fmt.Errorf("load %s: only %d root packages (< %d)", cfg.ID, len(roots), minRootPkgs)
	}
	prog, _ := ssautil.AllPackages(roots, ssa.InstantiateGenerics)
	prog.Build()
	p := &Program{Cfg: cfg, Roots: roots, ByPath: map[string]*packages.Package{}, Prog: prog, SSA: map[string]*ssa.Package{}}
	if len(roots) > 0 {
		p.Fset = roots[0].Fset
	}
	for _, r := range roots {
		p.ByPath[r.PkgPath] = r
		if sp := prog.Package(r.Types); sp != nil {
			p.SSA[r.PkgPath] = sp
		}
	}
	sort.Slice(p.Roots, func(i, j int) bool { return p.Roots[i].PkgPath < p.Roots[j].PkgPath })
	progCache[cfg.ID] = p
	return p, nil
}

// AllFuncs returns every function of the program (including anonymous and instantiated ones).
func (p *Program) AllFuncs() map[*ssa.Function]bool {
	p.allOnce.Do(func() { p.all = ssautil.AllFunctions(p.Prog) })
	return p.all
}

// CallGraph returns the VTA call graph (seeded by CHA).
func (p *Program) CallGraph() *callgraph.Graph {
	p.cgOnce.Do(func() {
		p.cg = vta.CallGraph(p.AllFuncs(), cha.CallGraph(p.Prog))
	})
	return p.cg
}

// RepoFuncs returns the source functions (with bodies, incl. anonymous) of repo packages,
// sorted by position.
func (p *Program) RepoFuncs() []*ssa.Function {
	var out []*ssa.Function
	for f := range p.AllFuncs() {
		if f.Blocks == nil || f.Synthetic != "" && f.Origin() == nil {
			continue
		}
		pk := fnPkgPath(f)
		if !strings.HasPrefix(pk, modPath) {
			continue
		}
		out = append(out, f)
	}
	sort.Slice(out, func(i, j int) bool {
		a, b := out[i], out[j]
		if a.Pos() != b.Pos() {
			return a.Pos() < b.Pos()
		}
		return a.String() < b.String()
	})
	return out
}

func fnPkgPath(f *ssa.Function) string {
	for g := f; g != nil; g = g.Parent() {
		if g.Pkg != nil {
			return g.Pkg.Pkg.Path()
		}
		if o := g.Origin(); o != nil && o.Pkg != nil {
			return o.Pkg.Pkg.Path()
		}
	}
	if f.Object() != nil && f.Object().Pkg() != nil {
		return f.Object().Pkg().Path()
	}
	return ""
}

// relPkg strips the module prefix.
func relPkg(path string) string {
	if path == modPath {
		return "."
	}
	return strings.TrimPrefix(path, modPath+"/")
}

// Pos formats a position relative to the repo.
func (p *Program) Pos(pos token.Pos) string {
	if !pos.IsValid() {
		return "-"
	}
	ps := p.Fset.Position(pos)
	return fmt.Sprintf("%s:%d", strings.TrimPrefix(ps.Filename, repoDir+"/"), ps.Line)
}

// Func looks up a package-level function or method: recv=="" for functions. recv may be "T" or "*T"
// (the method set of *T is searched in both cases).
func (p *Program) Func(pkgRel, recv, name string) *ssa.Function {
	path := modPath
	if pkgRel != "." && pkgRel != "" {
		path = modPath + "/" + pkgRel
	}
	sp := p.SSA[path]
	if sp == nil {
		return nil
	}
	if recv == "" {
		return sp.Func(name)
	}
	recv = strings.TrimPrefix(recv, "*")
	m := sp.Members[recv]
	tn, ok := m.(*ssa.Type)
	if !ok {
		return nil
	}
	T := tn.Type()
	for _, t := range []types.Type{types.NewPointer(T), T} {
		ms := p.Prog.MethodSets.MethodSet(t)
		if sel := ms.Lookup(sp.Pkg, name); sel != nil {
			fn := p.Prog.MethodValue(sel)
			// unwrap pointer-receiver wrappers of value methods
			if fn != nil && fn.Synthetic != "" {
				if obj, ok := sel.Obj().(*types.Func); ok {
					if f2 := p.Prog.FuncValue(obj); f2 != nil {
						return f2
					}
				}
			}
			return fn
		}
	}
	return nil
}

// FamilyPkgs expands a pattern with one "*" path segment (e.g. "ecc/*/fr/fft") over the loaded
// root packages; patterns without "*" return themselves if loaded.
func (p *Program) FamilyPkgs(patterns ...string) []string {
	var out []string
	seen := map[string]bool{}
	for _, pat := range patterns {
		segs := strings.Split(pat, "/")
		for _, r := range p.Roots {
			rel := relPkg(r.PkgPath)
			rs := strings.Split(rel, "/")
			if len(rs) != len(segs) {
				continue
			}
			ok := true
			for i := range segs {
				if segs[i] != "*" && segs[i] != rs[i] {
					ok = false
					break
				}
			}
			if ok && !seen[rel] {
				seen[rel] = true
				out = append(out, rel)
			}
		}
	}
	sort.Strings(out)
	return out
}

// FileOf returns the *ast.File and package containing pos.
func (p *Program) FileOf(pkg *packages.Package, pos token.Pos) *ast.File {
	for _, f := range pkg.Syntax {
		if f.Pos() <= pos && pos <= f.End() {
			return f
		}
	}
	return nil
}

// funcKey is a stable name for a function: pkgRel.(Recv).Name or pkgRel.Name, anonymous functions
// get parent$n.
func funcKey(f *ssa.Function) string {
	name := f.Name()
	if o := f.Origin(); o != nil {
		name = o.Name()
	}
	if f.Parent() != nil {
		return funcKey(f.Parent()) + "$" + strings.TrimPrefix(f.Name(), f.Parent().Name()+"$")
	}
	if f.Signature != nil && f.Signature.Recv() != nil {
		t := f.Signature.Recv().Type()
		ptr := ""
		if pt, ok := t.(*types.Pointer); ok {
			t = pt.Elem()
			ptr = "*"
		}
		tn := t.String()
		if n, ok := t.(*types.Named); ok {
			tn = n.Obj().Name()
		}
		return relPkg(fnPkgPath(f)) + ".(" + ptr + tn + ")." + name
	}
	return relPkg(fnPkgPath(f)) + "." + name
}
