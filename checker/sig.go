package main

import (
	"sync"
	"strconv"
	"fmt"
	"go/token"
	"go/types"
	"sort"
	"strings"

	"golang.org/x/tools/go/ssa"
)

// Guard signatures: for a function, the set of positive statements ("facts") that hold on
// EVERY accepting path, computed by deleting, for each statement, the CFG edges on which it is
// established and testing whether an accepting return stays reachable (guard.go). Statements are
// described by provenance (parameter index + access path, callee, constant), never by local
// identifiers, text or positions, so they survive refactoring that keeps the checks.

// descValue renders v canonically. depth bounds recursion.
func descValue(v ssa.Value, depth int) string {
	if depth > 4 {
		return "_"
	}
	v = stripConv(v)
	switch x := v.(type) {
	case *ssa.Const:
		if x.Value == nil {
			return "nil"
		}
		return x.Value.ExactString()
	case *ssa.Parameter:
		return "p" + paramIndex(x)
	case *ssa.FreeVar:
		return "free:" + shortType(x.Type())
	case *ssa.Global:
		return "g:" + x.Name()
	case *ssa.Alloc:
		// a by-value parameter spilled to a cell is described as that parameter
		var prm *ssa.Parameter
		n := 0
		for _, r := range *x.Referrers() {
			if st, ok := r.(*ssa.Store); ok && st.Addr == ssa.Value(x) {
				n++
				if q, ok := st.Val.(*ssa.Parameter); ok {
					prm = q
				}
			}
		}
		if n == 1 && prm != nil {
			return "p" + paramIndex(prm)
		}
		// small local arrays (composite literals, varargs): describe the elements
		if arr, ok := x.Type().(*types.Pointer).Elem().Underlying().(*types.Array); ok && arr.Len() <= 6 && depth < 3 {
			elems := make([]string, arr.Len())
			found := false
			for _, r := range *x.Referrers() {
				ia, ok := r.(*ssa.IndexAddr)
				if !ok {
					continue
				}
				k, ok := constInt(ia.Index)
				if !ok || k < 0 || k >= arr.Len() {
					continue
				}
				for _, rr := range *ia.Referrers() {
					if st, ok := rr.(*ssa.Store); ok && st.Addr == ssa.Value(ia) {
						elems[k] = descValue(st.Val, depth+1)
						found = true
					}
				}
			}
			if found {
				return "[" + strings.Join(elems, ",") + "]"
			}
		}
		return "local:" + shortType(x.Type().(*types.Pointer).Elem())
	case *ssa.Call:
		if l := lenOf(x); l != nil {
			return "len(" + descValue(l, depth+1) + ")"
		}
		return descCall(x, depth)
	case *ssa.Extract:
		if c, ok := x.Tuple.(*ssa.Call); ok {
			return descCall(c, depth) + fmt.Sprintf("#%d", x.Index)
		}
		if lk, ok := x.Tuple.(*ssa.Lookup); ok {
			if x.Index == 1 {
				return "has(" + descValue(lk.X, depth+1) + "," + descValue(lk.Index, depth+1) + ")"
			}
			return descValue(lk.X, depth+1) + "[*]"
		}
		if ta, ok := x.Tuple.(*ssa.TypeAssert); ok {
			return fmt.Sprintf("assert(%s,%s)#%d", descValue(ta.X, depth+1), shortType(ta.AssertedType), x.Index)
		}
		return "_"
	case *ssa.FieldAddr:
		return descValue(x.X, depth) + "." + fieldName(x.X.Type(), x.Field)
	case *ssa.Field:
		return descValue(x.X, depth) + "." + fieldName(x.X.Type(), x.Field)
	case *ssa.IndexAddr:
		if k, ok := constInt(x.Index); ok {
			return fmt.Sprintf("%s[%d]", descValue(x.X, depth), k)
		}
		return descValue(x.X, depth) + "[*]"
	case *ssa.Index:
		if k, ok := constInt(x.Index); ok {
			return fmt.Sprintf("%s[%d]", descValue(x.X, depth), k)
		}
		return descValue(x.X, depth) + "[*]"
	case *ssa.Lookup:
		return descValue(x.X, depth) + "[*]"
	case *ssa.Slice:
		lo, hi := "", ""
		if x.Low != nil {
			lo = descValue(x.Low, depth+1)
		}
		if x.High != nil {
			hi = descValue(x.High, depth+1)
		}
		if lo == "" && hi == "" {
			return descValue(x.X, depth)
		}
		// s[a:][:n] is s[a:a+n]
		if in, ok := x.X.(*ssa.Slice); ok && x.Low == nil && x.High != nil && in.Low != nil && in.High == nil && in.Max == nil {
			a, okA := constInt(in.Low)
			n, okN := constInt(x.High)
			if okA && okN {
				return descValue(in.X, depth) + "[" + strconv.FormatInt(a, 10) + ":" + strconv.FormatInt(a+n, 10) + "]"
			}
			return descValue(in.X, depth) + "[" + descValue(in.Low, depth+1) + ":" + descValue(in.Low, depth+1) + "+" + hi + "]"
		}
		return descValue(x.X, depth) + "[" + lo + ":" + hi + "]"
	case *ssa.UnOp:
		switch x.Op {
		case token.MUL:
			// load: if the address is a local cell holding exactly one stored value, describe that
			if a, ok := x.X.(*ssa.Alloc); ok {
				var stored []ssa.Value
				for _, r := range *a.Referrers() {
					if st, ok := r.(*ssa.Store); ok && st.Addr == a {
						stored = append(stored, st.Val)
					}
				}
				if len(stored) == 1 {
					return descValue(stored[0], depth+1)
				}
			}
			// an unexported package-level variable set once, in init, to the result of a call
			// (var fpMod = fr.Modulus()) is that call
			if g, ok := x.X.(*ssa.Global); ok {
				if v := globalInitCall(g); v != nil && depth < 6 {
					return descValue(v, depth+1)
				}
			}
			return descValue(x.X, depth)
		case token.NOT:
			return "!" + descValue(x.X, depth+1)
		case token.SUB:
			return "-" + descValue(x.X, depth+1)
		case token.ARROW:
			return "<-" + descValue(x.X, depth+1)
		}
		return x.Op.String() + descValue(x.X, depth+1)
	case *ssa.BinOp:
		a, b := descValue(x.X, depth+1), descValue(x.Y, depth+1)
		switch x.Op {
		case token.ADD, token.MUL, token.AND, token.OR, token.XOR, token.EQL, token.NEQ:
			if b < a {
				a, b = b, a
			}
		}
		return "(" + a + x.Op.String() + b + ")"
	case *ssa.Phi:
		set := map[string]bool{}
		for _, e := range x.Edges {
			if e == ssa.Value(x) {
				continue
			}
			set[descValue(e, depth+2)] = true
		}
		var ks []string
		for k := range set {
			ks = append(ks, k)
		}
		sort.Strings(ks)
		if len(ks) == 1 {
			return ks[0]
		}
		return "phi(" + strings.Join(ks, "|") + ")"
	case *ssa.MakeSlice:
		return "make:" + shortType(x.Type())
	case *ssa.MakeMap:
		return "make:" + shortType(x.Type())
	case *ssa.Convert:
		return descValue(x.X, depth)
	case *ssa.TypeAssert:
		return descValue(x.X, depth)
	case *ssa.SliceToArrayPointer:
		return descValue(x.X, depth)
	case *ssa.MakeClosure:
		return "closure"
	case *ssa.Function:
		return "func:" + x.Name()
	case *ssa.Builtin:
		return x.Name()
	}
	return "_"
}

func paramIndex(p *ssa.Parameter) string {
	fn := p.Parent()
	for i, q := range fn.Params {
		if q == p {
			if fn.Signature.Recv() != nil {
				if i == 0 {
					return "r"
				}
				return fmt.Sprint(i - 1)
			}
			return fmt.Sprint(i)
		}
	}
	return "?"
}

var curveNames = []string{"bls12-377", "bls12-381", "bls24-315", "bls24-317", "bn254", "bw6-633", "bw6-761", "grumpkin", "secp256k1", "stark-curve", "bls12377", "bls12381", "bls24315", "bls24317", "bw6633", "bw6761", "starkcurve", "stark_curve", "koalabear", "babybear", "goldilocks", "bandersnatch"}

func shortType(t types.Type) string {
	s := types.TypeString(t, func(p *types.Package) string { return "" })
	return s
}

func descCallee(cl Callee) string {
	if cl.Built {
		return cl.Name
	}
	if cl.Recv != "" {
		return cl.Recv + "." + cl.Name
	}
	if cl.Pkg != "" && !strings.HasPrefix(cl.Pkg, modPath) {
		return cl.Pkg + "." + cl.Name
	}
	if cl.Name != "" {
		return cl.Name
	}
	return "dyn"
}

func descCall(c *ssa.Call, depth int) string {
	cl := calleeOf(&c.Call)
	// fluent setters return their receiver: `new(big.Int).SetBytes(b)` and `v.SetBytes(b); ... v`
	// are the same value and get the same description (see descAllocAt)
	if !c.Call.IsInvoke() && cl.Recv != "" && len(c.Call.Args) >= 1 && (strings.HasPrefix(cl.Name, "Set") || (cl.Pkg == "math/big" && !bigGetter[cl.Name])) {
		if al, ok := c.Call.Args[0].(*ssa.Alloc); ok && types.Identical(c.Type(), al.Type()) {
			var args []string
			for _, x := range c.Call.Args[1:] {
				args = append(args, descValue(x, depth+1))
			}
			return descValue(al, depth+1) + "<-" + cl.Name + "(" + strings.Join(args, ",") + ")"
		}
	}
	var args []string
	if c.Call.IsInvoke() {
		args = append(args, descValue(c.Call.Value, depth+1))
	}
	for _, a := range c.Call.Args {
		if al, ok := a.(*ssa.Alloc); ok && depth < 2 {
			args = append(args, descAllocAt(al, c, depth+1))
			continue
		}
		// the result of a fluent setter IS its receiver: what it holds at this point is what the
		// closest dominating setter put there (the same scratch integer checked twice, loaded with r
		// and then with s, is two different statements)
		if al := fluentBase(a, 0); al != nil && depth < 2 {
			args = append(args, descAllocAt(al, c, depth+1))
			continue
		}
		args = append(args, descValue(a, depth+1))
	}
	return descCallee(cl) + "(" + strings.Join(args, ",") + ")"
}

// fluentBase: v is (a chain of) fluent setter calls on a local cell; returns the cell.
func fluentBase(v ssa.Value, d int) *ssa.Alloc {
	c, ok := v.(*ssa.Call)
	if !ok || d > 4 || c.Call.IsInvoke() || len(c.Call.Args) == 0 {
		return nil
	}
	cl := calleeOf(&c.Call)
	if cl.Recv == "" || !(strings.HasPrefix(cl.Name, "Set") || (cl.Pkg == "math/big" && !bigGetter[cl.Name])) {
		return nil
	}
	switch r := c.Call.Args[0].(type) {
	case *ssa.Alloc:
		if types.Identical(c.Type(), r.Type()) {
			return r
		}
	case *ssa.Call:
		return fluentBase(r, d+1)
	}
	return nil
}

// descAllocAt describes a local cell at a program point by the closest dominating call that
// defined it as receiver of a Set* method (so that two checks on the same scratch variable,
// loaded with different inputs, are different statements).
func descAllocAt(a *ssa.Alloc, at ssa.Instruction, depth int) string {
	base := descValue(a, depth)
	var best *ssa.Call
	// the cell and every fluent setter result on it (which is the cell again) denote one object
	aliases := []ssa.Value{a}
	seenAlias := map[ssa.Value]bool{a: true}
	for i := 0; i < len(aliases) && i < 16; i++ {
		refs := aliases[i].Referrers()
		if refs == nil {
			continue
		}
		for _, r := range *refs {
			call, ok := r.(*ssa.Call)
			if !ok || len(call.Call.Args) == 0 || call.Call.Args[0] != aliases[i] || call.Call.IsInvoke() {
				continue
			}
			cl := calleeOf(&call.Call)
			if cl.Recv == "" || !(strings.HasPrefix(cl.Name, "Set") || (cl.Pkg == "math/big" && !bigGetter[cl.Name])) {
				continue
			}
			if types.Identical(call.Type(), a.Type()) && !seenAlias[call] {
				seenAlias[call] = true
				aliases = append(aliases, call)
			}
			if call == at || !instrDominates(call, at) {
				continue
			}
			if best == nil || instrDominates(best, call) {
				best = call
			}
		}
	}
	if best == nil {
		return base
	}
	var args []string
	for _, x := range best.Call.Args[1:] {
		args = append(args, descValue(x, depth+1))
	}
	return base + "<-" + calleeOf(&best.Call).Name + "(" + strings.Join(args, ",") + ")"
}

// descAtom renders the statement that holds on the given edge (0 = true edge) of an If with
// this atom, as a positive canonical statement; "" when the atom is not describable.
func descAtom(a Atom, edgeIdx int) string {
	holds := edgeIdx == 0 // cond true
	switch a.Kind {
	case "call":
		s := descCall(a.Call, 0)
		if n := a.Call.Call.Signature().Results().Len(); n > 1 {
			s += fmt.Sprintf("#%d", a.Idx)
		}
		if holds != a.Neg {
			return "ok " + s
		}
		return "not " + s
	case "nilcmp":
		isNil := holds != a.Neg
		if call, idx := callResult(a.X); call != nil && isErrorType(a.X.Type()) {
			s := descCall(call, 0)
			_ = idx
			if isNil {
				return "noerr " + s
			}
			return "err " + s
		}
		s := descValue(a.X, 0)
		if isNil {
			return s + " == nil"
		}
		return s + " != nil"
	case "cmp":
		op := a.Op
		if !holds {
			op = negOp(op)
		}
		x, y := descValue(a.X, 0), descValue(a.Y, 0)
		// canonical orientation: only <, <=, ==, != ; symmetric ops sorted
		switch op {
		case token.GTR:
			x, y, op = y, x, token.LSS
		case token.GEQ:
			x, y, op = y, x, token.LEQ
		}
		if (op == token.EQL || op == token.NEQ) && y < x {
			x, y = y, x
		}
		return x + " " + op.String() + " " + y
	case "val":
		s := descValue(a.X, 0)
		if s == "_" {
			return ""
		}
		if holds != a.Neg {
			return s
		}
		return "!" + s
	}
	return ""
}

func autoAccept(fn *ssa.Function) AcceptKind {
	if resultIndex(fn, AcceptNilErr) >= 0 {
		return AcceptNilErr
	}
	if resultIndex(fn, AcceptTrueBool) >= 0 {
		return AcceptTrueBool
	}
	return AcceptAny
}

// Signature is the set of statements dominating acceptance.
type Signature struct {
	Fn      *ssa.Function
	Accept  AcceptKind
	NAccept int
	Facts   map[string]bool
}

// stmtEdges groups the If edges of fn by the statement established on them.
func stmtEdges(fn *ssa.Function) map[string]map[edge]bool {
	byStmt := map[string]map[edge]bool{}
	for _, b := range fn.Blocks {
		if len(b.Instrs) == 0 {
			continue
		}
		iff, ok := b.Instrs[len(b.Instrs)-1].(*ssa.If)
		if !ok {
			continue
		}
		a := atomOf(iff.Cond)
		for ei := 0; ei < 2; ei++ {
			for _, s := range allEdgeStmts(a, ei) {
				if byStmt[s] == nil {
					byStmt[s] = map[edge]bool{}
				}
				byStmt[s][edge{b.Index, b.Succs[ei].Index}] = true
			}
		}
		// a materialised short-circuit condition (`case A || B:` of a tagless switch, `ok := A && B;
		// if ok`): phi[true, B] is false only if B is false; phi[false, B] is true only if B is true
		if a.Kind == "val" {
			if ph, isPhi := a.X.(*ssa.Phi); isPhi {
				nTrue, nFalse := 0, 0
				var rest []ssa.Value
				for _, e := range ph.Edges {
					if k, isConst := constBool(e); isConst {
						if k {
							nTrue++
						} else {
							nFalse++
						}
					} else {
						rest = append(rest, e)
					}
				}
				if len(rest) == 1 {
					if _, nested := rest[0].(*ssa.Phi); !nested {
						inner := atomOf(rest[0])
						// the only predecessor through which the phi can have the non-constant value
						var via *ssa.BasicBlock
						for i, e := range ph.Edges {
							if e == rest[0] && i < len(ph.Block().Preds) {
								via = ph.Block().Preds[i]
							}
						}
						add := func(condValue bool, innerTrue bool) {
							// the edge of this If on which the phi has the value condValue
							ei := 0
							if condValue == a.Neg {
								ei = 1
							}
							iei := 0
							if !innerTrue {
								iei = 1
							}
							put := func(s string) {
								if byStmt[s] == nil {
									byStmt[s] = map[edge]bool{}
								}
								byStmt[s][edge{b.Index, b.Succs[ei].Index}] = true
							}
							for _, s := range allEdgeStmts(inner, iei) {
								put(s)
							}
							// control came through `via`: what held there holds here (A is false when
							// A || B is false), which edge deletion alone cannot see
							for d := via; d != nil && ph.Block() == b; d = d.Idom() {
								id := d.Idom()
								if id == nil || len(d.Preds) != 1 || len(id.Instrs) == 0 {
									continue
								}
								if iff2, ok := id.Instrs[len(id.Instrs)-1].(*ssa.If); ok {
									for k, sc := range id.Succs {
										if sc == d && id.Succs[1-k] != d {
											for _, s := range allEdgeStmts(atomOf(iff2.Cond), k) {
												put(s)
											}
										}
									}
								}
							}
						}
						if nFalse == 0 && nTrue > 0 {
							add(false, false) // A || B is false: B is false
						}
						if nTrue == 0 && nFalse > 0 {
							add(true, true) // A && B is true: B is true
						}
					}
				}
			}
		}
	}
	return byStmt
}

// delegation: the statement carried by a return that hands back the result of a call.
func delegation(a acceptRet) string {
	if a.val == nil {
		return ""
	}
	if call, idx := callResult(a.val); call != nil {
		s := descCall(call, 0)
		if isErrorType(a.val.Type()) {
			return "noerr " + s
		}
		if n := call.Call.Signature().Results().Len(); n > 1 {
			s += fmt.Sprintf("#%d", idx)
		}
		return "ok " + s
	}
	// a returned comparison: the statement that makes it true
	switch a.val.(type) {
	case *ssa.BinOp, *ssa.UnOp:
		if b, ok := a.val.Type().Underlying().(*types.Basic); ok && b.Kind() == types.Bool {
			return descAtom(atomOf(a.val), 0)
		}
	}
	return ""
}

// holdsOnAccept decides whether the disjunction of the given statements holds on every
// accepting path: all their edges are deleted (plus `assume`), loops closed, and every accepting
// return must be unreachable or be a delegating return carrying one of the statements.
// Returns the surviving accepting return (nil if the obligation holds).
func holdsOnAccept(fn *ssa.Function, acc []acceptRet, byStmt map[string]map[edge]bool, stmts map[string]bool, assume map[edge]bool) (*ssa.Return, map[edge]bool) {
	deleted := map[edge]bool{}
	for e := range assume {
		deleted[e] = true
	}
	for s := range stmts {
		for e := range byStmt[s] {
			deleted[e] = true
		}
	}
	closeLoops(fn, deleted)
	seen := reach(fn, fn.Blocks[0], deleted)
	for _, a := range acc {
		if !seen[a.ret.Block().Index] {
			continue
		}
		delegated := false
		ds := a.deleg
		if ds == nil {
			ds = delegations(a, a.kind)
		}
		for _, d := range ds {
			if stmts[d] {
				delegated = true
			}
		}
		if delegated {
			continue
		}
		return a.ret, deleted
	}
	return nil, deleted
}

// guardSignature computes the statements that hold on every accepting path of fn.
func guardSignature(fn *ssa.Function, kind AcceptKind) *Signature {
	sig := &Signature{Fn: fn, Accept: kind, Facts: map[string]bool{}}
	if fn.Blocks == nil {
		return sig
	}
	acc, err := acceptReturns(fn, kind)
	if err != nil {
		return sig
	}
	sig.NAccept = len(acc)
	byStmt := stmtEdges(fn)
	cands := map[string]bool{}
	for s := range byStmt {
		cands[s] = true
	}
	for _, a := range acc {
		for _, d := range delegations(a, a.kind) {
			cands[d] = true
		}
	}
	phiDead := resultPhiModel(fn, acc, kind, byStmt)
	resolveConditionals(byStmt, nil)
	for s := range byStmt {
		cands[s] = true
	}
	for s := range cands {
		if r, _ := holdsOnAccept(fn, acc, byStmt, map[string]bool{s: true}, phiDead); r == nil && len(acc) > 0 {
			sig.Facts[s] = true
		}
	}
	return sig
}

func (s *Signature) Sorted() []string {
	var out []string
	for k := range s.Facts {
		out = append(out, k)
	}
	sort.Strings(out)
	return out
}

// normCurve replaces curve/field specific identifiers so that signatures of sibling packages
// compare equal.
func normCurve(s string) string {
	for _, c := range curveNames {
		s = strings.ReplaceAll(s, c, "CURVE")
	}
	return s
}

// loopNoise: statements about loop induction variables (phi) or undescribable values are not
// stable facts of a function.
func loopNoise(s string) bool { return strings.Contains(s, "phi(") || strings.Contains(s, "_") }

// Stable returns the facts that are not loop noise.
func (s *Signature) Stable() []string {
	var out []string
	for _, f := range s.Sorted() {
		if !loopNoise(f) {
			out = append(out, f)
		}
	}
	return out
}

// RequireFacts is the table-driven form of GUARD: each requirement is a regular expression over
// canonical statements; the disjunction of all statements of fn matching it must hold on every
// accepting path. `assume` are regexps of statements whose edges are deleted first (e.g. the
// "subgroup check disabled" arm).
type Req struct {
	Name string // stable name used in the obligation key
	Pat  string // regexp over statements
}

func RequireFacts(c *Ctx, p *Program, rule string, fn *ssa.Function, kind AcceptKind, assume []string, reqs []Req) {
	pkg, fk := relPkg(fnPkgPath(fn)), funcKey(fn)
	c.Instance(rule, 1)
	acc, err := acceptReturns(fn, kind)
	if err != nil {
		c.Undecided("%s %s: %v", rule, fk, err)
		return
	}
	if len(acc) == 0 {
		c.Ob(rule, pkg, fk, "accepting-return", p.Pos(fn.Pos()), false, fk+": no accepting return recognised")
		return
	}
	byStmt := stmtEdges(fn)
	cands := map[string]bool{}
	for s := range byStmt {
		cands[s] = true
	}
	fillDelegations(acc, assume)
	for _, a := range acc {
		for _, d := range a.deleg {
			cands[d] = true
		}
	}
	phiDead := resultPhiModel(fn, acc, kind, byStmt)
	resolveConditionals(byStmt, assume)
	for s := range byStmt {
		cands[s] = true
	}
	assumed := map[edge]bool{}
	for e := range phiDead {
		assumed[e] = true
	}
	for _, pat := range assume {
		re := mustRe(pat)
		for s := range byStmt {
			if re.MatchString(s) {
				for e := range byStmt[s] {
					assumed[e] = true
				}
			}
		}
	}
	for _, r := range reqs {
		re := mustRe(r.Pat)
		stmts := map[string]bool{}
		for s := range cands {
			if re.MatchString(s) {
				stmts[s] = true
			}
		}
		ret, deleted := holdsOnAccept(fn, acc, byStmt, stmts, assumed)
		ok := ret == nil
		msg, pos := "", p.Pos(fn.Pos())
		var witness []string
		if !ok {
			pos = p.Pos(instrPos(ret))
			var ms []string
			for s := range stmts {
				ms = append(ms, s)
			}
			sort.Strings(ms)
			msg = fmt.Sprintf("%s: an accepting return is reachable without establishing %s (pattern %q; statements of the function matching it: %v)", fk, r.Name, r.Pat, ms)
			for _, b := range pathTo(fn, ret.Block(), deleted) {
				var ip token.Pos
				for _, in := range b.Instrs {
					if in.Pos().IsValid() {
						ip = in.Pos()
						break
					}
				}
				witness = append(witness, fmt.Sprintf("block %d (%s) %s", b.Index, b.Comment, p.Pos(ip)))
			}
		}
		c.Ob(rule, pkg, fk, r.Name, pos, ok, msg, witness...)
	}
}

// RequireDNF: every accepting return must satisfy at least one alternative; an alternative is
// a conjunction of requirements, each decided for that return by edge deletion. One obligation
// (name) per function; the witness names the return and the alternatives' missing facts.
func RequireDNF(c *Ctx, p *Program, rule string, fn *ssa.Function, kind AcceptKind, assume []string, name string, alts [][]Req) {
	pkg, fk := relPkg(fnPkgPath(fn)), funcKey(fn)
	c.Instance(rule, 1)
	acc, err := acceptReturns(fn, kind)
	if err != nil {
		c.Undecided("%s %s: %v", rule, fk, err)
		return
	}
	if len(acc) == 0 {
		c.Ob(rule, pkg, fk, name, p.Pos(fn.Pos()), false, fk+": no accepting return recognised")
		return
	}
	byStmt := stmtEdges(fn)
	cands := map[string]bool{}
	for s := range byStmt {
		cands[s] = true
	}
	fillDelegations(acc, assume)
	for _, a := range acc {
		for _, d := range a.deleg {
			cands[d] = true
		}
	}
	phiDead := resultPhiModel(fn, acc, kind, byStmt)
	resolveConditionals(byStmt, assume)
	for s := range byStmt {
		cands[s] = true
	}
	assumed := map[edge]bool{}
	for e := range phiDead {
		assumed[e] = true
	}
	for _, pat := range assume {
		re := mustRe(pat)
		for s := range byStmt {
			if re.MatchString(s) {
				for e := range byStmt[s] {
					assumed[e] = true
				}
			}
		}
	}
	// reachable accepts under the assumptions only
	base := map[edge]bool{}
	for e := range assumed {
		base[e] = true
	}
	baseSeen := reach(fn, fn.Blocks[0], base)
	holdsFor := func(a acceptRet, r Req) bool {
		re := mustRe(r.Pat)
		stmts := map[string]bool{}
		for s := range cands {
			if re.MatchString(s) {
				stmts[s] = true
			}
		}
		ret, _ := holdsOnAccept(fn, []acceptRet{a}, byStmt, stmts, assumed)
		return ret == nil
	}
	ok := true
	msg, pos := "", p.Pos(fn.Pos())
	for _, a := range acc {
		if !baseSeen[a.ret.Block().Index] {
			continue // excluded by the assumptions
		}
		sat := false
		var missing []string
		for _, alt := range alts {
			all := true
			var miss []string
			for _, r := range alt {
				if !holdsFor(a, r) {
					all = false
					miss = append(miss, r.Name)
				}
			}
			if all {
				sat = true
				break
			}
			missing = append(missing, "{"+strings.Join(miss, ",")+"}")
		}
		if !sat {
			ok = false
			pos = p.Pos(instrPos(a.ret))
			msg = fmt.Sprintf("%s: the accepting return at %s is reachable without %s; for each admissible alternative the facts not established are %s", fk, pos, name, strings.Join(missing, " or "))
			break
		}
	}
	c.Ob(rule, pkg, fk, name, pos, ok, msg)
}

// RequireFactsAtInstr: like RequireFacts, but the statements must hold whenever control reaches
// the given instructions (e.g. "every append of a pair is guarded by not-infinity").
func RequireFactsAtInstr(c *Ctx, p *Program, rule string, fn *ssa.Function, targets []ssa.Instruction, construct string, reqs []Req) {
	pkg, fk := relPkg(fnPkgPath(fn)), funcKey(fn)
	c.Instance(rule, 1)
	if len(targets) == 0 {
		c.Ob(rule, pkg, fk, construct+":present", p.Pos(fn.Pos()), false, fk+": the instruction(s) the rule is about were not found ("+construct+")")
		return
	}
	byStmt := stmtEdges(fn)
	for _, r := range reqs {
		re := mustRe(r.Pat)
		deleted := map[edge]bool{}
		var ms []string
		for s := range byStmt {
			if re.MatchString(s) {
				ms = append(ms, s)
				for e := range byStmt[s] {
					deleted[e] = true
				}
			}
		}
		closeLoops(fn, deleted) // "for all i" facts established inside loops
		seen := reach(fn, fn.Blocks[0], deleted)
		ok := true
		pos := p.Pos(fn.Pos())
		for _, t := range targets {
			if seen[t.Block().Index] {
				ok = false
				pos = p.Pos(instrPos(t))
			}
		}
		sort.Strings(ms)
		c.Ob(rule, pkg, fk, construct+":"+r.Name, pos, ok, fmt.Sprintf("%s: %s is reachable without %s (pattern %q, matching statements %v)", fk, construct, r.Name, r.Pat, ms))
	}
}

var (
	globalInitMu   sync.Mutex
	globalInitMemo = map[*ssa.Global]ssa.Value{}
)

// globalInitCall: for an unexported global written exactly once in the whole package, by the
// package initialiser, with the result of a call: that call. nil otherwise.
func globalInitCall(g *ssa.Global) ssa.Value {
	if g.Pkg == nil || g.Object() == nil || g.Object().Exported() {
		return nil
	}
	globalInitMu.Lock()
	defer globalInitMu.Unlock()
	if v, ok := globalInitMemo[g]; ok {
		return v
	}
	var val ssa.Value
	n := 0
	for _, f := range pkgFunctions(g.Pkg) {
		for _, b := range f.Blocks {
			for _, in := range b.Instrs {
				st, ok := in.(*ssa.Store)
				if !ok || st.Addr != ssa.Value(g) {
					continue
				}
				n++
				if f.Name() == "init" {
					if c, isCall := st.Val.(*ssa.Call); isCall {
						val = c
					}
				}
			}
		}
	}
	if n != 1 {
		val = nil
	}
	globalInitMemo[g] = val
	return val
}
