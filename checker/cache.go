package main

import (
	"fmt"
	"go/types"
	"strings"

	"golang.org/x/tools/go/ssa"
)

// L-CACHE: values kept in a package-level cache (a sync.Map global: values obtained by Load or
// handed to Store, and results of the unexported getters that return them) are shared by all
// callers and all goroutines: a function that obtains one never writes through it — neither by a
// store, nor by passing it (or a local variable now holding it) to a callee that writes that
// argument's elements — and an exported function never returns it.

type cacheInfo struct {
	globals map[*ssa.Global]bool
	getters map[*ssa.Function]bool
}

func isSyncMap(t types.Type) bool {
	if pt, ok := t.(*types.Pointer); ok {
		t = pt.Elem()
	}
	return namedName(t) == "Map" && namedPkg(t) == "sync"
}

func findCaches(p *Program, fns []*ssa.Function) *cacheInfo {
	ci := &cacheInfo{globals: map[*ssa.Global]bool{}, getters: map[*ssa.Function]bool{}}
	for _, sp := range p.SSA {
		if sp == nil || !libPkg(relPkg(sp.Pkg.Path())) {
			continue
		}
		for _, m := range sp.Members {
			if g, ok := m.(*ssa.Global); ok && isSyncMap(g.Type()) {
				ci.globals[g] = true
			}
		}
	}
	// getters: functions with a return value derived from Load on a cache global, or equal to a
	// value handed to Store on one
	for changed := true; changed; {
		changed = false
		for _, fn := range fns {
			if ci.getters[fn] || fn.Blocks == nil {
				continue
			}
			t := cacheTaint(fn, ci)
			for _, b := range fn.Blocks {
				ret, ok := b.Instrs[len(b.Instrs)-1].(*ssa.Return)
				if !ok {
					continue
				}
				for _, r := range ret.Results {
					if t[r] {
						ci.getters[fn] = true
						changed = true
					}
				}
			}
		}
	}
	return ci
}

// cacheTaint: SSA values of fn that denote (or share storage with) cached objects.
func cacheTaint(fn *ssa.Function, ci *cacheInfo) map[ssa.Value]bool {
	t := map[ssa.Value]bool{}
	isCacheRecv := func(v ssa.Value) bool {
		g, ok := v.(*ssa.Global)
		return ok && ci.globals[g]
	}
	for _, b := range fn.Blocks {
		for _, in := range b.Instrs {
			call, ok := in.(*ssa.Call)
			if !ok {
				continue
			}
			cl := calleeOf(&call.Call)
			if cl.Pkg == "sync" && cl.Recv == "Map" && len(call.Call.Args) > 0 && isCacheRecv(call.Call.Args[0]) {
				switch cl.Name {
				case "Load", "LoadOrStore":
					t[call] = true
				case "Store":
					if len(call.Call.Args) == 3 {
						v := call.Call.Args[2]
						if mi, ok := v.(*ssa.MakeInterface); ok {
							v = mi.X
						}
						t[v] = true
					}
				}
			}
			if f := call.Call.StaticCallee(); f != nil && ci.getters[f] {
				t[call] = true
			}
		}
	}
	// propagate through derivations (and backwards through the pure value that was stored)
	for changed := true; changed; {
		changed = false
		mark := func(v ssa.Value) {
			if v != nil && !t[v] {
				t[v] = true
				changed = true
			}
		}
		for _, b := range fn.Blocks {
			for _, in := range b.Instrs {
				v, isVal := in.(ssa.Value)
				if !isVal {
					continue
				}
				switch x := in.(type) {
				case *ssa.Extract:
					if t[x.Tuple] && x.Index == 0 {
						mark(v)
					}
				case *ssa.TypeAssert:
					if t[x.X] {
						mark(v)
					}
				case *ssa.IndexAddr:
					if t[x.X] {
						mark(v)
					}
				case *ssa.Index:
					if t[x.X] {
						mark(v)
					}
				case *ssa.Slice:
					if t[x.X] {
						mark(v)
					}
				case *ssa.FieldAddr:
					if t[x.X] {
						mark(v)
					}
				case *ssa.UnOp:
					// loading a slice / pointer out of a cached container yields a cached object
					if t[x.X] && reachesPointerAny(x.Type()) {
						mark(v)
					}
				case *ssa.Phi:
					for _, e := range x.Edges {
						if t[e] {
							mark(v)
						}
					}
				case *ssa.ChangeType:
					if t[x.X] {
						mark(v)
					}
				case *ssa.MakeInterface:
					if t[x.X] {
						mark(v)
					}
				}
			}
		}
	}
	return t
}

// cacheViolations checks every function of fns.
func cacheViolations(p *Program, eff *Effects, fns []*ssa.Function) (*cacheInfo, int, []Finding) {
	ci := findCaches(p, fns)
	var hits []Finding
	sites := 0
	for _, fn := range fns {
		if fn.Blocks == nil {
			continue
		}
		t := cacheTaint(fn, ci)
		if len(t) == 0 {
			continue
		}
		sites++
		// locals now holding a cached object (a slice header / pointer stored into them)
		holders := map[*ssa.Alloc]bool{}
		for _, b := range fn.Blocks {
			for _, in := range b.Instrs {
				if st, ok := in.(*ssa.Store); ok && t[st.Val] && reachesPointerAny(st.Val.Type()) && fromCacheRead(st.Val, fn, ci) {
					if a, ok := st.Addr.(*ssa.Alloc); ok {
						holders[a] = true
					}
				}
			}
		}
		hits = append(hits, publishedThenWritten(p, eff, fn, ci)...)
		for _, b := range fn.Blocks {
			for _, in := range b.Instrs {
				switch x := in.(type) {
				case *ssa.Store:
					if t[x.Addr] {
						// filling a freshly computed object before it is stored is the cache's own business:
						// only objects that came OUT of the cache (Load / getter) count
						if fromCacheRead(x.Addr, fn, ci) {
							hits = append(hits, Finding{fn, x.Pos(), "cached-object-not-written(store)", fmt.Sprintf("%s: stores into an object obtained from a package-level cache: every later user of the cache sees the modified value", funcKey(fn))})
						}
					}
				case ssa.CallInstruction:
					callee := x.Common().StaticCallee()
					if callee == nil {
						continue
					}
					var cs *Summary
					if callee.Blocks == nil || !strings.HasPrefix(fnPkgPath(callee), modPath) {
						cs = eff.externalSummary(callee, Callee{Pkg: fnPkgPath(callee), Name: callee.Name()})
					} else {
						cs = eff.Summary(callee)
					}
					for i, a := range x.Common().Args {
						tainted := t[a] && fromCacheRead(a, fn, ci)
						if al, ok := a.(*ssa.Alloc); ok && holders[al] {
							tainted = true
						}
						if !tainted {
							continue
						}
						for _, w := range cs.WritesRoot(i) {
							if strings.Contains(w, "[") || (t[a] && w != ".$hdr") {
								hits = append(hits, Finding{fn, x.Pos(), "cached-object-not-written(" + callee.Name() + ")", fmt.Sprintf("%s: passes an object obtained from a package-level cache to %s, which writes it (%s): the cache is shared by all callers and goroutines, the next user gets a modified value", funcKey(fn), callee.Name(), w)})
								break
							}
						}
					}
				case *ssa.Return:
					if fn.Object() != nil && fn.Object().Exported() && fn.Parent() == nil {
						for _, r := range x.Results {
							if t[r] && fromCacheRead(r, fn, ci) {
								hits = append(hits, Finding{fn, x.Pos(), "cached-object-not-returned", fmt.Sprintf("%s: returns an object held in a package-level cache: a caller modifying its result modifies the cache", funcKey(fn))})
							}
						}
					}
				}
			}
		}
	}
	return ci, sites, hits
}

// fromCacheRead: does v derive from a Load / getter result (as opposed to the freshly computed
// value that is being put into the cache by this very function)?
func fromCacheRead(v ssa.Value, fn *ssa.Function, ci *cacheInfo) bool {
	seen := map[ssa.Value]bool{}
	var rec func(v ssa.Value, d int) bool
	rec = func(v ssa.Value, d int) bool {
		if d > 20 || seen[v] {
			return false
		}
		seen[v] = true
		switch x := v.(type) {
		case *ssa.Call:
			cl := calleeOf(&x.Call)
			if cl.Pkg == "sync" && cl.Recv == "Map" && (cl.Name == "Load" || cl.Name == "LoadOrStore") {
				return true
			}
			if f := x.Call.StaticCallee(); f != nil && ci.getters[f] {
				return true
			}
			return false
		case *ssa.Extract:
			return rec(x.Tuple, d+1)
		case *ssa.TypeAssert:
			return rec(x.X, d+1)
		case *ssa.IndexAddr:
			return rec(x.X, d+1)
		case *ssa.Index:
			return rec(x.X, d+1)
		case *ssa.Slice:
			return rec(x.X, d+1)
		case *ssa.FieldAddr:
			return rec(x.X, d+1)
		case *ssa.UnOp:
			return rec(x.X, d+1)
		case *ssa.ChangeType:
			return rec(x.X, d+1)
		case *ssa.MakeInterface:
			return rec(x.X, d+1)
		case *ssa.Phi:
			for _, e := range x.Edges {
				if rec(e, d+1) {
					return true
				}
			}
		}
		return false
	}
	return rec(v, 0)
}

// L-LEAK: an exported function does not hand out memory of a package-level variable: a returned
// slice / map / pointer whose provenance is a global lets any caller modify state shared by the
// whole process (precomputed tables, default parameters).
func globalLeaks(p *Program, fns []*ssa.Function) (int, []Finding) {
	var hits []Finding
	n := 0
	for _, fn := range fns {
		if fn.Parent() != nil || fn.Object() == nil || !fn.Object().Exported() || fn.Blocks == nil {
			continue
		}
		if recv := fn.Signature.Recv(); recv != nil {
			if nm := namedName(recv.Type()); nm == "" || !types.NewVar(0, nil, nm, nil).Exported() {
				continue
			}
		}
		res := fn.Signature.Results()
		any := false
		for i := 0; i < res.Len(); i++ {
			if reachesPointerAny(res.At(i).Type()) {
				any = true
			}
		}
		if !any {
			continue
		}
		n++
		for _, b := range fn.Blocks {
			ret, ok := b.Instrs[len(b.Instrs)-1].(*ssa.Return)
			if !ok {
				continue
			}
			for i, r := range ret.Results {
				if !reachesPointerAny(res.At(i).Type()) {
					continue
				}
				// values to examine: the result itself, or — for an array / struct built in a local —
				// the pointer-like values stored into that local
				vals := []ssa.Value{r}
				if ld, ok := r.(*ssa.UnOp); ok {
					if a := allocRoot(ld.X, 0); a != nil {
						vals = nil
						var addrs []ssa.Value
						var derived func(v ssa.Value, d int)
						derived = func(v ssa.Value, d int) {
							if d > 6 || v.Referrers() == nil {
								return
							}
							addrs = append(addrs, v)
							for _, rr := range *v.Referrers() {
								switch x := rr.(type) {
								case *ssa.FieldAddr:
									derived(x, d+1)
								case *ssa.IndexAddr:
									derived(x, d+1)
								}
							}
						}
						derived(a, 0)
						for _, ad := range addrs {
							// a component stored into an unexported field of the result cannot be reached by
							// a caller outside the package
							if fa, ok := ad.(*ssa.FieldAddr); ok {
								if fn2 := fieldName(fa.X.Type(), fa.Field); fn2 != "" && !types.NewVar(0, nil, fn2, nil).Exported() {
									continue
								}
							}
							for _, rr := range *ad.Referrers() {
								if st, ok := rr.(*ssa.Store); ok && st.Addr == ad && reachesPointerAny(st.Val.Type()) {
									vals = append(vals, st.Val)
								}
							}
						}
					}
				}
				var roots []Root
				for _, v := range vals {
					roots = append(roots, rootsOfSlice(v)...)
				}
				for _, root := range roots {
					if root.Kind == "global" && root.Glob != nil {
						// sync primitives, error values and immutable singletons are not data
						t := root.Glob.Type().(*types.Pointer).Elem()
						if isErrorType(t) || namedPkg(t) == "sync" {
							continue
						}
						hits = append(hits, Finding{fn, ret.Pos(), fmt.Sprintf("result#%d-not-a-global(%s)", i, root.Glob.Name()),
							fmt.Sprintf("%s: result #%d is (part of) the package-level variable %s: a caller that modifies what it received modifies the state every later call in the process uses", funcKey(fn), i, root.Glob.Name())})
					}
				}
			}
		}
	}
	return n, hits
}

// publishedThenWritten: an object handed to Store / LoadOrStore of a package-level cache is
// complete at that point — the function does not write through it afterwards (another goroutine
// may already have loaded it).
func publishedThenWritten(p *Program, eff *Effects, fn *ssa.Function, ci *cacheInfo) []Finding {
	var hits []Finding
	for _, b := range fn.Blocks {
		for _, in := range b.Instrs {
			pub, ok := in.(*ssa.Call)
			if !ok {
				continue
			}
			cl := calleeOf(&pub.Call)
			if !(cl.Pkg == "sync" && cl.Recv == "Map" && (cl.Name == "Store" || cl.Name == "LoadOrStore") && len(pub.Call.Args) == 3) {
				continue
			}
			if g, ok := pub.Call.Args[0].(*ssa.Global); !ok || !ci.globals[g] {
				continue
			}
			pv := pub.Call.Args[2]
			if mi, ok := pv.(*ssa.MakeInterface); ok {
				pv = mi.X
			}
			if !reachesPointerAny(pv.Type()) {
				continue
			}
			derived := map[ssa.Value]bool{pv: true}
			for changed := true; changed; {
				changed = false
				for _, bb := range fn.Blocks {
					for _, i2 := range bb.Instrs {
						v, isVal := i2.(ssa.Value)
						if !isVal || derived[v] {
							continue
						}
						var src ssa.Value
						switch x := i2.(type) {
						case *ssa.IndexAddr:
							src = x.X
						case *ssa.FieldAddr:
							src = x.X
						case *ssa.Slice:
							src = x.X
						case *ssa.ChangeType:
							src = x.X
						}
						if src != nil && derived[src] {
							derived[v] = true
							changed = true
						}
					}
				}
			}
			for _, bb := range fn.Blocks {
				for _, i2 := range bb.Instrs {
					if i2 == ssa.Instruction(pub) || !instrMayPrecede(fn, pub, i2) {
						continue
					}
					what := ""
					switch x := i2.(type) {
					case *ssa.Store:
						if derived[x.Addr] {
							what = "a store"
						}
					case ssa.CallInstruction:
						com := x.Common()
						if bi, ok := com.Value.(*ssa.Builtin); ok {
							if bi.Name() == "copy" && derived[com.Args[0]] {
								what = "copy"
							}
							continue
						}
						callee := com.StaticCallee()
						if callee == nil {
							continue
						}
						var cs *Summary
						if callee.Blocks == nil || !strings.HasPrefix(fnPkgPath(callee), modPath) {
							cs = eff.externalSummary(callee, Callee{Pkg: fnPkgPath(callee), Name: callee.Name()})
						} else {
							cs = eff.Summary(callee)
						}
						for i, a := range com.Args {
							if derived[a] && cs != nil && len(cs.WritesRoot(i)) > 0 {
								what = "the call of " + callee.Name()
							}
						}
					}
					if bi, ok := i2.(*ssa.Call); ok && what == "" {
						if b2, ok := bi.Call.Value.(*ssa.Builtin); ok && b2.Name() == "copy" && derived[bi.Call.Args[0]] {
							what = "copy"
						}
					}
					if what != "" {
						hits = append(hits, Finding{fn, i2.Pos(), "published-object-complete", fmt.Sprintf("%s: the object handed to %s of a package-level cache is written afterwards (%s): a goroutine that loads the entry in between reads a half-built value", funcKey(fn), cl.Name, what)})
					}
				}
			}
		}
	}
	return hits
}

// pooledMemoryEscapes: a function that hands an object back to a sync.Pool (Put, also deferred)
// does not return memory of that object — the object itself, a slice / pointer derived from it, or
// the pointer-like result of a method called on it (bytes.Buffer.Bytes()): the next Get may hand
// the same memory to another caller while the first still holds the result.
func pooledMemoryEscapes(p *Program, fns []*ssa.Function) (int, []Finding) {
	n := 0
	var hits []Finding
	for _, fn := range fns {
		for _, b := range fn.Blocks {
			for _, in := range b.Instrs {
				get, ok := in.(*ssa.Call)
				if !ok {
					continue
				}
				cl := calleeOf(&get.Call)
				if cl.Pkg != "sync" || cl.Recv != "Pool" || cl.Name != "Get" {
					continue
				}
				n++
				derived := map[ssa.Value]bool{get: true}
				for changed := true; changed; {
					changed = false
					for _, bb := range fn.Blocks {
						for _, i2 := range bb.Instrs {
							// results spilled to locals (named results, functions with defer)
							if st, ok := i2.(*ssa.Store); ok {
								if al, isAlloc := st.Addr.(*ssa.Alloc); isAlloc && derived[st.Val] && !derived[al] {
									derived[al] = true
									changed = true
								}
								continue
							}
							v, isVal := i2.(ssa.Value)
							if !isVal || derived[v] {
								continue
							}
							var src []ssa.Value
							switch x := i2.(type) {
							case *ssa.TypeAssert:
								src = []ssa.Value{x.X}
							case *ssa.Extract:
								src = []ssa.Value{x.Tuple}
							case *ssa.FieldAddr:
								src = []ssa.Value{x.X}
							case *ssa.IndexAddr:
								src = []ssa.Value{x.X}
							case *ssa.Slice:
								src = []ssa.Value{x.X}
							case *ssa.ChangeType:
								src = []ssa.Value{x.X}
							case *ssa.MakeInterface:
								src = []ssa.Value{x.X}
							case *ssa.UnOp:
								if reachesPointerAny(x.Type()) {
									src = []ssa.Value{x.X}
								}
							case *ssa.Phi:
								src = x.Edges
							case *ssa.Call:
								// a pointer-like result of a method on the pooled object may be its memory
								if !x.Call.IsInvoke() && len(x.Call.Args) > 0 && x.Call.Signature().Recv() != nil && reachesPointerAny(x.Type()) {
									if _, isTuple := x.Type().(*types.Tuple); !isTuple {
										src = []ssa.Value{x.Call.Args[0]}
									}
								}
							}
							for _, sv := range src {
								if derived[sv] {
									derived[v] = true
									changed = true
								}
							}
						}
					}
				}
				// handed back in this function?
				put := false
				for _, bb := range fn.Blocks {
					for _, i2 := range bb.Instrs {
						ci, ok := i2.(ssa.CallInstruction)
						if !ok {
							continue
						}
						c2 := calleeOf(ci.Common())
						if c2.Pkg == "sync" && c2.Recv == "Pool" && c2.Name == "Put" && len(ci.Common().Args) == 2 && derived[ci.Common().Args[1]] {
							put = true
						}
					}
				}
				if !put {
					continue
				}
				for _, bb := range fn.Blocks {
					ret, ok := bb.Instrs[len(bb.Instrs)-1].(*ssa.Return)
					if !ok {
						continue
					}
					for _, r := range ret.Results {
						if derived[r] && reachesPointerAny(r.Type()) {
							pos := ret.Pos()
							if !pos.IsValid() {
								pos = fn.Pos()
							}
							hits = append(hits, Finding{fn, pos, "pooled-memory-not-returned", funcKey(fn) + ": returns memory of an object that the same function hands back to a sync.Pool: the next Get gives the same memory to another caller while this result is still in use"})
						}
					}
				}
			}
		}
	}
	return n, hits
}
