package main

import (
	"fmt"
	"golang.org/x/tools/go/ssa"
	"os"
	"regexp"
	"sort"
)

func runDiscover(pat string) {
	re := regexp.MustCompile(pat)
	p, err := Load(K1)
	if err != nil {
		fmt.Println(err)
		os.Exit(2)
	}
	for _, fn := range p.RepoFuncs() {
		k := funcKey(fn)
		if !re.MatchString(k) {
			continue
		}
		kind := autoAccept(fn)
		if os.Getenv("GCV_ACCEPT") == "bool" && resultIndex(fn, AcceptTrueBool) >= 0 {
			kind = AcceptTrueBool
		}
		sig := guardSignature(fn, kind)
		fmt.Printf("%s  [%s] accept=%d nAccept=%d\n", k, p.Pos(fn.Pos()), sig.Accept, sig.NAccept)
		for _, f := range sig.Sorted() {
			fmt.Printf("    %s\n", f)
		}
		if sig.NAccept > 1 {
			acc, _ := acceptReturns(fn, sig.Accept)
			byStmt := stmtEdges(fn)
			for _, a := range acc {
				fmt.Printf("  return at %s:\n", p.Pos(instrPos(a.ret)))
				var fs []string
				for s := range byStmt {
					if r, _ := holdsOnAccept(fn, []acceptRet{a}, byStmt, map[string]bool{s: true}, nil); r == nil && !loopNoise(s) && !sig.Facts[s] {
						fs = append(fs, s)
					}
				}
				sort.Strings(fs)
				for _, f := range fs {
					fmt.Printf("      %s\n", f)
				}
			}
		}
	}
}

func runEffects(pat string) {
	re := regexp.MustCompile(pat)
	p, err := Load(K1)
	if err != nil {
		fmt.Println(err)
		os.Exit(2)
	}
	eff := NewEffects(p)
	for _, fn := range p.RepoFuncs() {
		k := funcKey(fn)
		if !re.MatchString(k) {
			continue
		}
		s := eff.Summary(fn)
		fmt.Printf("%s [%s]\n", k, p.Pos(fn.Pos()))
		var ws, rs []string
		for l, wi := range s.Writes {
			x := l.String()
			if wi.ident {
				x += " (= " + wi.src.String() + ")"
			}
			ws = append(ws, x)
		}
		for l := range s.Reads {
			rs = append(rs, l.String())
		}
		sort.Strings(ws)
		sort.Strings(rs)
		fmt.Printf("  writes: %v\n  reads: %v\n", ws, rs)
		for h, pos := range s.Haz {
			fmt.Printf("  hazard: write %s then read %s at %s\n", h.W, h.R, p.Pos(pos))
		}
		for _, u := range s.Unknown {
			fmt.Printf("  unknown: %s\n", u)
		}
		ms := eff.Must(fn)
		var uer []string
		for l := range ms.UER {
			uer = append(uer, l.String())
		}
		sort.Strings(uer)
		fmt.Printf("  mustAll: %v\n  mustAcc: %v\n  exposed-reads: %v\n", sortedLocs(ms.MustAll), sortedLocs(ms.MustAcc), uer)
	}
}

// runSetters lists setter-like methods whose receiver is not fully defined on accept or whose
// result depends on the receiver's previous contents (discovery tool for the L18 tables).
func runSetters(pat string) {
	re := regexp.MustCompile(pat)
	p, err := Load(K1)
	if err != nil {
		fmt.Println(err)
		os.Exit(2)
	}
	eff := NewEffects(p)
	for _, fn := range p.RepoFuncs() {
		if fn.Parent() != nil || fn.Signature.Recv() == nil || !libPkg(relPkg(fnPkgPath(fn))) {
			continue
		}
		k := funcKey(fn)
		if !re.MatchString(k) {
			continue
		}
		full, exposed := setterVerdict(eff, fn)
		if full && len(exposed) == 0 {
			continue
		}
		fmt.Printf("%-90s full=%v exposed=%v\n", k, full, exposed)
	}
}

// runFluent: verdicts of fluent methods (returning a pointer to their receiver type).
func runFluent(pat string) {
	re := regexp.MustCompile(pat)
	p, err := Load(K1)
	if err != nil {
		fmt.Println(err)
		os.Exit(2)
	}
	eff := NewEffects(p)
	for _, fn := range fluentMethods(p, re) {
		full, exposed := setterVerdict(eff, fn)
		fmt.Printf("%-90s full=%v exposed=%v\n", funcKey(fn), full, len(exposed) > 0)
	}
}

// runCoverageSurvey: functions reading some but not all leaves of an extension-field parameter.
func runCoverageSurvey() {
	p, err := Load(K1)
	if err != nil {
		fmt.Println(err)
		os.Exit(2)
	}
	re := regexp.MustCompile(`^E\d+$`)
	n := 0
	for _, fn := range libFuncs(p) {
		if fn.Parent() != nil {
			continue
		}
		miss := coordinateCoverage(fn)
		for pi, m := range miss {
			if !re.MatchString(namedName(elemOf(fn.Params[pi].Type()))) {
				continue
			}
			n++
			fmt.Printf("%s param %s misses %v\n", funcKey(fn), fn.Params[pi].Name(), m)
		}
	}
	fmt.Println("partial coordinate readers:", n)
}

// runGuardsDump prints the guards facet of the functions whose key matches re (debug tool).
func runGuardsDump(pattern string) {
	p, err := Load(K1)
	if err != nil {
		fmt.Println(err)
		return
	}
	re := regexp.MustCompile(pattern)
	for _, fn := range p.RepoFuncs() {
		if !re.MatchString(funcKey(fn)) {
			continue
		}
		fmt.Println(funcKey(fn))
		for _, k := range sortedKeys(guardedOps(fn, func(*ssa.Function) bool { return false })) {
			fmt.Println("   ", k)
		}
	}
}
