package main

import (
	"sort"
	"fmt"
	"os"
	"regexp"
)

func runDiscover(pat string) {
	re := regexp.MustCompile(pat)
	p, err := Load(K1)
	if err != nil {
		fmt.Println(err)
		os.Exit(2)
	}
	for _, fn := range p.RepoFuncs() {
		k := funcKey(fn)
		if !re.MatchString(k) {
			continue
		}
		sig := guardSignature(fn, autoAccept(fn))
		fmt.Printf("%s  [%s] accept=%d nAccept=%d\n", k, p.Pos(fn.Pos()), sig.Accept, sig.NAccept)
		for _, f := range sig.Sorted() {
			fmt.Printf("    %s\n", f)
		}
	}
}

func runEffects(pat string) {
	re := regexp.MustCompile(pat)
	p, err := Load(K1)
	if err != nil {
		fmt.Println(err)
		os.Exit(2)
	}
	eff := NewEffects(p)
	for _, fn := range p.RepoFuncs() {
		k := funcKey(fn)
		if !re.MatchString(k) {
			continue
		}
		s := eff.Summary(fn)
		fmt.Printf("%s [%s]\n", k, p.Pos(fn.Pos()))
		var ws, rs []string
		for l, wi := range s.Writes {
			x := l.String()
			if wi.ident {
				x += " (= " + wi.src.String() + ")"
			}
			ws = append(ws, x)
		}
		for l := range s.Reads {
			rs = append(rs, l.String())
		}
		sort.Strings(ws)
		sort.Strings(rs)
		fmt.Printf("  writes: %v\n  reads: %v\n", ws, rs)
		for h, pos := range s.Haz {
			fmt.Printf("  hazard: write %s then read %s at %s\n", h.W, h.R, p.Pos(pos))
		}
		for _, u := range s.Unknown {
			fmt.Printf("  unknown: %s\n", u)
		}
	}
}
