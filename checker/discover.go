package main

import (
	"fmt"
	"os"
	"regexp"
)

func runDiscover(pat string) {
	re := regexp.MustCompile(pat)
	p, err := Load(K1)
	if err != nil {
		fmt.Println(err)
		os.Exit(2)
	}
	for _, fn := range p.RepoFuncs() {
		k := funcKey(fn)
		if !re.MatchString(k) {
			continue
		}
		sig := guardSignature(fn, autoAccept(fn))
		fmt.Printf("%s  [%s] accept=%d nAccept=%d\n", k, p.Pos(fn.Pos()), sig.Accept, sig.NAccept)
		for _, f := range sig.Sorted() {
			fmt.Printf("    %s\n", f)
		}
	}
}
