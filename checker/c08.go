package main

import (
	"fmt"
	"go/token"
	"regexp"
	"strings"

	"golang.org/x/tools/go/ssa"
)

func init() { register("C08", checkC08) }

func fieldPkgs(p *Program) []string {
	return p.FamilyPkgs("ecc/*/fp", "ecc/*/fr", "field/koalabear", "field/babybear", "field/goldilocks")
}

func checkC08(c *Ctx) {
	p := mustLoad(c, K1)
	eff := NewEffects(p)
	pkgs := fieldPkgs(p)
	c.Rule("C08.guard", "GUARD: the strict decoders accept only canonical fixed-length encodings: ByteOrder.Element returns nil error only on the true edge of smallerThanModulus; SetBytesCanonical only with len(buf) == Bytes and a successful ByteOrder.Element; Vector.ReadFrom only after a successful ReadFull and ByteOrder.Element for every element", 23*4)
	c.Rule("C08.def", "DEFASSIGN: every Element setter (Set*, Unmarshal*, SetBytesCanonical, SetRandom) writes the whole element on every accepting return and never reads the element before writing it (the result does not depend on the receiver's previous value — e.g. a limb left over from a previous, longer value)", 23*10)
	c.Rule("C08.async", "PARALLEL-PHASE: in Vector.AsyncReadFrom the worker increments the atomic error counter when smallerThanModulus fails, and the result channel is closed without an error only if the counter is zero (a send of the error precedes close on every other path)", 23)
	c.Rule("C08.pool", "POOL: a *big.Int obtained from the scratch pool is first used as the destination of a defining operation (never read first), is not used after Put, and is neither returned nor stored; no conversion returns memory of an object (any sync.Pool) that it hands back to the pool", 100)
	c.Rule("C08.err", "ERRORS: the vector codec inspects every error of its callees and tests an error assigned in a loop before overwriting it", 23*3)
	c.Rule("C08.width", "L-WIDTH: a product of a length decoded from the input (binary.*.Uint32 ...) that is used as a slice length / bound / index is computed in int, not in the 32-bit type of the header: in uint32 the product wraps around for large headers and the payload window no longer matches the announced length (found: Vector.AsyncReadFrom, 23 packages)", 23)

	setter := regexp.MustCompile(`^(Set[A-Z]\w*|Set|Unmarshal\w*|MustSetRandom)$`)
	for _, pk := range pkgs {
		for _, bo := range []string{"bigEndian", "littleEndian"} {
			if fn := p.Func(pk, bo, "Element"); fn != nil {
				RequireFacts(c, p, "C08.guard", fn, AcceptNilErr, nil, []Req{{"Canonical(smallerThanModulus)", `^ok Element\.smallerThanModulus\(`}})
			} else {
				c.Undecided("anchor %s.%s.Element not found", pk, bo)
			}
		}
		if fn := p.Func(pk, "Element", "SetBytesCanonical"); fn != nil {
			RequireFacts(c, p, "C08.guard", fn, AcceptNilErr, nil, []Req{
				{"LenEq(Bytes)", `^\d+ == len\(p0\)$`},
				{"Canonical(ByteOrder.Element)", `^noerr (bigEndian|littleEndian|ByteOrder)\.Element\(`},
			})
		} else {
			c.Undecided("anchor %s.Element.SetBytesCanonical not found", pk)
		}
		// the lenient SetBytes takes its fast path (the fixed-width decoder applied to the whole
		// input) only for an input of exactly Bytes bytes: a longer one is a bigger integer, to be
		// reduced, not a prefix to be decoded
		if fn := p.Func(pk, "Element", "SetBytes"); fn != nil && len(fn.Blocks) > 0 {
			var decs []ssa.Instruction
			for _, b := range fn.Blocks {
				for _, in := range b.Instrs {
					if call, ok := in.(*ssa.Call); ok {
						if cl := calleeOf(&call.Call); cl.Name == "Element" && (cl.Recv == "bigEndian" || cl.Recv == "littleEndian" || cl.Recv == "ByteOrder") {
							decs = append(decs, in)
						}
					}
				}
			}
			if len(decs) > 0 {
				RequireFactsAtInstr(c, p, "C08.guard", fn, decs, "fast-path-decoder", []Req{{"LenEq(Bytes)", `^\d+ == len\(p0\)$|^len\(p0\) == \d+$`}})
			}
		}
		if fn := p.Func(pk, "Vector", "ReadFrom"); fn != nil {
			RequireFacts(c, p, "C08.guard", fn, AcceptNilErr, nil, []Req{
				{"LengthPrefixRead", `^noerr io\.ReadFull\(p0,(.*\[:4\]|local:\[4\]byte)\)`},
				{"ElementRead", `^noerr io\.ReadFull\(p0,local:\[\d+\]byte(\[:\])?\)$`},
				{"Canonical(ByteOrder.Element)", `^noerr (bigEndian|littleEndian|ByteOrder)\.Element\(`},
			})
		}
		if fn := p.Func(pk, "Vector", "AsyncReadFrom"); fn != nil {
			// kept as a thin wrapper of a generalised function (AsyncReadFromWithOptions(r, opts...)):
			// the protocol is that of the function that does the work (the reader stays parameter 0)
			if tgt, pm := thinWrapperTarget(fn); tgt != nil && pm[1] == 1 {
				fn = tgt
			}
			RequireFacts(c, p, "C08.guard", fn, AcceptNilErr, nil, []Req{
				{"LengthPrefixRead", `^noerr io\.ReadFull\(p0,(.*\[:4\]|local:\[4\]byte)\)`},
			})
			checkAsyncValidation(c, p, fn)
		}
		// setters of Element
		sp := p.SSA[modPath+"/"+pk]
		if sp == nil {
			continue
		}
		for _, fn := range libFuncs(p, pk) {
			if fn.Parent() != nil || fn.Signature.Recv() == nil || namedName(fn.Signature.Recv().Type()) != "Element" {
				continue
			}
			if _, isPtr := fn.Signature.Recv().Type().Underlying().(interface{ Elem() interface{} }); isPtr {
				_ = isPtr
			}
			if !setter.MatchString(fn.Name()) || !strings.HasPrefix(fn.Signature.Recv().Type().String(), "*") {
				continue
			}
			checkSetterDef(c, p, eff, "C08.def", fn)
		}
	}
	// pool discipline: all library functions
	all := libFuncs(p)
	nGets, hits := poolDiscipline(p, eff, all)
	{
		// and no conversion returns memory of an object it hands back to a sync.Pool
		_, esc := pooledMemoryEscapes(p, libFuncs(p, propScopes["C08"]...))
		hits = append(hits, esc...)
	}
	c.Instance("C08.pool", nGets)
	reportFindings(c, p, "C08.pool", nil, hits, "")
	c.Ob("C08.pool", "-", "-", "sites-analysed", "-", nGets > 0, "no pool.Get call site recognised")
	// codec errors in field packages
	var codec []*ssa.Function
	for _, fn := range codecFuncs(p) {
		pk := relPkg(fnPkgPath(fn))
		for _, f := range pkgs {
			if pk == f {
				codec = append(codec, fn)
			}
		}
	}
	sites, ehits := droppedErrors(p, codec)
	c.Instance("C08.err", sites)
	reportFindings(c, p, "C08.err", codec, ehits, "errors-inspected")
	{
		sites := 0
		var hits []Finding
		for _, fn := range libFuncs(p) {
			if !regexp.MustCompile(`^(ecc/[a-z0-9-]+/f[pr]|field/(koalabear|babybear|goldilocks))$`).MatchString(relPkg(fnPkgPath(fn))) {
				continue
			}
			n, h := narrowLengthArithmetic(p, fn)
			sites += n
			hits = append(hits, h...)
		}
		c.Instance("C08.width", sites)
		reportFindings(c, p, "C08.width", nil, hits, "")
		c.Ob("C08.width", "-", "-", "decoded-length-products-analysed", "-", sites >= 23, "fewer products of decoded lengths found than the 23 vector readers have")
	}
	for t := range eff.Trusted {
		c.Trust(t)
	}
	c.Assume("smallerThanModulus compares the limbs with q (value-level, covered as a constant-agreement clause in C01)")
}

// checkAsyncValidation: the worker / collector protocol of Vector.AsyncReadFrom.
func checkAsyncValidation(c *Ctx, p *Program, fn *ssa.Function) {
	pkg, fk := relPkg(fnPkgPath(fn)), funcKey(fn)
	c.Instance("C08.async", 1)
	// find the goroutine closure and, inside it, the worker closure
	var collector, worker *ssa.Function
	for _, af := range fn.AnonFuncs {
		for _, wf := range af.AnonFuncs {
			collector, worker = af, wf
		}
	}
	if collector == nil || worker == nil {
		c.Ob("C08.async", pkg, fk, "protocol-shape", p.Pos(fn.Pos()), false, fk+": goroutine + worker closure structure not recognised")
		return
	}
	// (a) worker: failing smallerThanModulus leads to atomic add
	okA := false
	var addCell ssa.Value
	for _, b := range worker.Blocks {
		for _, in := range b.Instrs {
			call, ok := in.(*ssa.Call)
			if !ok {
				continue
			}
			// the canonicity test: smallerThanModulus on the decoded limbs, or one of the strict
			// decoders of the package (ByteOrder.Element, SetBytesCanonical) whose error says the same
			switch cl := calleeOf(&call.Call); {
			case cl.Name == "smallerThanModulus":
			case cl.Name == "Element" && (cl.Recv == "bigEndian" || cl.Recv == "littleEndian" || cl.Recv == "ByteOrder"):
			case cl.Name == "SetBytesCanonical":
			default:
				continue
			}
			for _, fb := range failingSuccessors(call) {
				for _, in2 := range fb.Instrs {
					if c2, ok := in2.(*ssa.Call); ok {
						cl2 := calleeOf(&c2.Call)
						if cl2.Pkg == "sync/atomic" && strings.HasPrefix(cl2.Name, "Add") {
							okA = true
							addCell = c2.Call.Args[0]
						}
					}
				}
			}
		}
	}
	c.Ob("C08.async", pkg, fk, "worker-counts-non-canonical", p.Pos(worker.Pos()), okA, fk+": a non-canonical element (smallerThanModulus false / strict decoder error) does not increment the error counter in the parallel worker")
	// also: the store of the element happens only on the success side (the failing side returns)
	// (b) collector: close(ch) without send only if counter == 0
	okB := false
	var cell ssa.Value
	if fv, ok := addCell.(*ssa.FreeVar); ok {
		// binding in the collector
		for _, b := range collector.Blocks {
			for _, in := range b.Instrs {
				if mc, ok := in.(*ssa.MakeClosure); ok && mc.Fn == worker {
					for i, f := range worker.FreeVars {
						if f == fv {
							cell = mc.Bindings[i]
						}
					}
				}
			}
		}
	}
	if cell != nil {
		deleted := map[edge]bool{}
		var closes []*ssa.BasicBlock
		var sends []*ssa.BasicBlock
		for _, b := range collector.Blocks {
			for _, in := range b.Instrs {
				switch x := in.(type) {
				case *ssa.Send:
					sends = append(sends, b)
				case *ssa.Call:
					if bi, ok := x.Call.Value.(*ssa.Builtin); ok && bi.Name() == "close" {
						closes = append(closes, b)
					}
				}
			}
			if iff, ok := b.Instrs[len(b.Instrs)-1].(*ssa.If); ok {
				a := atomOf(iff.Cond)
				if a.Kind == "cmp" {
					readsCell := false
					if ld, ok := a.X.(*ssa.UnOp); ok && ld.X == cell {
						readsCell = true
					}
					// atomic.LoadUint64(&cell) / cell.Load() (atomic.Uint64)
					if lc, ok := stripConv(a.X).(*ssa.Call); ok && !lc.Call.IsInvoke() && len(lc.Call.Args) >= 1 && lc.Call.Args[0] == cell {
						if cl := calleeOf(&lc.Call); cl.Pkg == "sync/atomic" && strings.HasPrefix(cl.Name, "Load") {
							readsCell = true
						}
					}
					if readsCell {
						if k, ok := constInt(a.Y); ok && k == 0 {
							for ei := 0; ei < 2; ei++ {
								op := a.Op
								if ei == 1 {
									op = negOp(op)
								}
								if op == token.EQL || op == token.LEQ {
									deleted[edge{b.Index, b.Succs[ei].Index}] = true
								}
							}
						}
					}
				}
			}
		}
		// paths through a send are fine: cut them
		for _, sb := range sends {
			for _, s := range sb.Succs {
				deleted[edge{sb.Index, s.Index}] = true
			}
		}
		if len(closes) > 0 && len(sends) > 0 && len(deleted) > len(sends) {
			seen := reach(collector, collector.Blocks[0], deleted)
			okB = true
			for _, cb := range closes {
				isSendBlock := false
				for _, sb := range sends {
					if sb == cb {
						isSendBlock = true
					}
				}
				if seen[cb.Index] && !isSendBlock {
					okB = false
				}
			}
		}
	}
	c.Ob("C08.async", pkg, fk, "error-sent-before-close-unless-counter-zero", p.Pos(collector.Pos()), okB, fk+": the result channel can be closed without an error although the validation counter is non-zero")
}

// poolDiscipline implements L5 for every `Get` of a big.Int pool.
func poolDiscipline(p *Program, eff *Effects, fns []*ssa.Function) (int, []Finding) {
	n := 0
	var hits []Finding
	for _, fn := range fns {
		for _, b := range fn.Blocks {
			for _, in := range b.Instrs {
				call, ok := in.(*ssa.Call)
				if !ok {
					continue
				}
				cl := calleeOf(&call.Call)
				if cl.Name != "Get" || !(cl.Recv == "bigIntPool" || strings.HasSuffix(cl.Pkg, "field/pool")) {
					continue
				}
				if !strings.Contains(call.Type().String(), "big.Int") {
					continue
				}
				n++
				hits = append(hits, poolUse(p, eff, fn, call)...)
			}
		}
	}
	return n, hits
}

func poolUse(p *Program, eff *Effects, fn *ssa.Function, get *ssa.Call) []Finding {
	var hits []Finding
	var puts []ssa.Instruction
	type use struct {
		in    ssa.Instruction
		kind  string            // "def", "read", "put", "escape"
		entry []*ssa.BasicBlock // blocks through which the pooled value reached this use via phis (nil: directly)
	}
	var uses []use
	// collect uses through phis
	seen := map[ssa.Value]bool{}
	var entry []*ssa.BasicBlock
	var walk func(v ssa.Value)
	add := func(u use) {
		u.entry = entry
		uses = append(uses, u)
	}
	_ = add
	walk = func(v ssa.Value) {
		if seen[v] || v.Referrers() == nil {
			return
		}
		seen[v] = true
		for _, r := range *v.Referrers() {
			switch x := r.(type) {
			case *ssa.Phi:
				saved := entry
				var ent []*ssa.BasicBlock
				for i, e := range x.Edges {
					if e == v {
						ent = append(ent, x.Block().Preds[i])
					}
				}
				if entry == nil {
					entry = ent
				}
				walk(x)
				entry = saved
			case *ssa.Return:
				add(use{in: r, kind: "escape"})
			case *ssa.Store:
				if x.Val == v {
					// stored in a local cell captured by a closure or spilled: follow loads
					if a, ok := x.Addr.(*ssa.Alloc); ok {
						for _, ar := range *a.Referrers() {
							if ld, ok := ar.(*ssa.UnOp); ok && ld.Op == token.MUL {
								walk(ld)
							}
						}
					} else {
						add(use{in: r, kind: "escape"})
					}
				}
			case *ssa.MakeInterface:
				add(use{in: r, kind: "read"})
			case ssa.CallInstruction:
				cc := x.Common()
				cl := calleeOf(cc)
				switch {
				case cl.Name == "Put" && (cl.Recv == "bigIntPool" || strings.HasSuffix(cl.Pkg, "field/pool")):
					uses = append(uses, use{in: r, kind: "put"})
					if _, deferred := r.(*ssa.Defer); !deferred {
						puts = append(puts, r) // a deferred Put runs at function exit
					}
				case cl.Pkg == "math/big" && !cc.IsInvoke() && len(cc.Args) > 0 && cc.Args[0] == v && !bigGetter[cl.Name]:
					// receiver of a defining operation; also an operand?
					k := "def"
					for _, a := range cc.Args[1:] {
						if a == v {
							k = "read"
						}
					}
					add(use{in: r, kind: k})
					if val, ok := r.(ssa.Value); ok {
						walk(val) // fluent API returns the receiver
					}
				case cl.Fn != nil && cl.Fn.Blocks != nil && strings.HasPrefix(fnPkgPath(cl.Fn), modPath):
					k := "def"
					ms := eff.Must(cl.Fn)
					for i, a := range cc.Args {
						if a != v {
							continue
						}
						for l := range ms.UER {
							if l.Root == i {
								k = "read"
							}
						}
					}
					add(use{in: r, kind: k})
				default:
					add(use{in: r, kind: "read"})
				}
			default:
				add(use{in: r, kind: "read"})
			}
		}
	}
	walk(get)
	desc := "pool.Get@" + funcKey(fn)
	// first use must be a definition: no "read" use that is not dominated by a "def" use
	for _, u := range uses {
		if u.kind != "read" {
			continue
		}
		dom := false
		for _, d := range uses {
			if d.kind == "def" && d.in != u.in && instrDominates(d.in, u.in) {
				dom = true
			}
		}
		if !dom && len(u.entry) > 0 {
			// the pooled value reaches this use only through phi edges: it is enough that a
			// definition dominates the end of every such predecessor block
			all := true
			for _, eb := range u.entry {
				found := false
				for _, d := range uses {
					if d.kind == "def" && (d.in.Block() == eb || d.in.Block().Dominates(eb)) {
						found = true
					}
				}
				if !found {
					all = false
				}
			}
			dom = all
		}
		if !dom {
			hits = append(hits, Finding{fn, instrPos(u.in), "pool-read-before-defined", fmt.Sprintf("%s: a pooled *big.Int is read before any operation defines it: the value left by a previous user of the pool leaks into this call", desc)})
			break
		}
	}
	for _, u := range uses {
		if u.kind == "escape" {
			hits = append(hits, Finding{fn, instrPos(u.in), "pool-escape", fmt.Sprintf("%s: a pooled *big.Int is returned or stored and may be handed to another goroutine by the pool while still referenced", desc)})
			break
		}
	}
	for _, pt := range puts {
		for _, u := range uses {
			if u.kind == "put" || u.in == pt {
				continue
			}
			if instrDominates(pt, u.in) {
				hits = append(hits, Finding{fn, instrPos(u.in), "pool-use-after-put", fmt.Sprintf("%s: a pooled *big.Int is used after it was returned to the pool", desc)})
				return hits
			}
		}
	}
	return hits
}
