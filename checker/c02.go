package main

import (
	"fmt"
	"go/types"
	"regexp"
	"strings"

	"golang.org/x/tools/go/ssa"
)

func init() { register("C02", checkC02) }

// cofactor-one groups: membership in the prime-order subgroup is the on-curve test alone.
var c02PrimeOrder = map[string]string{
	"ecc/bn254|G1":       "BN curves: #E(Fp) = r",
	"ecc/secp256k1|G1":   "secp256k1 has prime order",
	"ecc/stark-curve|G1": "the STARK curve has prime order",
	"ecc/grumpkin|G1":    "grumpkin has prime order (cycle with bn254)",
}

// in-place operations: they read their receiver by design
var c02InPlace = regexp.MustCompile(`\)\.(AddAssign|SubAssign|DoubleAssign|AddMixed|DoubleMixed|add|addMixed|subMixed|ClearCofactor)$`)

// unexported fluent operations of the reference tree (their contracts were read there)
var c02KnownUnexported = regexp.MustCompile(`\)\.(fromJacExtended|setInfinity|phi|psi|subMixed|addMixed|add|double|doubleMixed|doubleNegMixed|mulWindowed|mulGLV|mulBySeed|unsafeFromJacExtended|scalarMulWindowed|scalarMulGLV)$`)

func checkC02(c *Ctx) {
	p := mustLoad(c, K1)
	eff := NewEffects(p)
	c.Rule("C02.member", "GUARD: IsInSubGroup returns true only on paths where the on-curve test succeeded and, for groups with a cofactor, where the order-killing equation was tested; Jacobian Equal accepts only 'both at infinity' or 'neither at infinity and scaled coordinates equal'; IsOnCurve accepts only the point at infinity or a passed curve equation", 60)
	c.Rule("C02.dispatch", "DISPATCH: in every addition routine (affine Add, Jacobian AddAssign/AddMixed, extended-Jacobian add/addMixed/subMixed) the generic chord formula is reached only after both operands were tested for infinity, and the hand-over to the doubling routine happens exactly under equality tests on computed (scaled) coordinates, never on raw projective coordinates", 90)
	c.Rule("C02.def", "DEFASSIGN: every group operation / conversion that returns its receiver defines all coordinates of the receiver on every return; operations that are not documented as in-place never read the receiver's previous coordinates (the result depends on the operands only)", 400)

	curvePkgs := p.FamilyPkgs("ecc/*")
	for _, pk := range curvePkgs {
		for _, g := range []string{"G1", "G2"} {
			jac := p.Func(pk, g+"Jac", "IsInSubGroup")
			if jac == nil {
				continue
			}
			low := strings.ToLower(g)
			_, prime := c02PrimeOrder[pk+"|"+g]
			reqs := []Req{{"on-curve", `^ok ` + g + `Jac\.IsOnCurve\(pr\)$`}}
			if !prime {
				reqs = append(reqs, Req{"killed-by-order", `^ok (` + g + `Jac\.Equal|E\d+\.IsZero|Element\.IsZero)\(local:`})
			}
			RequireFacts(c, p, "C02.member", jac, AcceptTrueBool, nil, reqs)
			if aff := p.Func(pk, g+"Affine", "IsInSubGroup"); aff != nil {
				alts := [][]Req{{{"delegates-to-jacobian", `^ok ` + g + `Jac\.IsInSubGroup\(local:` + g + `Jac`}}}
				direct := []Req{{"on-curve", `^ok ` + g + `Affine\.IsOnCurve\(pr\)$`}}
				if !prime {
					direct = append(direct, Req{"killed-by-order", `^ok ` + g + `Jac\.Equal\(local:`})
				}
				alts = append(alts, direct)
				RequireDNF(c, p, "C02.member", aff, AcceptTrueBool, nil, "membership", alts)
			}
			if eq := p.Func(pk, g+"Jac", "Equal"); eq != nil && callsNamed(eq, "FromJacobian") == 0 {
				// (stark-curve compares the affine conversions of both operands instead: hand-written variant,
				// its conversion is covered by the FromJacobian obligations)
				RequireDNF(c, p, "C02.member", eq, AcceptTrueBool, nil, "projective-equality", [][]Req{
					{{"both-infinity", `^ok \w+\.IsZero\(p0\.Z\)$`}, {"both-infinity'", `^ok \w+\.IsZero\(pr\.Z\)$`}},
					{{"neither-infinity", `^not \w+\.IsZero\(p0\.Z\)$`}, {"neither-infinity'", `^not \w+\.IsZero\(pr\.Z\)$`}, {"scaled-equal", `^ok \w+\.Equal\(local:\w+,local:\w+\)$`}},
				})
			}
			if oc := p.Func(pk, g+"Jac", "IsOnCurve"); oc != nil {
				RequireFacts(c, p, "C02.member", oc, AcceptTrueBool, nil, []Req{{"curve-equation", `^ok \w+\.Equal\(local:\w+,local:\w+\)$`}})
			}
			// ---- dispatch
			inf := func(operand string, neg bool) string {
				pre := "ok"
				if neg {
					pre = "not"
				}
				return `^` + pre + ` (` + g + `Affine\.IsInfinity\(` + operand + `\)|\w+\.IsZero\(` + operand + `\.ZZ?\))$`
			}
			type addSpec struct {
				recv, name string
				a, b       string   // operand descriptions
				eq         []string // equality facts required at the doubling hand-over
			}
			specs := []addSpec{
				{g + "Affine", "Add", "p0", "p1", []string{`^ok \w+\.Equal\(p0\.X,p1\.X\)$`, `^ok \w+\.Equal\(p0\.Y,p1\.Y\)$`}},
				{g + "Jac", "AddAssign", "pr", "p0", []string{`^ok \w+\.Equal\(local:\w+,local:\w+\)$`}},
				{g + "Jac", "AddMixed", "pr", "p0", []string{`^ok \w+\.Equal\(local:\w+,pr\.X\)$`, `^ok \w+\.Equal\(local:\w+,pr\.Y\)$`}},
				{low + "JacExtended", "add", "pr", "p0", []string{`^ok \w+\.IsZero\(local:\w+\)$`}},
				{low + "JacExtended", "addMixed", "pr", "p0", []string{`^ok \w+\.IsZero\(local:\w+\)$`}},
				{low + "JacExtended", "subMixed", "pr", "p0", []string{`^ok \w+\.IsZero\(local:\w+\)$`}},
			}
			for _, sp := range specs {
				fn := p.Func(pk, sp.recv, sp.name)
				if fn == nil {
					continue
				}
				if sp.name == "Add" && callsNamed(fn, "AddAssign") > 0 {
					// hand-written variant (stark-curve): converts to Jacobian and delegates to AddAssign,
					// whose dispatch is checked above
					c.Instance("C02.dispatch", 1)
					c.Ob("C02.dispatch", pk, funcKey(fn), "delegates-to-jacobian-addition", p.Pos(fn.Pos()), true, "")
					continue
				}
				RequireDNF(c, p, "C02.dispatch", fn, AcceptAny, nil, "infinity-tested-before-formula", [][]Req{
					{{"a-infinity", inf(sp.a, false)}},
					{{"b-infinity", inf(sp.b, false)}},
					{{"a-finite", inf(sp.a, true)}, {"b-finite", inf(sp.b, true)}},
				})
				var dbl []ssa.Instruction
				for _, b := range fn.Blocks {
					for _, in := range b.Instrs {
						if call, ok := in.(*ssa.Call); ok {
							cl := calleeOf(&call.Call)
							if strings.HasPrefix(strings.ToLower(cl.Name), "double") && (strings.HasPrefix(cl.Recv, g) || strings.HasPrefix(cl.Recv, low)) {
								dbl = append(dbl, in)
							}
						}
					}
				}
				var reqs []Req
				for i, e := range sp.eq {
					reqs = append(reqs, Req{"operands-equal#" + string(rune('0'+i)), e})
				}
				RequireFactsAtInstr(c, p, "C02.dispatch", fn, dbl, "doubling-hand-over", reqs)
			}
		}
	}
	// ---- mixed formulas assume a normalised operand
	c.Rule("C02.mixed", "MIXED-PRECONDITION: a point operation whose name says 'mixed' uses a formula that omits the Z coordinate of one operand; that operand has an affine type (no Z / ZZ coordinate), or every return of the operation lies on a decided edge of an IsOne test of that operand's Z (so that a non-normalised operand is never run through the Z=1 formula)", 40)
	for _, fn := range libFuncs(p) {
		if fn.Parent() != nil || fn.Signature.Recv() == nil || !strings.Contains(strings.ToLower(fn.Name()), "mixed") {
			continue
		}
		pk := relPkg(fnPkgPath(fn))
		if !regexp.MustCompile(`^ecc/[a-z0-9-]+(/twistededwards|/bandersnatch)?$`).MatchString(pk) {
			continue
		}
		c.Instance("C02.mixed", 1)
		affine := false
		var projIdx []int
		for i, par := range fn.Params[1:] {
			if hasZCoord(par.Type()) {
				projIdx = append(projIdx, i)
			} else if pt, ok := par.Type().(*types.Pointer); ok {
				if _, isStruct := pt.Elem().Underlying().(*types.Struct); isStruct {
					affine = true
				}
			}
		}
		if affine {
			c.Ob("C02.mixed", pk, funcKey(fn), "has-affine-operand", p.Pos(fn.Pos()), true, "")
			continue
		}
		if len(projIdx) == 0 {
			continue
		}
		var alts [][]Req
		for _, i := range projIdx {
			alts = append(alts, []Req{{"normalised", fmt.Sprintf(`^ok \w+\.IsOne\(p%d\.ZZ?\)$`, i)}}, []Req{{"not-normalised-other-formula", fmt.Sprintf(`^not \w+\.IsOne\(p%d\.ZZ?\)$`, i)}})
		}
		RequireDNF(c, p, "C02.mixed", fn, AcceptAny, nil, "Z-is-one-tested", alts)
	}

	// ---- definite assignment of fluent operations
	re := regexp.MustCompile(`^ecc/[a-z0-9-]+(/twistededwards|/bandersnatch)?\.\(\*([gG][12](Jac|Affine|JacExtended|Proj)|Point(Affine|Proj|Extended))\)\.`)
	skip := regexp.MustCompile(`\)\.(SetBytes|setBytes|Unmarshal|unsafeSetCompressedBytes|unsafeComputeY|MultiExp|Fold|msm\w*|SetString)$`) // decoders: C07; MSM: C04
	for _, fn := range fluentMethods(p, re) {
		k := funcKey(fn)
		if skip.MatchString(k) {
			continue
		}
		c.Instance("C02.def", 1)
		full, exposed := setterVerdict(eff, fn)
		pk := relPkg(fnPkgPath(fn))
		inPlace := c02InPlace.MatchString(k) || continuesInPlace(p, fn)
		// an unexported method that is not one of the operations of the reference tree is a helper
		// somebody carved out of one of them: whether it continues an in-place computation is not
		// documented anywhere, so only its callers are judged
		if fn.Object() != nil && !fn.Object().Exported() && !c02KnownUnexported.MatchString(k) {
			c.Note(k + ": unexported helper without a documented contract, judged through its callers")
			continue
		}
		if !inPlace || full {
			msg := ""
			if !full {
				msg = k + ": on some return not every coordinate of the receiver is written (definitely written: " + strings.Join(sortedLocs(eff.Must(fn).MustAcc), " ") + ")"
			}
			c.Ob("C02.def", pk, k, "receiver-fully-defined", p.Pos(fn.Pos()), full, msg)
		}
		if !inPlace {
			msg := ""
			if len(exposed) > 0 {
				if len(exposed) > 6 {
					exposed = append(exposed[:6], "…")
				}
				msg = k + ": reads coordinates of its receiver (" + strings.Join(exposed, " ") + ") before writing them although it is not an in-place operation: the result depends on the destination's previous value"
			}
			c.Ob("C02.def", pk, k, "destination-not-read-before-written", p.Pos(fn.Pos()), len(exposed) == 0, msg)
		}
	}
	for t := range eff.Trusted {
		c.Trust(t)
	}
	c.Assume("that the straight-line formulas (add-2007-bl, madd-2007-bl, dbl-2007-bl, XYZZ, Edwards unified addition) compute the group law is value-level and not decided; only their dispatch, guards, definite assignment and agreement between the 17 generated instances (C02.sibling) are")
}

func callsNamed(fn *ssa.Function, name string) int {
	n := 0
	for _, b := range fn.Blocks {
		for _, in := range b.Instrs {
			if call, ok := in.(*ssa.Call); ok && calleeOf(&call.Call).Name == name {
				n++
			}
		}
	}
	return n
}

// hasZCoord: pointer to a struct with a field Z or ZZ (projective / Jacobian / extended point).
func hasZCoord(t types.Type) bool {
	pt, ok := t.(*types.Pointer)
	if !ok {
		return false
	}
	st, ok := pt.Elem().Underlying().(*types.Struct)
	if !ok {
		return false
	}
	for i := 0; i < st.NumFields(); i++ {
		if n := st.Field(i).Name(); n == "Z" || n == "ZZ" {
			return true
		}
	}
	return false
}

// continuesInPlace: a method that is in place by contract although its name is not in the table:
// its doc comment says that the receiver is an operand ("sets p to p-a", "p = p + a", "p += a",
// "in place"). (Delegation to an in-place operation is not a criterion: p.Double(q) is
// p.Set(q).DoubleAssign() and is not in place.)
func continuesInPlace(p *Program, fn *ssa.Function) bool {
	if len(fn.Params) == 0 {
		return false
	}
	recv := fn.Params[0]
	r := regexp.QuoteMeta(recv.Name())
	if r == "" || r == "_" {
		return false
	}
	doc := funcDoc(p, fn)
	return regexp.MustCompile(`(?i)\bsets?\s+` + r + `\s+to\s+` + r + `\s*[-+*]|\b` + r + `\s*(\+=|-=|\*=)|\b` + r + `\s*(=|←|<-)\s*` + r + `\s*[-+*]|\bin[- ]place\b`).MatchString(doc)
}
