package main

import (
	"strings"
	"encoding/json"
	"flag"
	"fmt"
	"os"
	"runtime"
	"runtime/debug"
	"sort"
	"strconv"
)

// props maps a property id to the function running all rules that serve it.
var props = map[string]func(c *Ctx){}

func register(id string, f func(c *Ctx)) { props[id] = f }

func main() {
	prop := flag.String("prop", "", "property id (C01..C20)")
	tier := flag.String("tier", "", "quick|thorough (default: $VERIF_TIER or quick)")
	explain := flag.String("explain", "", "violation file to re-derive on the current tree")
	repo := flag.String("repo", "/repo", "repository root")
	vdir := flag.String("verif", "/verif", "verif root (evidence, known findings)")
	list := flag.Bool("list", false, "list properties with checks")
	discover := flag.String("discover", "", "print guard signatures of functions whose key matches this regexp (tool for building tables)")
	survey := flag.Bool("siblings", false, "print deviating sibling functions (tool for building the variant table)")
	lint := flag.String("lint", "", "run one lint (L1, L2, L7, L17) over the whole library and print its hits (debug tool)")
	setters := flag.String("setters", "", "list setter-like methods (key regexp) that do not fully define their receiver (debug tool)")
	fluent := flag.String("fluent", "", "print definite-assignment verdicts of fluent methods (key regexp; debug tool)")
	effects := flag.String("effects", "", "print mod/ref/hazard summaries of functions whose key matches this regexp (debug tool)")
	flag.Parse()
	// measured on this image: kernel-side page-fault contention makes 16 Ps slower than 8.
	if os.Getenv("GOMAXPROCS") == "" {
		runtime.GOMAXPROCS(8)
	}
	if os.Getenv("GOGC") == "" {
		debug.SetGCPercent(400)
	}
	repoDir = *repo
	verifDir = *vdir
	if strings.HasPrefix(*fluent, "GUARDS:") {
		runGuardsDump(strings.TrimPrefix(*fluent, "GUARDS:"))
		return
	}
	if *fluent == "COVERAGE" {
		runCoverageSurvey()
		return
	}
	if *survey {
		runSiblingSurvey()
		return
	}
	if *lint != "" {
		runLint(*lint)
		return
	}
	if *fluent != "" {
		runFluent(*fluent)
		return
	}
	if *setters != "" {
		runSetters(*setters)
		return
	}
	if *effects != "" {
		runEffects(*effects)
		return
	}
	if *discover != "" {
		runDiscover(*discover)
		return
	}
	if *list {
		var ids []string
		for id := range props {
			ids = append(ids, id)
		}
		sort.Strings(ids)
		for _, id := range ids {
			fmt.Println(id)
		}
		return
	}
	if *tier == "" {
		*tier = os.Getenv("VERIF_TIER")
	}
	if *tier != "thorough" {
		*tier = "quick"
	}
	seed, _ := strconv.Atoi(os.Getenv("VERIF_SEED"))
	only := ""
	if *explain != "" {
		b, err := os.ReadFile(*explain)
		if err != nil {
			fmt.Println("ERROR:", err)
			os.Exit(2)
		}
		var v struct {
			Property   string     `json:"property"`
			Obligation Obligation `json:"obligation"`
		}
		if err := json.Unmarshal(b, &v); err != nil {
			fmt.Println("ERROR:", err)
			os.Exit(2)
		}
		*prop = v.Property
		only = v.Obligation.Key
	}
	f, ok := props[*prop]
	if !ok {
		fmt.Printf("ERROR: no check for property %q\n", *prop)
		os.Exit(2)
	}
	c := NewCtx(*prop, *tier, seed)
	c.Only = only
	code := func() (code int) {
		defer func() {
			if r := recover(); r != nil {
				fmt.Printf("UNDECIDED property=%s checker panic: %v\n%s\n", *prop, r, debug.Stack())
				code = 2
			}
		}()
		f(c)
		commonLints(c)
		runSibling(c)
		return c.Finish()
	}()
	os.Exit(code)
}

// mustLoad loads a configuration or aborts the run without a verdict.
func mustLoad(c *Ctx, cfg Config) *Program {
	p, err := Load(cfg)
	if err != nil {
		fmt.Printf("UNDECIDED property=%s %v\n", c.Prop, err)
		os.Exit(2)
	}
	c.UseProgram(p)
	return p
}
