package main

import (
	"fmt"
	"go/constant"
	"go/token"
	"go/types"
	"sort"
	"strings"

	"golang.org/x/tools/go/ssa"
)

// PARITY engine (C09): sibling implementations of one function under exclusive build
// constraints. P2: panic-precondition parity, decided by evaluating the entry decision lists of
// both variants as predicates over a finite set of slice-length assignments (lengths are only
// compared, so a small set of representatives covers every ordering w.r.t. the constants that
// occur: 0, 1, block sizes, thresholds). CPU feature flags are explored both ways.

type lenEnv struct {
	lens map[ssa.Value]int64 // slice-typed parameter (or *slice receiver) -> length
}

type outcome int

const (
	outNoPanic outcome = 1 << iota
	outPanic
)

type parityEval struct {
	p         *Program
	depth     int
	budget    int
	flags     map[string]bool // CPU feature flags (global name) -> assumed value
	seenFlags map[string]bool
}

// evalInt evaluates an integer/boolean SSA value under the environment; ok=false if unknown.
func (pe *parityEval) evalInt(v ssa.Value, env map[ssa.Value]int64, lens map[ssa.Value]int64, d int) (int64, bool) {
	if d > 20 {
		return 0, false
	}
	if k, ok := env[v]; ok {
		return k, true
	}
	switch x := v.(type) {
	case *ssa.Const:
		if x.Value == nil {
			return 0, false
		}
		switch x.Value.Kind() {
		case constant.Int:
			k, ok := constant.Int64Val(x.Value)
			if !ok {
				if u, ok := constant.Uint64Val(x.Value); ok {
					return int64(u), true
				}
			}
			return k, ok
		case constant.Bool:
			if constant.BoolVal(x.Value) {
				return 1, true
			}
			return 0, true
		}
		return 0, false
	case *ssa.Convert:
		return pe.evalInt(x.X, env, lens, d+1)
	case *ssa.ChangeType:
		return pe.evalInt(x.X, env, lens, d+1)
	case *ssa.Call:
		if l := lenOf(x); l != nil {
			if n, ok := pe.lenOfValue(l, env, lens, d+1); ok {
				return n, true
			}
			return 0, false
		}
		return pe.evalPredicate(x, env, lens, d)
	case *ssa.Phi:
		// only meaningful inside evalPredicate, which binds the phi before the value is asked for
		return 0, false
	case *ssa.UnOp:
		if x.Op == token.MUL {
			if g, ok := x.X.(*ssa.Global); ok && isCPUFlag(g) {
				name := g.Pkg.Pkg.Path() + "." + g.Name()
				if pe.seenFlags != nil {
					pe.seenFlags[name] = true
				}
				if pe.flags != nil {
					if pe.flags[name] {
						return 1, true
					}
					return 0, true
				}
			}
			return 0, false
		}
		if x.Op == token.NOT {
			if k, ok := pe.evalInt(x.X, env, lens, d+1); ok {
				return 1 - k, true
			}
		}
		if x.Op == token.SUB {
			if k, ok := pe.evalInt(x.X, env, lens, d+1); ok {
				return -k, true
			}
		}
		return 0, false
	case *ssa.BinOp:
		a, ok1 := pe.evalInt(x.X, env, lens, d+1)
		b, ok2 := pe.evalInt(x.Y, env, lens, d+1)
		if !ok1 || !ok2 {
			return 0, false
		}
		bi := func(c bool) (int64, bool) {
			if c {
				return 1, true
			}
			return 0, true
		}
		switch x.Op {
		case token.ADD:
			return a + b, true
		case token.SUB:
			return a - b, true
		case token.MUL:
			return a * b, true
		case token.QUO:
			if b == 0 {
				return 0, false
			}
			return a / b, true
		case token.REM:
			if b == 0 {
				return 0, false
			}
			return a % b, true
		case token.SHL:
			return a << uint(b), true
		case token.SHR:
			return a >> uint(b), true
		case token.AND:
			return a & b, true
		case token.OR:
			return a | b, true
		case token.EQL:
			return bi(a == b)
		case token.NEQ:
			return bi(a != b)
		case token.LSS:
			return bi(a < b)
		case token.LEQ:
			return bi(a <= b)
		case token.GTR:
			return bi(a > b)
		case token.GEQ:
			return bi(a >= b)
		}
	}
	return 0, false
}

// evalPredicate interprets a call to a small loop-free function of the module that computes an
// integer or boolean from integers, lengths and CPU flags (useAVX512(n), kernelInBounds(...)):
// its blocks are walked with the arguments bound to the parameters; unknown branch conditions make
// the result unknown.
func (pe *parityEval) evalPredicate(call *ssa.Call, env map[ssa.Value]int64, lens map[ssa.Value]int64, d int) (int64, bool) {
	callee := call.Call.StaticCallee()
	if callee == nil || callee.Blocks == nil || len(callee.Blocks) > 12 || d > 12 || !strings.HasPrefix(fnPkgPath(callee), modPath) {
		return 0, false
	}
	if callee.Signature.Results().Len() != 1 {
		return 0, false
	}
	cenv := map[ssa.Value]int64{}
	clens := map[ssa.Value]int64{}
	for i, a := range call.Call.Args {
		if i >= len(callee.Params) {
			break
		}
		if isSliceType(a.Type()) {
			if n, ok := pe.lenOfValue(a, env, lens, d+1); ok {
				clens[callee.Params[i]] = n
			}
		} else if k, ok := pe.evalInt(a, env, lens, d+1); ok {
			cenv[callee.Params[i]] = k
		}
	}
	b := callee.Blocks[0]
	var prev *ssa.BasicBlock
	for steps := 0; steps < 32; steps++ {
		for _, in := range b.Instrs {
			switch x := in.(type) {
			case *ssa.Phi:
				if prev == nil {
					return 0, false
				}
				for i, p := range b.Preds {
					if p == prev {
						if k, ok := pe.evalInt(x.Edges[i], cenv, clens, d+1); ok {
							cenv[x] = k
						}
					}
				}
			case *ssa.Panic:
				return 0, false
			case *ssa.Return:
				if len(x.Results) != 1 {
					return 0, false
				}
				return pe.evalInt(x.Results[0], cenv, clens, d+1)
			case *ssa.If:
				k, ok := pe.evalInt(x.Cond, cenv, clens, d+1)
				if !ok {
					return 0, false
				}
				prev = b
				if k != 0 {
					b = b.Succs[0]
				} else {
					b = b.Succs[1]
				}
			case *ssa.Jump:
				prev = b
				b = b.Succs[0]
			case *ssa.Call, *ssa.Store, *ssa.MapUpdate, *ssa.Send, *ssa.Go, *ssa.Defer:
				if c, isCall := in.(*ssa.Call); isCall {
					if lenOf(c) != nil {
						continue
					}
					if _, ok := pe.evalPredicate(c, cenv, clens, d+1); ok {
						continue
					}
				}
				return 0, false
			}
		}
	}
	return 0, false
}

// lenOfValue: length of a slice value under the environment.
func (pe *parityEval) lenOfValue(v ssa.Value, env map[ssa.Value]int64, lens map[ssa.Value]int64, d int) (int64, bool) {
	if d > 20 {
		return 0, false
	}
	if n, ok := lens[v]; ok {
		return n, true
	}
	switch x := v.(type) {
	case *ssa.UnOp:
		if x.Op == token.MUL { // *vector
			if n, ok := lens[x.X]; ok {
				return n, true
			}
		}
	case *ssa.ChangeType:
		return pe.lenOfValue(x.X, env, lens, d+1)
	case *ssa.Convert:
		return pe.lenOfValue(x.X, env, lens, d+1)
	case *ssa.Slice:
		n, ok := pe.lenOfValue(x.X, env, lens, d+1)
		if !ok {
			// slice of array pointer
			if pt, isP := x.X.Type().Underlying().(*types.Pointer); isP {
				if arr, isA := pt.Elem().Underlying().(*types.Array); isA {
					n, ok = arr.Len(), true
				}
			}
		}
		if !ok {
			return 0, false
		}
		lo, hi := int64(0), n
		if x.Low != nil {
			l, ok := pe.evalInt(x.Low, env, lens, d+1)
			if !ok {
				return 0, false
			}
			lo = l
		}
		if x.High != nil {
			h, ok := pe.evalInt(x.High, env, lens, d+1)
			if !ok {
				return 0, false
			}
			hi = h
		}
		return hi - lo, true
	}
	return 0, false
}

// run explores fn from its entry under the length assignment and returns the set of outcomes.
func (pe *parityEval) run(fn *ssa.Function, lens map[ssa.Value]int64, env map[ssa.Value]int64) outcome {
	if fn.Blocks == nil {
		return outNoPanic
	}
	var out outcome
	type item struct{ b *ssa.BasicBlock }
	seen := map[int]bool{}
	var walk func(b *ssa.BasicBlock)
	walk = func(b *ssa.BasicBlock) {
		if seen[b.Index] || pe.budget <= 0 {
			if pe.budget <= 0 {
				out |= outNoPanic | outPanic
			}
			return
		}
		seen[b.Index] = true
		pe.budget--
		// a loop header ends the entry prefix
		for _, pb := range b.Preds {
			if b.Dominates(pb) && b.Index != 0 {
				out |= outNoPanic
				return
			}
		}
		for _, in := range b.Instrs {
			switch x := in.(type) {
			case *ssa.Panic:
				out |= outPanic
				return
			case *ssa.Return:
				out |= outNoPanic
				return
			case *ssa.IndexAddr:
				if isSliceType(x.X.Type()) {
					n, ok1 := pe.lenOfValue(x.X, env, lens, 0)
					i, ok2 := pe.evalInt(x.Index, env, lens, 0)
					if ok1 && ok2 && (i < 0 || i >= n) {
						out |= outPanic
						return
					}
				}
			case *ssa.Slice:
				if isSliceType(x.X.Type()) {
					n, ok1 := pe.lenOfValue(x.X, env, lens, 0)
					if ok1 {
						if x.Low != nil {
							if l, ok := pe.evalInt(x.Low, env, lens, 0); ok && (l < 0 || l > n) {
								// capacity may exceed length, but never for a slice handed in with cap == len; be definite only for low > len
								out |= outPanic
								return
							}
						}
					}
				}
			case *ssa.Call:
				cc := x.Common()
				if callee := cc.StaticCallee(); callee != nil && callee.Blocks != nil && strings.HasPrefix(fnPkgPath(callee), modPath) && pe.depth < 3 {
					// inline the callee's entry prefix
					clens := map[ssa.Value]int64{}
					cenv := map[ssa.Value]int64{}
					for i, a := range cc.Args {
						if i >= len(callee.Params) {
							break
						}
						if isSliceType(a.Type()) {
							if n, ok := pe.lenOfValue(a, env, lens, 0); ok {
								clens[callee.Params[i]] = n
							}
						} else if k, ok := pe.evalInt(a, env, lens, 0); ok {
							cenv[callee.Params[i]] = k
						}
					}
					pe.depth++
					o := pe.run(callee, clens, cenv)
					pe.depth--
					if o == outPanic {
						out |= outPanic
						return
					}
					if o&outPanic != 0 {
						out |= outPanic
					}
					// the callee performs the computation: the prefix ends here (a callee whose
					// result is used — a predicate such as sameLength(n, others...) — is part of
					// the entry decisions, its value is simply unknown)
					if refs := x.Referrers(); len(clens) > 0 && (refs == nil || len(*refs) == 0) {
						out |= outNoPanic
						return
					}
				} else if callee != nil && callee.Blocks == nil && strings.HasPrefix(fnPkgPath(callee), modPath) {
					// assembly kernel: the computation proper
					out |= outNoPanic
					return
				}
			}
		}
		last := b.Instrs[len(b.Instrs)-1]
		switch t := last.(type) {
		case *ssa.If:
			if k, ok := pe.evalInt(t.Cond, env, lens, 0); ok {
				if k != 0 {
					walk(b.Succs[0])
				} else {
					walk(b.Succs[1])
				}
			} else {
				walk(b.Succs[0])
				walk(b.Succs[1])
			}
		case *ssa.Jump:
			walk(b.Succs[0])
		}
	}
	walk(fn.Blocks[0])
	if out == 0 {
		out = outNoPanic
	}
	return out
}

func isCPUFlag(g *ssa.Global) bool {
	if b, ok := g.Type().(*types.Pointer).Elem().Underlying().(*types.Basic); !ok || b.Kind() != types.Bool {
		return false
	}
	return strings.HasSuffix(g.Pkg.Pkg.Path(), "utils/cpu") || strings.HasPrefix(strings.ToLower(g.Name()), "support")
}

// sliceInputs: the slice-typed inputs of fn (parameters of slice type, or pointer-to-slice
// receiver).
func sliceInputs(fn *ssa.Function) []ssa.Value {
	var out []ssa.Value
	for _, prm := range fn.Params {
		t := prm.Type()
		if isSliceType(t) {
			out = append(out, prm)
		} else if pt, ok := t.Underlying().(*types.Pointer); ok && isSliceType(pt.Elem()) {
			out = append(out, prm)
		}
	}
	return out
}

// lengthRepresentatives: constants compared with lengths in either variant, plus neighbours.
func lengthRepresentatives(fns ...*ssa.Function) []int64 {
	set := map[int64]bool{0: true, 1: true, 2: true, 3: true}
	for _, fn := range fns {
		for _, b := range fn.Blocks {
			for _, in := range b.Instrs {
				if bo, ok := in.(*ssa.BinOp); ok {
					for _, v := range []ssa.Value{bo.X, bo.Y} {
						if k, ok := constInt(v); ok && k > 0 && k < 1<<20 {
							set[k] = true
							set[k+1] = true
							if k > 1 {
								set[k-1] = true
							}
						}
					}
				}
			}
		}
	}
	var out []int64
	for k := range set {
		out = append(out, k)
	}
	sort.Slice(out, func(i, j int) bool { return out[i] < out[j] })
	if len(out) > 14 {
		out = out[:14]
	}
	return out
}

// panicParity compares two variants of the same function; returns the witnesses where one
// definitely panics and the other definitely does not.
func panicParity(p1 *Program, f1 *ssa.Function, p2 *Program, f2 *ssa.Function) (cases int, diffs []string) {
	in1, in2 := sliceInputs(f1), sliceInputs(f2)
	if len(in1) == 0 || len(in1) != len(in2) {
		return 0, nil
	}
	reps := lengthRepresentatives(f1, f2)
	n := len(in1)
	idx := make([]int, n)
	for {
		l1, l2 := map[ssa.Value]int64{}, map[ssa.Value]int64{}
		var desc []string
		for i := 0; i < n; i++ {
			l1[in1[i]] = reps[idx[i]]
			l2[in2[i]] = reps[idx[i]]
			desc = append(desc, fmt.Sprintf("len(%s)=%d", in1[i].Name(), reps[idx[i]]))
		}
		cases++
		// discover the CPU flags each variant consults, then enumerate their values
		probe1 := &parityEval{p: p1, budget: 400, seenFlags: map[string]bool{}}
		probe1.run(f1, l1, map[ssa.Value]int64{})
		probe2 := &parityEval{p: p2, budget: 400, seenFlags: map[string]bool{}}
		probe2.run(f2, l2, map[ssa.Value]int64{})
		var names []string
		for nme := range probe1.seenFlags {
			names = append(names, nme)
		}
		for nme := range probe2.seenFlags {
			if !probe1.seenFlags[nme] {
				names = append(names, nme)
			}
		}
		sort.Strings(names)
		if len(names) > 3 {
			names = names[:3]
		}
		for mask := 0; mask < 1<<len(names); mask++ {
			flags := map[string]bool{}
			var fd []string
			for i, nme := range names {
				flags[nme] = mask&(1<<i) != 0
				fd = append(fd, fmt.Sprintf("%s=%v", nme[strings.LastIndex(nme, ".")+1:], flags[nme]))
			}
			o1 := (&parityEval{p: p1, budget: 400, flags: flags}).run(f1, l1, map[ssa.Value]int64{})
			o2 := (&parityEval{p: p2, budget: 400, flags: flags}).run(f2, l2, map[ssa.Value]int64{})
			if (o1 == outPanic && o2 == outNoPanic) || (o1 == outNoPanic && o2 == outPanic) {
				w := map[outcome]string{outPanic: "panics", outNoPanic: "does not panic"}
				diffs = append(diffs, fmt.Sprintf("%s %s: %s variant %s, %s variant %s", strings.Join(desc, ","), strings.Join(fd, ","), p1.Cfg.ID, w[o1], p2.Cfg.ID, w[o2]))
			}
		}
		// next assignment
		k := 0
		for k < n {
			idx[k]++
			if idx[k] < len(reps) {
				break
			}
			idx[k] = 0
			k++
		}
		if k == n {
			break
		}
	}
	return
}

// flagParity: one function, all assignments of its CPU feature flags: the panic behaviour must
// not depend on the flags (the accelerated arm has the preconditions of the portable arm).
func flagParity(p *Program, f *ssa.Function) (cases int, diffs []string) {
	ins := sliceInputs(f)
	if len(ins) == 0 {
		return 0, nil
	}
	reps := lengthRepresentatives(f)
	n := len(ins)
	idx := make([]int, n)
	for {
		l := map[ssa.Value]int64{}
		var desc []string
		for i := 0; i < n; i++ {
			l[ins[i]] = reps[idx[i]]
			desc = append(desc, fmt.Sprintf("len(%s)=%d", ins[i].Name(), reps[idx[i]]))
		}
		cases++
		probe := &parityEval{p: p, budget: 400, seenFlags: map[string]bool{}}
		probe.run(f, l, map[ssa.Value]int64{})
		var names []string
		for nme := range probe.seenFlags {
			names = append(names, nme)
		}
		sort.Strings(names)
		if len(names) > 3 {
			names = names[:3]
		}
		if len(names) > 0 {
			base := (&parityEval{p: p, budget: 400, flags: map[string]bool{}}).run(f, l, map[ssa.Value]int64{})
			allFalse := map[string]bool{}
			for _, nme := range names {
				allFalse[nme] = false
			}
			base = (&parityEval{p: p, budget: 400, flags: allFalse}).run(f, l, map[ssa.Value]int64{})
			for mask := 1; mask < 1<<len(names); mask++ {
				flags := map[string]bool{}
				var fd []string
				for i, nme := range names {
					flags[nme] = mask&(1<<i) != 0
					fd = append(fd, fmt.Sprintf("%s=%v", nme[strings.LastIndex(nme, ".")+1:], flags[nme]))
				}
				o := (&parityEval{p: p, budget: 400, flags: flags}).run(f, l, map[ssa.Value]int64{})
				if (o == outPanic && base == outNoPanic) || (o == outNoPanic && base == outPanic) {
					w := map[outcome]string{outPanic: "panics", outNoPanic: "does not panic"}
					diffs = append(diffs, fmt.Sprintf("%s: with %s it %s, with all flags off it %s", strings.Join(desc, ","), strings.Join(fd, ","), w[o], w[base]))
				}
			}
		}
		k := 0
		for k < n {
			idx[k]++
			if idx[k] < len(reps) {
				break
			}
			idx[k] = 0
			k++
		}
		if k == n {
			break
		}
	}
	return
}
