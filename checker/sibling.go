package main

import (
	"go/token"
	"crypto/sha256"
	"fmt"
	"go/constant"
	"go/types"
	"regexp"
	"sort"
	"strconv"
	"strings"
	"sync"

	"golang.org/x/tools/go/ssa"
)

// SIBLING engine: agreement between instantiations of one template. Almost all code of the
// library is generated per curve / per field / per group (G1, G2); the members of a family are
// implementations of the same function over different constants. For every function present in
// at least 4 members, each member is summarised by an order-insensitive multiset of statement
// descriptors (calls with provenance-described operands, comparisons, stores, returns; integer
// constants abstracted, curve and group names normalised). A member whose multiset differs from
// a strict majority that agrees among itself is reported together with the descriptors it
// lacks / has in excess. Legitimate per-member template variants visible on the reference tree
// are listed in siblingVariants with a reason; nothing about source text or positions is frozen.

var (
	reDigits   = regexp.MustCompile(`\b\d+\b`)
	reGroup    = regexp.MustCompile(`\b([gG])[12]([A-Z][A-Za-z]*|\b)`)
	reTower    = regexp.MustCompile(`\bE(2|4|6|12|24|3)\b`)
	reArrLen   = regexp.MustCompile(`\[\d+\]((?:\[\d*\])*[a-zA-Z])`)
	reCoordSel = regexp.MustCompile(`\.(A0|A1|A2|B0|B1|B2|C0|C1|C2|D0|D1)\b`)
)

func normSibling(s string) string {
	s = normCurve(s)
	s = reGroup.ReplaceAllString(s, "${1}N$2")
	s = reArrLen.ReplaceAllString(s, "[N]$1") // array lengths follow the limb count / window size
	s = reDigits.ReplaceAllStringFunc(s, func(d string) string {
		if len(d) <= 2 {
			if n, err := strconv.Atoi(d); err == nil && n <= 12 {
				return d // small indices / arities are part of the logic
			}
		}
		return "K"
	})
	return s
}

// stmtDescriptors: the multiset of descriptors of fn.
func stmtDescriptors(fn *ssa.Function) []string {
	var out []string
	ctx := ""
	add := func(s string) {
		if s != "" {
			out = append(out, normSibling(s+ctx))
		}
	}
	ctxOf := blockContexts(fn)
	for _, b := range fn.Blocks {
		ctx = ctxOf[b.Index]
		for _, in := range b.Instrs {
			switch x := in.(type) {
			case *ssa.Call:
				add("call " + descCall(x, 1))
			case *ssa.Go:
				add("go " + descCallee(calleeOf(&x.Call)))
			case *ssa.Defer:
				add("defer " + descCallee(calleeOf(&x.Call)))
			case *ssa.If:
				a := atomOf(x.Cond)
				add("if " + descAtom(a, 0))
			case *ssa.Store:
				add("store " + descValue(x.Addr, 1) + " <- " + descValue(x.Val, 2))
			case *ssa.Return:
				var rs []string
				for _, r := range x.Results {
					rs = append(rs, descValue(r, 2))
				}
				add("return " + strings.Join(rs, ","))
			case *ssa.Panic:
				add("panic")
			case *ssa.Send:
				add("send " + descValue(x.Chan, 1))
			case *ssa.BinOp:
				// arithmetic on integers carries index / bound logic
				if isInteger(x.Type()) {
					add("op " + descValue(x, 1))
				}
			}
		}
	}
	sort.Strings(out)
	return out
}

type siblingMember struct {
	vocab     map[string]bool // operations reached (see vocabOf)
	mods      map[string]bool // caller-visible locations written (filled lazily)
	guards    map[string]bool // "op <- guard" pairs: guard dominates every call of op (filled lazily)
	generated bool            // defined in a file carrying the "Code generated ... DO NOT EDIT" header
	pkg       string
	key       string // function key inside the family (group-normalised)
	fn        *ssa.Function
	desc      []string
	hash      string
}

type siblingIndex struct {
	fams map[string]map[string][]*siblingMember // family -> function -> members
}

var (
	sibMu    sync.Mutex
	sibCache = map[*Program]*siblingIndex{}
)

func siblingIndexOf(p *Program) *siblingIndex {
	sibMu.Lock()
	defer sibMu.Unlock()
	if s, ok := sibCache[p]; ok {
		return s
	}
	idx := &siblingIndex{fams: map[string]map[string][]*siblingMember{}}
	for _, fn := range p.RepoFuncs() {
		if (fn.Origin() != nil && fn.Origin() != fn) || fn.Blocks == nil {
			continue
		}
		if fn.Parent() != nil {
			// closures are compared through the function that creates them (they are looked through
			// and expanded there); their ordinal names are not stable under restructuring
			continue
		}
		pk := relPkg(fnPkgPath(fn))
		if !libPkg(pk) {
			continue
		}
		fam := normFamily(pk)
		if !strings.Contains(fam, "*") {
			continue
		}
		// field packages: one family per limb count (unrolled code differs by construction)
		if n := limbCount(p, pk); n > 0 {
			fam += "#" + strconv.Itoa(n)
		}
		// closures: keyed by their enclosing function and their ordinal name (FFTInverse$1); the
		// numbering is the same in all instances of a template
		name := strings.TrimPrefix(funcKey(fn), pk+".")
		name = reGroup.ReplaceAllString(name, "${1}N$2")
		d := stmtDescriptors(fn)
		h := sha256.Sum256([]byte(strings.Join(d, "\n")))
		m := &siblingMember{pkg: pk, key: name, fn: fn, desc: d, hash: fmt.Sprintf("%x", h[:8]), generated: inGeneratedFile(p, fn), vocab: vocabOf(fn, opaqueIn(fam, pk))}
		if idx.fams[fam] == nil {
			idx.fams[fam] = map[string][]*siblingMember{}
		}
		idx.fams[fam][name] = append(idx.fams[fam][name], m)
	}
	sibCache[p] = idx
	return idx
}

// siblingVariants: members that legitimately differ from their siblings on the reference tree
// (template conditionals on the curve family, field size, presence of an endomorphism...).
// Key: family|function|package  (group-normalised names). Filled from a survey of the tree,
// each confirmed by reading the template condition that produces it.
var siblingVariants = map[string]string{}

// SiblingCheck reports deviating members for the functions of the given families whose name
// matches the filter.
func SiblingCheck(c *Ctx, p *Program, rule string, famPatterns []string, nameFilter *regexp.Regexp) {
	idx := siblingIndexOf(p)
	fams := map[string]bool{}
	for _, f := range famPatterns {
		fams[f] = true
	}
	var famNames []string
	for f := range idx.fams {
		if fams[f] {
			famNames = append(famNames, f)
		}
	}
	sort.Strings(famNames)
	for _, fam := range famNames {
		var fnNames []string
		for n := range idx.fams[fam] {
			fnNames = append(fnNames, n)
		}
		sort.Strings(fnNames)
		for _, name := range fnNames {
			if nameFilter != nil && !nameFilter.MatchString(name) {
				continue
			}
			ms := idx.fams[fam][name]
			if len(ms) < 4 {
				continue
			}
			c.Instance(rule, 1)
			eff := sharedEffects(p)
			for _, m := range ms {
				if m.mods == nil {
					m.mods = modsOf(eff, m.fn)
				}
				if m.guards == nil {
					m.guards = guardedOps(m.fn, opaqueIn(fam, m.pkg))
				}
			}
			decide := func(aspect string, sig func(m *siblingMember) map[string]bool, lacksOnly bool, relevant func(m *siblingMember, key string) bool) {
				groups := map[string][]*siblingMember{}
				keys := map[*siblingMember]string{}
				for _, m := range ms {
					keys[m] = strings.Join(sortedKeys(sig(m)), "\n")
					groups[keys[m]] = append(groups[keys[m]], m)
				}
				var major []*siblingMember
				for _, g := range groups {
					if len(g) > len(major) || (len(g) == len(major) && len(major) > 0 && g[0].pkg < major[0].pkg) {
						major = g
					}
				}
				if len(major)*2 <= len(ms) || len(major) < 3 {
					return // no strict majority: the family is genuinely heterogeneous in this aspect
				}
				con := aspect + "-agree-with-siblings"
				for _, m := range ms {
					if keys[m] == keys[major[0]] {
						c.Ob(rule, m.pkg, m.pkg+"."+m.key, con, p.Pos(m.fn.Pos()), true, "")
						continue
					}
					if _, ok := siblingVariants[fam+"|"+name+"|"+m.pkg]; ok {
						continue
					}
					if len(groups[keys[m]]) > 1 {
						continue // a deviating group of more than one member is a template variant, not a slip
					}
					if !m.generated {
						continue // hand-written files take part in the comparison but are free to differ
					}
					if aspect == "effects" && m.fn.Object() != nil && !m.fn.Object().Exported() && !types.Identical(sigNoRecv(m.fn), sigNoRecv(major[0].fn)) && sigShape(m.fn) != sigShape(major[0].fn) {
						c.Note(fmt.Sprintf("%s.%s: unexported, signature differs from its siblings: effects by operand position not compared", m.pkg, m.key))
						continue
					}
					var lacks, extra []string
					for k := range sig(major[0]) {
						if !sig(m)[k] && (relevant == nil || relevant(m, k)) {
							lacks = append(lacks, k)
						}
					}
					for k := range sig(m) {
						if !sig(major[0])[k] {
							extra = append(extra, k)
						}
					}
					sort.Strings(lacks)
					sort.Strings(extra)
					if len(lacks) == 0 && (lacksOnly || len(extra) == 0) {
						c.Ob(rule, m.pkg, m.pkg+"."+m.key, con, p.Pos(m.fn.Pos()), true, "")
						continue
					}
					msg := fmt.Sprintf("%s.%s differs from its %d siblings that agree with each other (%s, …) in its %s: it lacks [%s]", m.pkg, m.key, len(major), major[0].pkg, aspect, strings.Join(clip(lacks, 6), " ; "))
					if !lacksOnly {
						msg += fmt.Sprintf(" and has in addition [%s]", strings.Join(clip(extra, 6), " ; "))
					}
					c.Ob(rule, m.pkg, m.pkg+"."+m.key, con, p.Pos(m.fn.Pos()), false, msg)
				}
			}
			decide("operations", func(m *siblingMember) map[string]bool { return m.vocab }, true, func(m *siblingMember, key string) bool {
				// an exponentiation by a small known exponent is interchangeable with the
				// multiplications it stands for
				if strings.HasSuffix(key, ".Exp") {
					base := strings.TrimSuffix(key, ".Exp")
					if m.vocab[base+".Mul"] || m.vocab[base+".Square"] {
						return false
					}
				}
				return true
			})
			// written operands are named by position: an unexported helper whose signature was
			// changed (with its callers) in one package is not comparable on this facet
			decide("effects", func(m *siblingMember) map[string]bool { return m.mods }, false, func(m *siblingMember, key string) bool {
				return true
			})
			// a guard can only be missed on an operation the member performs
			decide("guards", func(m *siblingMember) map[string]bool { return m.guards }, true, func(m *siblingMember, key string) bool {
				if i := strings.Index(key, " <- "); i >= 0 {
					return m.guards[key[:i]]
				}
				return false
			})
			// informational: exact statement multisets
			{
				groups := map[string][]*siblingMember{}
				for _, m := range ms {
					groups[m.hash] = append(groups[m.hash], m)
				}
				var major []*siblingMember
				for _, g := range groups {
					if len(g) > len(major) {
						major = g
					}
				}
				if len(major)*2 > len(ms) && len(major) >= 3 {
					for _, m := range ms {
						if m.hash != major[0].hash && len(groups[m.hash]) == 1 && m.generated {
							if _, ok := siblingVariants[fam+"|"+name+"|"+m.pkg]; !ok {
								missing, extra := multisetDiff(major[0].desc, m.desc)
								c.Note(fmt.Sprintf("shape of %s.%s differs from its %d agreeing siblings (informational, decides nothing): -%d +%d statements", m.pkg, m.key, len(major), len(missing), len(extra)))
							}
						}
					}
				}
			}
		}
	}
}

// vocabOf: the operations fn reaches. Calls into functions and closures of fn's own package that
// themselves call something are looked through (bounded depth); what is recorded are the ends of
// that walk: callees of other packages, body-less (assembly) functions, call-free functions of the
// package, interface methods, and panic.
func vocabOf(fn *ssa.Function, opaque func(callee *ssa.Function) bool) map[string]bool {
	out := map[string]bool{}
	seen := map[*ssa.Function]bool{}
	home := fnPkgPath(fn)
	var visit func(f *ssa.Function, depth int)
	record := func(cc *ssa.CallCommon) {
		cl := calleeOf(cc)
		switch cl.Name {
		case "Set":
			return // x.Set(&y) and x = y are the same statement
		case "SetOne", "One", "SetZero", "IsOne":
			// one.SetOne() / fr.One() / Element{}; x.IsOne() / x.Equal(&one): interchangeable ways of
			// naming a constant
			return
		}
		out[normSibling(descCallee(cl))] = true
	}
	visit = func(f *ssa.Function, depth int) {
		if f == nil || seen[f] || depth > 6 {
			return
		}
		seen[f] = true
		for _, b := range f.Blocks {
			for _, in := range b.Instrs {
				switch x := in.(type) {
				case *ssa.MakeClosure:
					if g, ok := x.Fn.(*ssa.Function); ok {
						visit(g, depth+1)
					}
				case *ssa.Panic:
					out["panic"] = true
				case *ssa.UnOp:
					// reading an unexported package-level variable that holds the result of one call
					// made at initialisation (var fpMod = fr.Modulus()) performs that operation
					if g, ok := x.X.(*ssa.Global); ok && x.Op == token.MUL {
						if v := globalInitCall(g); v != nil {
							if c, ok := v.(*ssa.Call); ok {
								if cal := c.Call.StaticCallee(); cal != nil && strings.HasPrefix(fnPkgPath(cal), modPath) && fnPkgPath(cal) != home {
									record(&c.Call)
								}
							}
						}
					}
				case ssa.CallInstruction:
					cc := x.Common()
					if cc.IsInvoke() {
						record(cc)
						// an interface of the package itself (ByteOrder): its implementations in the
						// package are what the call may run
						for _, impl := range homeImplementations(f, cc) {
							visit(impl, depth+1)
						}
						continue
					}
					if _, ok := cc.Value.(*ssa.Builtin); ok {
						continue
					}
					// a function literal without captured variables handed to a callee
					// (once.Do(func() {...})) is a plain function value, not a MakeClosure
					for _, a := range cc.Args {
						if lit, ok := a.(*ssa.Function); ok && lit.Parent() == f {
							visit(lit, depth+1)
						}
					}
					callee := cc.StaticCallee()
					if callee == nil {
						continue // call of a function value: its creation site is looked through
					}
					if o := callee.Origin(); o != nil {
						callee = o
					}
					if fnPkgPath(callee) == home && callee.Blocks == nil {
						continue // assembly stub: the Go/assembly split is C09's subject, not a difference between siblings
					}
					if fnPkgPath(callee) == home {
						if callee.Parent() == nil && (callsNothing(callee) || opaque(callee)) {
							record(cc)
						} else {
							visit(callee, depth+1)
						}
						continue
					}
					if !strings.HasPrefix(fnPkgPath(callee), modPath) {
						continue // standard-library idioms are interchangeable (Cmp/Sign, Bytes/FillBytes, copy/append)
					}
					record(cc)
				}
			}
		}
	}
	visit(fn, 0)
	return out
}

// opaqueIn: functions that are a listed template variant in some member of the family are not
// looked through in any member (their name is recorded instead), so that a legitimate variant of
// one function does not show up as a difference in every caller.
func opaqueIn(fam, pk string) func(*ssa.Function) bool {
	opaqueOnce.Do(func() {
		for k := range siblingVariants {
			parts := strings.SplitN(k, "|", 3)
			if len(parts) == 3 {
				if opaqueNames[parts[0]] == nil {
					opaqueNames[parts[0]] = map[string]bool{}
				}
				opaqueNames[parts[0]][parts[1]] = true
			}
		}
	})
	names := opaqueNames[fam]
	return func(callee *ssa.Function) bool {
		if len(names) == 0 {
			return false
		}
		n := strings.TrimPrefix(funcKey(callee), pk+".")
		return names[reGroup.ReplaceAllString(n, "${1}N$2")]
	}
}

var (
	opaqueOnce  sync.Once
	opaqueNames = map[string]map[string]bool{}
)

var callsNothingMemo sync.Map

func callsNothing(f *ssa.Function) bool {
	if v, ok := callsNothingMemo.Load(f); ok {
		return v.(bool)
	}
	r := true
	for _, b := range f.Blocks {
		for _, in := range b.Instrs {
			switch x := in.(type) {
			case *ssa.MakeClosure:
				r = false
			case ssa.CallInstruction:
				if _, ok := x.Common().Value.(*ssa.Builtin); ok {
					continue
				}
				// calls into the standard library (math/bits, ...) do not make a helper a composite
				// of module operations
				if sc := x.Common().StaticCallee(); sc != nil && !strings.HasPrefix(fnPkgPath(sc), modPath) {
					continue
				}
				r = false
			}
		}
	}
	callsNothingMemo.Store(f, r)
	return r
}

// only validation predicates count as guards: a success check of a computation (noerr MultiExp)
// says nothing about the independent statements a maintainer may move across it
var reStmtShape = regexp.MustCompile(`^(ok|not) ([A-Za-z_][\w./]*)\(`)

// guardedOps: on the inlined view of fn, for every operation of the module that fn calls (the
// functions expanded in the view excluded), the checks that dominate EVERY call of it, as pairs
// "op <- ok Check" / "op <- not Check" / "op <- noerr Check" (names only). A check wrapped in a
// predicate of the package is seen through the predicate's outcome facts; a guarded call moved into
// a helper keeps its guard because the helper is expanded at its call site.
func guardedOps(fn *ssa.Function, opaque func(*ssa.Function) bool) map[string]bool {
	out := map[string]bool{}
	if fn.Blocks == nil || len(fn.Blocks) > 400 {
		return out
	}
	v := NewIViewOpt(fn, opaque)
	if v.entry == nil || len(v.nodes) > 3000 {
		return out
	}
	home := fnPkgPath(fn)
	per := map[string]map[string]bool{}
	condMemo := map[*ivNode][]string{}
	for _, x := range v.Instrs() {
		name := ""
		if st, isStore := x.in.(*ssa.Store); isStore {
			// a store into memory the caller sees (receiver, parameter, captured variable, a slice
			// made here and handed out): hoisting it above the check that guarded it changes the result
			for _, r := range v.Roots(st.Addr, x.fr) {
				// (cells of captured variables are followed to what they hold; a by-value copy of a
				// struct is not the caller's memory: only reference-typed roots count)
				visible := false
				if (r.Kind == "param" || r.Kind == "free") && r.Val != nil && isPtrLikeType(r.Val.Type()) {
					visible = true
				}
				// (stores into slices made by the function itself were tried and dropped: every local
				// table of the same element type shares one name, and a restructuring that adds an
				// unguarded store to one of them looked like a lost guard on another)
				if visible && r.Path != "" {
					root := "made"
					if r.Kind == "param" {
						root = "p" + paramIndex(r.Param)
					} else if r.Kind == "free" {
						root = "free"
					}
					name = "store " + root + r.Path
				}
			}
			if name == "" {
				continue
			}
		}
		ci, ok := x.in.(ssa.CallInstruction)
		if name == "" && (!ok || v.Inlined(x)) {
			continue
		}
		var cc *ssa.CallCommon
		if name == "" {
			cc = ci.Common()
			if _, isB := cc.Value.(*ssa.Builtin); isB {
				continue
			}
		}
		if name != "" {
			// store: name already set
		} else if cc.IsInvoke() {
			name = descCallee(calleeOf(cc))
		} else if sc := cc.StaticCallee(); sc != nil && fnPkgPath(sc) != "math/bits" {
			// (math/bits primitives are the limb arithmetic itself: where they sit follows the carry
			// variant of the template, not a precondition)
			name = descCallee(calleeOf(cc))
		}
		if name == "" {
			continue
		}
		name = normSibling(name)
		n, _ := v.nodeOf(x)
		if n == nil {
			continue
		}
		gs, done := condMemo[n]
		if !done {
			set := map[string]bool{}
			for _, cd := range v.DominatingConds(x) {
				stmts := []string{descAtom(cd.atom, cd.edge)}
				// a check wrapped in a predicate of this package is seen through; what a function of
				// another package checks internally is that package's business (and varies per curve)
				var ccall *ssa.Call
				switch cd.atom.Kind {
				case "call":
					ccall = cd.atom.Call
				case "nilcmp":
					ccall, _ = callResult(cd.atom.X)
				}
				if ccall != nil && !ccall.Call.IsInvoke() {
					if sc := ccall.Call.StaticCallee(); sc != nil && fnPkgPath(sc) == home && !opaque(sc) {
						stmts = allEdgeStmts(cd.atom, cd.edge)
					}
					// a cache lookup (sync.Map.Load, atomic.Pointer.Load …) is not a validation
					// predicate: which container a memo lives in is C18's business
					if sc := ccall.Call.StaticCallee(); sc != nil && (fnPkgPath(sc) == "sync" || fnPkgPath(sc) == "sync/atomic") {
						continue
					}
				}
				for _, st := range stmts {
					if m := reStmtShape.FindStringSubmatch(st); m != nil {
						set[m[1]+" "+normSibling(m[2])] = true
					}
				}
			}
			gs = sortedKeys(set)
			condMemo[n] = gs
		}
		cur, seen := per[name]
		if !seen {
			cur = map[string]bool{}
			for _, g := range gs {
				cur[g] = true
			}
			per[name] = cur
			continue
		}
		has := map[string]bool{}
		for _, g := range gs {
			has[g] = true
		}
		for g := range cur {
			if !has[g] {
				delete(cur, g)
			}
		}
	}
	for op, gs := range per {
		out[op] = true // the operation is performed
		for g := range gs {
			out[op+" <- "+g] = true
		}
	}
	return out
}

// modsOf: the caller-visible objects fn may write: receiver, parameters, captured variables
// (package-level variables are pools, caches and lazily built tables: C18 decides those).
func modsOf(eff *Effects, fn *ssa.Function) map[string]bool {
	out := map[string]bool{}
	s := eff.Summary(fn)
	for l := range s.Writes {
		switch {
		case l.Root < 0:
			continue
		case l.Root < len(fn.Params):
			out["p"+paramIndex(fn.Params[l.Root])] = true
		default:
			k := l.Root - len(fn.Params)
			if k < len(fn.FreeVars) {
				out[normSibling("free:"+shortType(fn.FreeVars[k].Type()))] = true
			}
		}
	}
	return out
}

func clip(xs []string, n int) []string {
	if len(xs) > n {
		return append(append([]string{}, xs[:n]...), fmt.Sprintf("… %d more", len(xs)-n))
	}
	return xs
}

func multisetDiff(a, b []string) (onlyA, onlyB []string) {
	ca := map[string]int{}
	for _, x := range a {
		ca[x]++
	}
	for _, x := range b {
		if ca[x] > 0 {
			ca[x]--
		} else {
			onlyB = append(onlyB, x)
		}
	}
	for x, n := range ca {
		for i := 0; i < n; i++ {
			onlyA = append(onlyA, x)
		}
	}
	sort.Strings(onlyA)
	sort.Strings(onlyB)
	return
}

// runSiblingSurvey prints all deviating singletons (tool for building siblingVariants).
func runSiblingSurvey() {
	p, err := Load(K1)
	if err != nil {
		fmt.Println(err)
		return
	}
	idx := siblingIndexOf(p)
	var fams []string
	for f := range idx.fams {
		fams = append(fams, f)
	}
	sort.Strings(fams)
	total, dev := 0, 0
	for _, fam := range fams {
		var names []string
		for n := range idx.fams[fam] {
			names = append(names, n)
		}
		sort.Strings(names)
		for _, name := range names {
			ms := idx.fams[fam][name]
			if len(ms) < 4 {
				continue
			}
			total++
			groups := map[string][]*siblingMember{}
			for _, m := range ms {
				groups[m.hash] = append(groups[m.hash], m)
			}
			var major []*siblingMember
			for _, g := range groups {
				if len(g) > len(major) {
					major = g
				}
			}
			if len(major)*2 <= len(ms) || len(major) < 3 {
				continue
			}
			for _, m := range ms {
				if m.hash != major[0].hash && len(groups[m.hash]) == 1 {
					dev++
					missing, extra := multisetDiff(major[0].desc, m.desc)
					fmt.Printf("%s|%s|%s  (%d/%d agree)  -%d +%d  e.g. -%v +%v\n", fam, name, m.pkg, len(major), len(ms), len(missing), len(extra), clip(missing, 1), clip(extra, 1))
				}
			}
		}
	}
	fmt.Printf("families×functions with ≥4 members: %d; deviating singletons: %d\n", total, dev)
}

var limbMemo = map[string]int{}

// limbCount: value of the constant Limbs of a field package, or of the field package a
// sub-package (fft, mimc, ...) is built on; 0 if not applicable.
func limbCount(p *Program, pk string) int {
	if n, ok := limbMemo[pk]; ok {
		return n
	}
	n := 0
	if pkg := p.ByPath[modPath+"/"+pk]; pkg != nil {
		if k, ok := pkg.Types.Scope().Lookup("Limbs").(*types.Const); ok {
			if v, ok := constant.Int64Val(k.Val()); ok {
				n = int(v)
			}
		}
	}
	limbMemo[pk] = n
	return n
}

// blockContexts: for every block the branch facts it is control-dominated by (the statements
// that hold on the If edges whose target dominates the block), rendered as a sorted suffix
// " @{fact;fact}". Effects and calls are compared together with the guards they sit under, so
// moving a store above the test that used to protect it changes its descriptor even though the
// multiset of plain statements is unchanged.
func blockContexts(fn *ssa.Function) []string { return blockContextsN(fn, 4) }

// blockContextsN: at most max facts per block (0 = all).
func blockContextsN(fn *ssa.Function, max int) []string {
	out := make([]string, len(fn.Blocks))
	type ef struct {
		target *ssa.BasicBlock
		fact   string
	}
	var edges []ef
	for _, b := range fn.Blocks {
		if len(b.Instrs) == 0 {
			continue
		}
		iff, ok := b.Instrs[len(b.Instrs)-1].(*ssa.If)
		if !ok {
			continue
		}
		a := atomOf(iff.Cond)
		for k := 0; k < 2; k++ {
			t := b.Succs[k]
			if len(t.Preds) != 1 {
				continue // a join: not control-dominated by this edge alone
			}
			if d := descAtom(a, k); d != "" && !loopNoise(d) {
				edges = append(edges, ef{t, d})
			}
		}
	}
	for _, b := range fn.Blocks {
		var fs []string
		for _, e := range edges {
			if e.target == b || e.target.Dominates(b) {
				fs = append(fs, e.fact)
			}
		}
		if len(fs) > 0 {
			sort.Strings(fs)
			if max > 0 && len(fs) > max {
				fs = fs[:max]
			}
			out[b.Index] = " @{" + strings.Join(fs, ";") + "}"
		}
	}
	return out
}

var genFileMemo sync.Map

// inGeneratedFile: does the file defining fn carry the generated-code header?
func inGeneratedFile(p *Program, fn *ssa.Function) bool {
	root := fn
	for root.Parent() != nil {
		root = root.Parent()
	}
	pos := root.Pos()
	if !pos.IsValid() {
		return false
	}
	file := p.Fset.Position(pos).Filename
	if v, ok := genFileMemo.Load(file); ok {
		return v.(bool)
	}
	gen := false
	if pkg := p.ByPath[fnPkgPath(root)]; pkg != nil {
		for _, f := range pkg.Syntax {
			if p.Fset.Position(f.Pos()).Filename != file {
				continue
			}
			for _, cg := range f.Comments {
				if cg.Pos() > f.Package {
					break
				}
				t := cg.Text()
				if strings.Contains(t, "Code generated") && strings.Contains(t, "DO NOT EDIT") {
					gen = true
				}
			}
		}
	}
	genFileMemo.Store(file, gen)
	return gen
}

func sigNoRecv(fn *ssa.Function) types.Type { return fn.Signature }

// sigShape: parameter types without package qualification (siblings live in different packages).
func sigShape(fn *ssa.Function) string {
	var parts []string
	for _, pa := range fn.Params {
		parts = append(parts, types.TypeString(pa.Type(), func(*types.Package) string { return "" }))
	}
	return strings.Join(parts, ",")
}

// homeImplementations: for an invoke of a method of an interface declared in the caller's own
// package, the methods of that name on the package's types that implement the interface.
func homeImplementations(f *ssa.Function, cc *ssa.CallCommon) []*ssa.Function {
	if f.Pkg == nil || cc.Method == nil || cc.Method.Pkg() == nil || cc.Method.Pkg() != f.Pkg.Pkg {
		return nil
	}
	iface, ok := cc.Value.Type().Underlying().(*types.Interface)
	if !ok {
		return nil
	}
	var out []*ssa.Function
	for _, m := range f.Pkg.Members {
		t, ok := m.(*ssa.Type)
		if !ok {
			continue
		}
		for _, ty := range []types.Type{t.Type(), types.NewPointer(t.Type())} {
			if _, isIface := ty.Underlying().(*types.Interface); isIface || !types.Implements(ty, iface) {
				continue
			}
			sel := f.Prog.MethodSets.MethodSet(ty).Lookup(cc.Method.Pkg(), cc.Method.Name())
			if sel == nil {
				continue
			}
			if fn := f.Prog.MethodValue(sel); fn != nil && len(fn.Blocks) > 0 {
				out = append(out, fn)
			}
			break
		}
	}
	sort.Slice(out, func(i, j int) bool { return out[i].String() < out[j].String() })
	return out
}
