package main

import (
	"go/token"
	"go/types"
	"sort"
	"strconv"
	"strings"

	"golang.org/x/tools/go/ssa"
)

// DEFASSIGN: definite-write ("must-write") and upward-exposed-read analysis on top of the
// EFFECTS resolver. For a function f:
//
//	MustAll  = locations (root, definite path) written on every path to every normal return
//	MustAcc  = the same, restricted to accepting returns (nil error / all returns)
//	UER      = locations possibly read before being definitely written on some path
//
// "Definite path" = fields and constant indices only. Used for: "a decoder/setter fully defines
// its destination on every accepting path" and "the result does not depend on the destination's
// previous contents".

type MustSummary struct {
	MustAll map[Loc]bool
	MustAcc map[Loc]bool
	UER     map[Loc]token.Pos
	// per accepting return: must-written set (for return-specific obligations)
	AtRet map[*ssa.Return]map[Loc]bool
}

type mustState map[Loc]bool

func definitePath(p string) bool {
	return !strings.Contains(p, "[*]") && !strings.Contains(p, "[@") && !strings.Contains(p, "[…]") && !strings.Contains(p, "[blk:") && !strings.Contains(p, "[tail:") && !strings.Contains(p, "$hdr")
}

// covered: is (root, path) of the function fully covered by the definitely-written set?
func covered(fn *ssa.Function, w mustState, l Loc, depth int) bool {
	// ancestor or self written
	el := splitPath(l.Path)
	for n := len(el); n >= 0; n-- {
		if w[Loc{l.Root, strings.Join(el[:n], "")}] {
			return true
		}
	}
	if depth > 6 {
		return false
	}
	rt := rootType(fn, l.Root)
	if rt == nil {
		return false
	}
	// an unknown index into an ARRAY is covered when every index is covered
	for i, x := range el {
		if x == "[*]" || strings.HasPrefix(x, "[@") {
			ct := typeAt(rt, el[:i])
			if ct == nil {
				return false
			}
			arr, ok := derefAll(ct).Underlying().(*types.Array)
			if !ok || arr.Len() > 32 {
				return false
			}
			for k := int64(0); k < arr.Len(); k++ {
				alt := append(append([]string{}, el[:i]...), "["+itoa(k)+"]")
				alt = append(alt, el[i+1:]...)
				if !covered(fn, w, Loc{l.Root, strings.Join(alt, "")}, depth+1) {
					return false
				}
			}
			return true
		}
	}
	// all children covered
	t := typeAt(rt, el)
	if t == nil {
		return false
	}
	t = derefAll(t)
	// an array written piecewise by constant ranges (copy(a[:16], x); copy(a[16:], y)) is covered
	// when the ranges and the constant indices written leave no gap
	if arr, ok := t.Underlying().(*types.Array); ok && rangesCover(w, l, arr.Len()) {
		return true
	}
	kids := childrenOf(t)
	if len(kids) == 0 {
		return false
	}
	for _, k := range kids {
		if !covered(fn, w, Loc{l.Root, l.Path + k}, depth+1) {
			return false
		}
	}
	return true
}

func (e *Effects) Must(fn *ssa.Function) *MustSummary {
	if e.must == nil {
		e.must = map[*ssa.Function]*MustSummary{}
		e.mustState = map[*ssa.Function]int{}
	}
	if s, ok := e.must[fn]; ok {
		return s
	}
	if e.mustState[fn] == 1 {
		return &MustSummary{MustAll: map[Loc]bool{}, MustAcc: map[Loc]bool{}, UER: map[Loc]token.Pos{}}
	}
	e.mustState[fn] = 1
	s := e.analyseMust(fn)
	e.must[fn] = s
	e.mustState[fn] = 2
	return s
}

func (e *Effects) externalMust(fn *ssa.Function) *MustSummary {
	s := &MustSummary{MustAll: map[Loc]bool{}, MustAcc: map[Loc]bool{}, UER: map[Loc]token.Pos{}}
	es := e.externalSummary(fn, Callee{Pkg: fnPkgPath(fn), Name: fn.Name()})
	inRepo := strings.HasPrefix(fnPkgPath(fn), modPath)
	for l := range es.Reads {
		if fnPkgPath(fn) == "math/big" && l.Root == 0 && fn.Signature.Recv() != nil && !bigGetter[fn.Name()] {
			continue // the receiver of a defining math/big method is overwritten, not read
		}
		s.UER[l] = token.NoPos
	}
	if inRepo || fnPkgPath(fn) == "math/big" {
		// assembly stubs and math/big define their destination completely
		for l := range es.Writes {
			s.MustAll[l] = true
			s.MustAcc[l] = true
		}
		if inRepo {
			// pure destinations (res of mul/add...) are not read before being written, except
			// in-place routines (single pointer parameter, Butterfly, reduce, fromMont ...)
			np := 0
			for l := range es.Reads {
				_ = l
				np++
			}
			if np >= 2 && !strings.Contains(strings.ToLower(fn.Name()), "butterfly") {
				for l := range es.Writes {
					if strings.HasPrefix(fn.Name(), "mulAcc") || strings.Contains(fn.Name(), "sis") || strings.Contains(fn.Name(), "DIF") || strings.Contains(fn.Name(), "DIT") || strings.Contains(fn.Name(), "permutation") || strings.Contains(fn.Name(), "innerProd") {
						continue
					}
					delete(s.UER, l)
				}
			}
		}
	}
	return s
}

func (e *Effects) analyseMust(fn *ssa.Function) *MustSummary {
	res := &MustSummary{MustAll: map[Loc]bool{}, MustAcc: map[Loc]bool{}, UER: map[Loc]token.Pos{}, AtRet: map[*ssa.Return]map[Loc]bool{}}
	if fn.Blocks == nil {
		return e.externalMust(fn)
	}
	r := newResolver(fn)
	nb := len(fn.Blocks)
	in := make([]mustState, nb) // nil = unreached (top)
	// pending success-conditional writes of calls: call -> locs
	pending := map[*ssa.Call][]Loc{}

	addWrite := func(w mustState, locs []Loc) {
		if len(locs) == 1 && locs[0].Root >= 0 && definitePath(locs[0].Path) {
			w[locs[0]] = true
		}
	}
	readLoc := func(w mustState, l Loc, pos token.Pos) {
		if l.Root < 0 {
			return
		}
		if strings.HasSuffix(l.Path, ".$hdr") {
			// header reads: covered if the header or an ancestor was written
			base := Loc{l.Root, strings.TrimSuffix(l.Path, ".$hdr")}
			if covered(fn, w, base, 0) {
				return
			}
		}
		if covered(fn, w, l, 0) {
			return
		}
		if _, ok := res.UER[l]; !ok {
			res.UER[l] = pos
		}
	}
	calleeMust := func(cal *ssa.Function) *MustSummary {
		if cal.Blocks == nil || !strings.HasPrefix(fnPkgPath(cal), modPath) {
			return e.externalMust(cal)
		}
		return e.Must(cal)
	}
	transfer := func(b *ssa.BasicBlock, w mustState) {
		for _, instr := range b.Instrs {
			pos := instrPos(instr)
			switch x := instr.(type) {
			case *ssa.UnOp:
				if x.Op == token.MUL {
					for _, l := range r.addrLocs(x.X) {
						readLoc(w, l, pos)
					}
				}
			case *ssa.Store:
				addWrite(w, r.addrLocs(x.Addr))
			case *ssa.Lookup:
				for _, l := range r.locs(x.X, "[*]") {
					readLoc(w, l, pos)
				}
			case ssa.CallInstruction:
				cc := x.Common()
				cl := calleeOf(cc)
				if cl.Pkg == "crypto/subtle" && cl.Name == "ConstantTimeCopy" && len(cc.Args) == 3 {
					for _, l := range r.locs(cc.Args[2], "[*]") {
						readLoc(w, l, pos)
					}
					if k, ok := constInt(cc.Args[0]); ok && k == 1 {
						// ConstantTimeCopy panics unless len(x) == len(y): on return, x is
						// entirely overwritten; x = arr[:] then defines the whole array
						if ds, ok := cc.Args[1].(*ssa.Slice); ok && ds.Low == nil && ds.High == nil {
							if _, isArr := ds.X.Type().Underlying().(*types.Pointer); isArr {
								addWrite(w, r.addrLocs(ds.X))
							}
						} else if arr := fullArrayCopy(cc.Args[1], cc.Args[2]); arr != nil {
							addWrite(w, r.addrLocs(arr))
						} else if locs, lo, hi, ok := constRangeLocs(r, cc.Args[1], 0); ok {
							addRange(w, locs, lo, hi)
						}
					}
					continue
				}
				if cl.Built {
					switch cl.Name {
					case "copy":
						for _, l := range r.locs(cc.Args[1], "[*]") {
							readLoc(w, l, pos)
						}
						if arr := fullArrayCopy(cc.Args[0], cc.Args[1]); arr != nil {
							addWrite(w, r.addrLocs(arr))
						} else if locs, lo, hi, ok := constRangeLocs(r, cc.Args[0], 0); ok && holdsAtLeast(cc.Args[1], hi-lo) {
							addRange(w, locs, lo, hi)
						}
					case "append":
						if len(cc.Args) == 2 {
							for _, l := range r.locs(cc.Args[1], "[*]") {
								readLoc(w, l, pos)
							}
						}
					}
					continue
				}
				var callees []*ssa.Function
				actuals := cc.Args
				if cc.IsInvoke() {
					callees = e.dynCallees(x)
					actuals = append([]ssa.Value{cc.Value}, cc.Args...)
				} else if f := cc.StaticCallee(); f != nil {
					callees = []*ssa.Function{f}
					if mc, ok := cc.Value.(*ssa.MakeClosure); ok {
						actuals = append(append([]ssa.Value{}, cc.Args...), mc.Bindings...)
					}
				} else {
					callees = e.dynCallees(x)
				}
				mapLoc := func(l Loc, act []ssa.Value) []Loc {
					if l.Root < 0 {
						return []Loc{l}
					}
					if l.Root >= len(act) || act[l.Root] == nil {
						return nil
					}
					return r.locs(act[l.Root], l.Path)
				}
				type cm struct {
					ms  *MustSummary
					act []ssa.Value
				}
				var cms []cm
				for _, cal := range callees {
					if cal != nil {
						cms = append(cms, cm{calleeMust(cal), actuals})
					}
				}
				for _, a := range cc.Args {
					if mc, ok := a.(*ssa.MakeClosure); ok {
						cf := mc.Fn.(*ssa.Function)
						act := make([]ssa.Value, len(cf.Params), len(cf.Params)+len(mc.Bindings))
						act = append(act, mc.Bindings...)
						ms := calleeMust(cf)
						// a closure handed to a helper may run zero times: its writes are not definite
						cms = append(cms, cm{&MustSummary{UER: ms.UER, MustAll: map[Loc]bool{}, MustAcc: map[Loc]bool{}}, act})
					}
				}
				for _, c := range cms {
					for l, p := range c.ms.UER {
						_ = p
						for _, m := range mapLoc(l, c.act) {
							readLoc(w, m, pos)
						}
					}
				}
				if len(cms) == 1 && len(callees) == 1 {
					c := cms[0]
					for l := range c.ms.MustAll {
						addWrite(w, mapLoc(l, c.act))
					}
					if call, ok := instr.(*ssa.Call); ok {
						var pend []Loc
						for l := range c.ms.MustAcc {
							if c.ms.MustAll[l] {
								continue
							}
							if m := mapLoc(l, c.act); len(m) == 1 && m[0].Root >= 0 && definitePath(m[0].Path) {
								pend = append(pend, m[0])
							}
						}
						if len(pend) > 0 {
							if di, _ := decidingResult(call); di >= 0 {
								pending[call] = pend
							} else {
								for _, l := range pend {
									w[l] = true
								}
							}
						}
					}
				}
			}
		}
	}
	// success edge of a call: returns the call whose success is established on edge si of b
	successCall := func(b *ssa.BasicBlock, si int) *ssa.Call {
		iff, ok := b.Instrs[len(b.Instrs)-1].(*ssa.If)
		if !ok {
			return nil
		}
		a := atomOf(iff.Cond)
		switch a.Kind {
		case "call":
			if di, isBool := decidingResult(a.Call); isBool && di == a.Idx {
				okEdge := 0
				if a.Neg {
					okEdge = 1
				}
				if si == okEdge {
					return a.Call
				}
			}
		case "nilcmp":
			if call, idx := callResult(a.X); call != nil {
				if di, isBool := decidingResult(call); !isBool && di == idx {
					okEdge := 0
					if a.Neg {
						okEdge = 1
					}
					if si == okEdge {
						return call
					}
				}
			}
		}
		return nil
	}

	skippedInto := map[int]bool{} // return blocks one of whose incoming (failure) edges was left out
	in[0] = mustState{}
	work := []int{0}
	inWork := map[int]bool{0: true}
	outAt := make([]mustState, nb)
	for iters := 0; len(work) > 0 && iters < 50*nb+100; iters++ {
		bi := work[0]
		work = work[1:]
		inWork[bi] = false
		b := fn.Blocks[bi]
		w := mustState{}
		for l := range in[bi] {
			w[l] = true
		}
		transfer(b, w)
		outAt[bi] = w
		for si, succ := range b.Succs {
			// an edge on which the error that succ returns is known non-nil is not on a success path:
			// it does not weaken what is definitely written when succ returns successfully
			if ret, isRet := succ.Instrs[len(succ.Instrs)-1].(*ssa.Return); isRet && len(succ.Preds) > 1 {
				if idx := resultIndex(fn, AcceptNilErr); idx >= 0 && idx < len(ret.Results) {
					if rv := retValue(ret, idx); rv != nil {
						if _, isPhi := rv.(*ssa.Phi); !isPhi && edgeKnowsNonNil(rv, b, succ) {
							onlyReturn := true
							for _, in := range succ.Instrs[:len(succ.Instrs)-1] {
								if _, isPhi := in.(*ssa.Phi); !isPhi {
									if _, isDbg := in.(*ssa.DebugRef); !isDbg {
										onlyReturn = false
									}
								}
							}
							if onlyReturn {
								skippedInto[succ.Index] = true
								continue
							}
						}
					}
				}
			}
			nw := mustState{}
			for l := range w {
				nw[l] = true
			}
			if c := successCall(b, si); c != nil {
				for _, l := range pending[c] {
					nw[l] = true
				}
			}
			changed := false
			if in[succ.Index] == nil {
				in[succ.Index] = nw
				changed = true
			} else {
				merged := interCovered(fn, in[succ.Index], nw)
				if len(merged) != len(in[succ.Index]) {
					changed = true
				} else {
					for l := range merged {
						if !in[succ.Index][l] {
							changed = true
						}
					}
				}
				in[succ.Index] = merged
			}
			if changed && !inWork[succ.Index] {
				inWork[succ.Index] = true
				work = append(work, succ.Index)
			}
		}
	}
	// returns
	// success = nil error, else true (a helper `setFromText(s) bool` defines its destination when it
	// reports success), else any return
	kind := autoAccept(fn)
	acc, _ := acceptReturns(fn, kind)
	accSet := map[*ssa.Return]ssa.Value{}
	for _, a := range acc {
		accSet[a.ret] = a.val
	}
	first, firstAcc := true, true
	for _, b := range fn.Blocks {
		ret, ok := b.Instrs[len(b.Instrs)-1].(*ssa.Return)
		if !ok || outAt[b.Index] == nil || b.Comment == "recover" {
			continue
		}
		w := mustState{}
		for l := range outAt[b.Index] {
			w[l] = true
		}
		// delegation: return g(...) carries g's success writes
		if v, isAcc := accSet[ret]; isAcc && v != nil {
			if call, _ := callResult(v); call != nil {
				for _, l := range pending[call] {
					w[l] = true
				}
			}
		}
		inter := func(dst map[Loc]bool, isFirst *bool) {
			if *isFirst {
				for l := range w {
					dst[l] = true
				}
				*isFirst = false
				return
			}
			m := interCovered(fn, dst, w)
			for l := range dst {
				delete(dst, l)
			}
			for l := range m {
				dst[l] = true
			}
		}
		if skippedInto[b.Index] {
			// the state of this block describes its success paths only: nothing is claimed for all paths
			saved := w
			w = mustState{}
			inter(res.MustAll, &first)
			w = saved
		} else {
			inter(res.MustAll, &first)
		}
		if _, isAcc := accSet[ret]; isAcc {
			inter(res.MustAcc, &firstAcc)
			res.AtRet[ret] = w
		}
	}
	return res
}

func sortedLocs(m map[Loc]bool) []string {
	var out []string
	for l := range m {
		out = append(out, l.String())
	}
	sort.Strings(out)
	return out
}

var _ = types.Typ

// interCovered: semantic intersection of two definitely-written sets: a location survives if it
// is covered (itself, an ancestor, or all its children) in the other set.
func interCovered(fn *ssa.Function, a, b mustState) mustState {
	out := mustState{}
	for l := range a {
		if covered(fn, b, l, 0) {
			out[l] = true
		}
	}
	for l := range b {
		if covered(fn, a, l, 0) {
			out[l] = true
		}
	}
	return out
}

func itoa(k int64) string { return strconv.FormatInt(k, 10) }

// setterVerdict: (receiver fully written on every accepting return, receiver locations read
// before being written).
func setterVerdict(eff *Effects, fn *ssa.Function) (bool, []string) {
	ms := eff.Must(fn)
	full := covered(fn, ms.MustAcc, Loc{0, ""}, 0)
	var exposed []string
	for l := range ms.UER {
		if l.Root == 0 {
			exposed = append(exposed, l.Path)
		}
	}
	sort.Strings(exposed)
	return full, exposed
}

// fullArrayCopy: dst is arr[:] for a pointer-to-array arr of length n and src provably holds at
// least n elements (a slice with constant bounds, or the full slice of an array of length >= n,
// or a string constant): returns arr (the address of the array) — the copy defines it entirely.
func fullArrayCopy(dst, src ssa.Value) ssa.Value {
	ds, ok := dst.(*ssa.Slice)
	if !ok || ds.High != nil || ds.Max != nil {
		return nil
	}
	if ds.Low != nil {
		if k, ok := constInt(ds.Low); !ok || k != 0 {
			return nil
		}
	}
	pt, ok := ds.X.Type().Underlying().(*types.Pointer)
	if !ok {
		return nil
	}
	arr, ok := pt.Elem().Underlying().(*types.Array)
	if !ok {
		return nil
	}
	n := arr.Len()
	switch s := src.(type) {
	case *ssa.Slice:
		if spt, ok := s.X.Type().Underlying().(*types.Pointer); ok && s.High == nil && s.Low == nil {
			if sa, ok := spt.Elem().Underlying().(*types.Array); ok && sa.Len() >= n {
				return ds.X
			}
		}
		if s.High != nil {
			hi, ok1 := constInt(s.High)
			lo := int64(0)
			ok2 := true
			if s.Low != nil {
				lo, ok2 = constInt(s.Low)
			}
			if ok1 && ok2 && hi-lo >= n {
				return ds.X
			}
		}
	}
	return nil
}

// addRange records the definite write of arr[lo:hi] (constant bounds) as a pseudo path element.
func addRange(w mustState, locs []Loc, lo, hi int64) {
	if len(locs) == 1 && locs[0].Root >= 0 && definitePath(locs[0].Path) && lo < hi {
		w[Loc{locs[0].Root, locs[0].Path + "[" + itoa(lo) + ":" + itoa(hi) + "]"}] = true
	}
}

// rangesCover: do the constant ranges and constant indices recorded for the array at l leave no
// gap in [0, n)?
func rangesCover(w mustState, l Loc, n int64) bool {
	type iv struct{ lo, hi int64 }
	var ivs []iv
	for x := range w {
		if x.Root != l.Root || !strings.HasPrefix(x.Path, l.Path+"[") {
			continue
		}
		rest := x.Path[len(l.Path):]
		if !strings.HasSuffix(rest, "]") || strings.Count(rest, "[") != 1 || strings.Contains(rest, ".") {
			continue
		}
		body := rest[1 : len(rest)-1]
		if i := strings.Index(body, ":"); i >= 0 {
			lo, e1 := strconv.ParseInt(body[:i], 10, 64)
			hi, e2 := strconv.ParseInt(body[i+1:], 10, 64)
			if e1 == nil && e2 == nil {
				ivs = append(ivs, iv{lo, hi})
			}
		} else if k, err := strconv.ParseInt(body, 10, 64); err == nil {
			ivs = append(ivs, iv{k, k + 1})
		}
	}
	if len(ivs) == 0 {
		return false
	}
	sort.Slice(ivs, func(i, j int) bool { return ivs[i].lo < ivs[j].lo })
	end := int64(0)
	for _, x := range ivs {
		if x.lo > end {
			return false
		}
		if x.hi > end {
			end = x.hi
		}
	}
	return end >= n
}

// constRangeLocs: v is arr[lo:hi] for a pointer-to-array arr and constant (or absent) bounds, or
// the result of a function of the module every return of which is such a slice of an array
// reached from one of its parameters (an accessor `func (k *Key) scalar() []byte { return
// k.secret[:32] }`): the locations of the array, in terms of the function r describes, and the range.
func constRangeLocs(r *fnResolver, v ssa.Value, depth int) (locs []Loc, lo, hi int64, ok bool) {
	switch x := v.(type) {
	case *ssa.Slice:
		pt, isPtr := x.X.Type().Underlying().(*types.Pointer)
		if !isPtr {
			return nil, 0, 0, false
		}
		// a capacity bound (a[:k:k]) does not change which elements the slice designates
		arr, isArr := pt.Elem().Underlying().(*types.Array)
		if !isArr {
			return nil, 0, 0, false
		}
		lo, hi = 0, arr.Len()
		if x.Low != nil {
			k, isC := constInt(x.Low)
			if !isC {
				return nil, 0, 0, false
			}
			lo = k
		}
		if x.High != nil {
			k, isC := constInt(x.High)
			if !isC {
				return nil, 0, 0, false
			}
			hi = k
		}
		if lo < 0 || hi > arr.Len() || lo >= hi {
			return nil, 0, 0, false
		}
		return r.addrLocs(x.X), lo, hi, true
	case *ssa.Call:
		f := x.Call.StaticCallee()
		if depth > 2 || f == nil || f.Blocks == nil || !strings.HasPrefix(fnPkgPath(f), modPath) || f.Signature.Results().Len() != 1 {
			return nil, 0, 0, false
		}
		if _, isClosure := x.Call.Value.(*ssa.MakeClosure); isClosure {
			return nil, 0, 0, false
		}
		cr := newResolver(f)
		first := true
		for _, b := range f.Blocks {
			ret, isRet := b.Instrs[len(b.Instrs)-1].(*ssa.Return)
			if !isRet || b.Comment == "recover" {
				continue
			}
			cl, l2, h2, ok2 := constRangeLocs(cr, ret.Results[0], depth+1)
			if !ok2 || len(cl) != 1 || cl[0].Root < 0 || cl[0].Root >= len(x.Call.Args) {
				return nil, 0, 0, false
			}
			m := r.locs(x.Call.Args[cl[0].Root], cl[0].Path)
			if len(m) != 1 {
				return nil, 0, 0, false
			}
			if first {
				locs, lo, hi, first = m, l2, h2, false
			} else if locs[0] != m[0] || lo != l2 || hi != h2 {
				return nil, 0, 0, false
			}
		}
		return locs, lo, hi, !first
	}
	return nil, 0, 0, false
}

// holdsAtLeast: src provably has at least n elements (constant-bound slice, full slice of an
// array, string constant).
func holdsAtLeast(src ssa.Value, n int64) bool {
	switch s := src.(type) {
	case *ssa.Slice:
		if spt, ok := s.X.Type().Underlying().(*types.Pointer); ok {
			if sa, ok := spt.Elem().Underlying().(*types.Array); ok {
				lo, hi := int64(0), sa.Len()
				if s.Low != nil {
					k, isC := constInt(s.Low)
					if !isC {
						return false
					}
					lo = k
				}
				if s.High != nil {
					k, isC := constInt(s.High)
					if !isC {
						return false
					}
					hi = k
				}
				return hi-lo >= n
			}
		}
		if s.High != nil {
			hi, ok1 := constInt(s.High)
			lo, ok2 := int64(0), true
			if s.Low != nil {
				lo, ok2 = constInt(s.Low)
			}
			return ok1 && ok2 && hi-lo >= n
		}
	}
	return false
}
