package main

import (
	"go/constant"
	"go/token"
	"go/types"
	"regexp"
	"strings"
	"sync"

	"golang.org/x/tools/go/ssa"
)

// ---------- callee resolution (always through type information) ----------

// Callee describes the resolved target of a call site.
type Callee struct {
	Fn     *ssa.Function // static callee (nil for interface invoke / dynamic)
	Obj    *types.Func   // declared function or interface method
	Name   string        // Obj.Name() or builtin name
	Pkg    string        // package path of Obj
	Recv   string        // receiver named type (without pointer), "" for functions
	Iface  bool          // interface method invocation
	Built  bool          // builtin (len, copy, append, ...)
	Static bool
}

func calleeOf(cc *ssa.CallCommon) Callee {
	var c Callee
	if cc.IsInvoke() {
		c.Obj = cc.Method
		c.Iface = true
	} else if b, ok := cc.Value.(*ssa.Builtin); ok {
		c.Built = true
		c.Name = b.Name()
		return c
	} else if fn := cc.StaticCallee(); fn != nil {
		c.Fn = fn
		c.Static = true
		if o := fn.Origin(); o != nil {
			if ob, ok := o.Object().(*types.Func); ok {
				c.Obj = ob
			}
		}
		if c.Obj == nil {
			if ob, ok := fn.Object().(*types.Func); ok {
				c.Obj = ob
			}
		}
		if c.Obj == nil {
			c.Name = fn.Name()
			c.Pkg = fnPkgPath(fn)
			return c
		}
	} else {
		return c
	}
	if c.Obj != nil {
		c.Name = c.Obj.Name()
		if c.Obj.Pkg() != nil {
			c.Pkg = c.Obj.Pkg().Path()
		}
		if sig, ok := c.Obj.Type().(*types.Signature); ok && sig.Recv() != nil {
			c.Recv = namedName(sig.Recv().Type())
		}
	}
	return c
}

func namedName(t types.Type) string {
	if p, ok := t.(*types.Pointer); ok {
		t = p.Elem()
	}
	switch n := t.(type) {
	case *types.Named:
		return n.Obj().Name()
	case *types.Alias:
		return n.Obj().Name()
	}
	return ""
}

func namedPkg(t types.Type) string {
	if p, ok := t.(*types.Pointer); ok {
		t = p.Elem()
	}
	if n, ok := t.(*types.Named); ok && n.Obj().Pkg() != nil {
		return n.Obj().Pkg().Path()
	}
	return ""
}

// ---------- condition atoms ----------

// Atom is a normalised atomic boolean condition: when Neg is false the atom holds on the
// true edge of the If.
type Atom struct {
	Neg  bool
	Kind string // "call" (bool call result), "nilcmp" (X == nil), "cmp" (X op Y), "val" (opaque bool value)
	Call *ssa.Call
	Idx  int         // result index of Call used
	Op   token.Token // for cmp: EQL NEQ LSS LEQ GTR GEQ (already normalised so that Neg==false)
	X, Y ssa.Value
}

// stripConv removes value-preserving wrappers.
func stripConv(v ssa.Value) ssa.Value {
	for {
		switch x := v.(type) {
		case *ssa.ChangeType:
			v = x.X
		case *ssa.Convert:
			// integer widening only
			if isInteger(x.Type()) && isInteger(x.X.Type()) {
				v = x.X
			} else {
				return v
			}
		case *ssa.MakeInterface:
			v = x.X
		case *ssa.ChangeInterface:
			v = x.X
		default:
			return v
		}
	}
}

func isInteger(t types.Type) bool {
	b, ok := t.Underlying().(*types.Basic)
	return ok && b.Info()&types.IsInteger != 0
}

// callResult unwraps v to the call that produced it (through Extract), if any.
func callResult(v ssa.Value) (*ssa.Call, int) {
	switch x := v.(type) {
	case *ssa.Call:
		return x, 0
	case *ssa.Extract:
		if c, ok := x.Tuple.(*ssa.Call); ok {
			return c, x.Index
		}
	}
	return nil, 0
}

func isNilConst(v ssa.Value) bool {
	c, ok := v.(*ssa.Const)
	return ok && c.Value == nil && !isBasic(c.Type())
}

func isBasic(t types.Type) bool { _, ok := t.Underlying().(*types.Basic); return ok }

func constInt(v ssa.Value) (int64, bool) {
	c, ok := stripConv(v).(*ssa.Const)
	if !ok || c.Value == nil || c.Value.Kind() != constant.Int {
		return 0, false
	}
	return c.Int64(), true
}

func constBool(v ssa.Value) (bool, bool) {
	c, ok := v.(*ssa.Const)
	if !ok || c.Value == nil || c.Value.Kind() != constant.Bool {
		return false, false
	}
	return constant.BoolVal(c.Value), true
}

func negOp(op token.Token) token.Token {
	switch op {
	case token.EQL:
		return token.NEQ
	case token.NEQ:
		return token.EQL
	case token.LSS:
		return token.GEQ
	case token.GEQ:
		return token.LSS
	case token.GTR:
		return token.LEQ
	case token.LEQ:
		return token.GTR
	}
	return op
}

func swapOp(op token.Token) token.Token {
	switch op {
	case token.LSS:
		return token.GTR
	case token.GTR:
		return token.LSS
	case token.LEQ:
		return token.GEQ
	case token.GEQ:
		return token.LEQ
	}
	return op
}

// atomOf normalises a boolean SSA value.
func atomOf(v ssa.Value) Atom {
	neg := false
	for {
		if u, ok := v.(*ssa.UnOp); ok && u.Op == token.NOT {
			neg = !neg
			v = u.X
			continue
		}
		break
	}
	if c, idx := callResult(v); c != nil {
		return Atom{Neg: neg, Kind: "call", Call: c, Idx: idx}
	}
	if b, ok := v.(*ssa.BinOp); ok {
		switch b.Op {
		case token.EQL, token.NEQ, token.LSS, token.LEQ, token.GTR, token.GEQ:
			op := b.Op
			x, y := b.X, b.Y
			if isNilConst(x) {
				x, y = y, x
			}
			if isNilConst(y) && (op == token.EQL || op == token.NEQ) {
				// X == nil holds on true edge iff op==EQL (xor neg)
				isNeg := (op == token.NEQ) != neg
				return Atom{Neg: isNeg, Kind: "nilcmp", X: x}
			}
			if neg {
				op = negOp(op)
			}
			return Atom{Kind: "cmp", Op: op, X: x, Y: y}
		}
	}
	return Atom{Neg: neg, Kind: "val", X: v}
}

// ---------- provenance (cheap, intraprocedural) ----------

// Root is where a value ultimately comes from.
type Root struct {
	Kind  string // "param", "global", "alloc", "call", "const", "free", "other"
	Param *ssa.Parameter
	Glob  *ssa.Global
	Call  *ssa.Call
	Free  *ssa.FreeVar
	Val   ssa.Value
	Path  string // access path from the root: .Field / [*]; dereferences are implicit
}

// rootsOf traces v back through address arithmetic, loads, slices, phis and conversions.
func rootsOf(v ssa.Value) []Root { return rootsOfOpt(v, true) }

// addrRoots is rootsOf for address expressions: a local Alloc is a terminal root (the values
// stored in it are not followed), so "this store writes receiver state" is not confused with
// "this store writes a local copy of receiver state".
func addrRoots(v ssa.Value) []Root { return rootsOfOpt(v, false) }

func rootsOfOpt(v ssa.Value, followAllocs bool) []Root {
	var out []Root
	seen := map[ssa.Value]bool{}
	var walk func(v ssa.Value, path string, depth int)
	walk = func(v ssa.Value, path string, depth int) {
		if v == nil || depth > 40 {
			return
		}
		if seen[v] {
			return
		}
		seen[v] = true
		switch x := v.(type) {
		case *ssa.Parameter:
			out = append(out, Root{Kind: "param", Param: x, Val: x, Path: path})
		case *ssa.Global:
			out = append(out, Root{Kind: "global", Glob: x, Val: x, Path: path})
		case *ssa.FreeVar:
			out = append(out, Root{Kind: "free", Free: x, Val: x, Path: path})
		case *ssa.Alloc:
			// local variable: follow stores into it when it is a plain (non-escaping) cell
			out = append(out, Root{Kind: "alloc", Val: x, Path: path})
			if followAllocs {
				for _, ref := range *x.Referrers() {
					if st, ok := ref.(*ssa.Store); ok && st.Addr == x {
						walk(st.Val, path, depth+1)
					}
				}
			}
		case *ssa.Const:
			out = append(out, Root{Kind: "const", Val: x, Path: path})
		case *ssa.Call:
			out = append(out, Root{Kind: "call", Call: x, Val: x, Path: path})
		case *ssa.Extract:
			switch tu := x.Tuple.(type) {
			case *ssa.Call:
				out = append(out, Root{Kind: "call", Call: tu, Val: x, Path: path})
			case *ssa.Lookup:
				if x.Index == 0 {
					walk(tu.X, "[*]"+path, depth+1)
				} else {
					out = append(out, Root{Kind: "other", Val: x, Path: path})
				}
			case *ssa.TypeAssert:
				if x.Index == 0 {
					walk(tu.X, path, depth+1)
				} else {
					out = append(out, Root{Kind: "other", Val: x, Path: path})
				}
			default:
				out = append(out, Root{Kind: "other", Val: x, Path: path})
			}
		case *ssa.FieldAddr:
			walk(x.X, "."+fieldName(x.X.Type(), x.Field)+path, depth+1)
		case *ssa.Field:
			walk(x.X, "."+fieldName(x.X.Type(), x.Field)+path, depth+1)
		case *ssa.IndexAddr:
			walk(x.X, "[*]"+path, depth+1)
		case *ssa.Index:
			walk(x.X, "[*]"+path, depth+1)
		case *ssa.Lookup:
			walk(x.X, "[*]"+path, depth+1)
		case *ssa.Slice:
			walk(x.X, path, depth+1)
		case *ssa.UnOp:
			if x.Op == token.MUL {
				walk(x.X, path, depth+1)
			} else {
				out = append(out, Root{Kind: "other", Val: x, Path: path})
			}
		case *ssa.Phi:
			for _, e := range x.Edges {
				walk(e, path, depth+1)
			}
		case *ssa.ChangeType:
			walk(x.X, path, depth+1)
		case *ssa.Convert:
			walk(x.X, path, depth+1)
		case *ssa.MakeInterface:
			walk(x.X, path, depth+1)
		case *ssa.ChangeInterface:
			walk(x.X, path, depth+1)
		case *ssa.SliceToArrayPointer:
			walk(x.X, path, depth+1)
		case *ssa.TypeAssert:
			walk(x.X, path, depth+1)
		default:
			out = append(out, Root{Kind: "other", Val: x, Path: path})
		}
	}
	walk(v, "", 0)
	return out
}

func fieldName(t types.Type, i int) string {
	if p, ok := t.Underlying().(*types.Pointer); ok {
		t = p.Elem()
	}
	if s, ok := t.Underlying().(*types.Struct); ok && i < s.NumFields() {
		return s.Field(i).Name()
	}
	return "?"
}

// fromParam reports whether v is derived from the named parameter (or receiver) of its function.
func fromParam(v ssa.Value, name string) bool {
	for _, r := range rootsOf(v) {
		if r.Kind == "param" && r.Param.Name() == name {
			return true
		}
	}
	return false
}

// lenOf: if v is len(x) returns x.
func lenOf(v ssa.Value) ssa.Value {
	v = stripConv(v)
	if c, ok := v.(*ssa.Call); ok {
		if b, ok := c.Call.Value.(*ssa.Builtin); ok && b.Name() == "len" && len(c.Call.Args) == 1 {
			return c.Call.Args[0]
		}
	}
	return nil
}

// ---------- CFG utilities ----------

type edge struct{ from, to int }

// reach computes blocks reachable from start avoiding deleted edges.
func reach(fn *ssa.Function, start *ssa.BasicBlock, deleted map[edge]bool) []bool {
	seen := make([]bool, len(fn.Blocks))
	stack := []*ssa.BasicBlock{start}
	seen[start.Index] = true
	for len(stack) > 0 {
		b := stack[len(stack)-1]
		stack = stack[:len(stack)-1]
		for _, s := range b.Succs {
			if deleted[edge{b.Index, s.Index}] || seen[s.Index] {
				continue
			}
			seen[s.Index] = true
			stack = append(stack, s)
		}
	}
	return seen
}

// pathTo returns one block path from entry to target avoiding deleted edges (BFS), or nil.
func pathTo(fn *ssa.Function, target *ssa.BasicBlock, deleted map[edge]bool) []*ssa.BasicBlock {
	prev := make([]int, len(fn.Blocks))
	for i := range prev {
		prev[i] = -2
	}
	q := []*ssa.BasicBlock{fn.Blocks[0]}
	prev[0] = -1
	for len(q) > 0 {
		b := q[0]
		q = q[1:]
		if b == target {
			var out []*ssa.BasicBlock
			for i := b.Index; i >= 0; i = prev[i] {
				out = append([]*ssa.BasicBlock{fn.Blocks[i]}, out...)
			}
			return out
		}
		for _, s := range b.Succs {
			if deleted[edge{b.Index, s.Index}] || prev[s.Index] != -2 {
				continue
			}
			prev[s.Index] = b.Index
			q = append(q, s)
		}
	}
	return nil
}

// natural loops: header -> set of blocks
type loopInfo struct {
	header *ssa.BasicBlock
	blocks map[int]bool
	backs  []*ssa.BasicBlock // sources of back edges
}

func loopsOf(fn *ssa.Function) []*loopInfo {
	byHeader := map[int]*loopInfo{}
	var order []int
	for _, b := range fn.Blocks {
		for _, s := range b.Succs {
			if s.Dominates(b) { // back edge b -> s
				li := byHeader[s.Index]
				if li == nil {
					li = &loopInfo{header: s, blocks: map[int]bool{s.Index: true}}
					byHeader[s.Index] = li
					order = append(order, s.Index)
				}
				li.backs = append(li.backs, b)
				// natural loop: all blocks that reach b without passing through s
				stack := []*ssa.BasicBlock{b}
				for len(stack) > 0 {
					x := stack[len(stack)-1]
					stack = stack[:len(stack)-1]
					if li.blocks[x.Index] {
						continue
					}
					li.blocks[x.Index] = true
					for _, p := range x.Preds {
						stack = append(stack, p)
					}
				}
			}
		}
	}
	var out []*loopInfo
	for _, h := range order {
		out = append(out, byHeader[h])
	}
	return out
}

// instrPos returns a position for an instruction, falling back to the nearest positioned
// instruction in the block.
func instrPos(in ssa.Instruction) token.Pos {
	if in.Pos().IsValid() {
		return in.Pos()
	}
	b := in.Block()
	if b == nil {
		return token.NoPos
	}
	for _, x := range b.Instrs {
		if x.Pos().IsValid() {
			return x.Pos()
		}
	}
	if b.Parent() != nil {
		return b.Parent().Pos()
	}
	return token.NoPos
}

// hasParamPath reports whether v is derived from parameter/receiver `param` through exactly the
// access path `path` (fields and [*], dereferences implicit). A trailing "..." in path accepts
// any extension.
func hasParamPath(v ssa.Value, param, path string) bool {
	prefix := strings.HasSuffix(path, "...")
	path = strings.TrimSuffix(path, "...")
	for _, r := range rootsOf(v) {
		if r.Kind != "param" || r.Param.Name() != param {
			continue
		}
		if r.Path == path || prefix && strings.HasPrefix(r.Path, path) {
			return true
		}
	}
	return false
}

// derivedFrom reports whether v is derived from parameter p through exactly the access path
// `path` (fields and [*], dereferences implicit). A trailing "..." accepts any extension;
// path "?" accepts any path.
func derivedFrom(v ssa.Value, p *ssa.Parameter, path string) bool {
	prefix := strings.HasSuffix(path, "...")
	path = strings.TrimSuffix(path, "...")
	for _, r := range rootsOf(v) {
		if r.Kind != "param" || r.Param != p {
			continue
		}
		if path == "?" || r.Path == path || prefix && strings.HasPrefix(r.Path, path) {
			return true
		}
	}
	return false
}

func fromP(p *ssa.Parameter, path string) func(v ssa.Value) bool {
	return func(v ssa.Value) bool { return derivedFrom(v, p, path) }
}

// blockReaches: can control flow go from a to b (a != b: via ≥1 edge; a == b: trivially true).
func blockReaches(fn *ssa.Function, a, b *ssa.BasicBlock) bool {
	if a == b {
		return true
	}
	return reach(fn, a, nil)[b.Index]
}

// instrBefore: x strictly precedes y on every execution that reaches y (x dominates y).
func instrDominates(x, y ssa.Instruction) bool {
	bx, by := x.Block(), y.Block()
	if bx == by {
		for _, in := range bx.Instrs {
			if in == x {
				return true
			}
			if in == y {
				return false
			}
		}
		return false
	}
	return bx.Dominates(by)
}

// instrMayPrecede: some execution runs x and later y.
func instrMayPrecede(fn *ssa.Function, x, y ssa.Instruction) bool {
	bx, by := x.Block(), y.Block()
	if bx == by {
		xi, yi := -1, -1
		for i, in := range bx.Instrs {
			if in == x {
				xi = i
			}
			if in == y {
				yi = i
			}
		}
		if xi < yi {
			return true
		}
		// through a cycle
		for _, s := range bx.Succs {
			if blockReaches(fn, s, bx) {
				return true
			}
		}
		return false
	}
	for _, s := range bx.Succs {
		if blockReaches(fn, s, by) {
			return true
		}
	}
	return false
}

// addrDerivedFrom: the address v points into storage reachable from parameter p via path.
func addrDerivedFrom(v ssa.Value, p *ssa.Parameter, path string) bool {
	prefix := strings.HasSuffix(path, "...")
	path = strings.TrimSuffix(path, "...")
	for _, r := range addrRoots(v) {
		if r.Kind != "param" || r.Param != p {
			continue
		}
		if path == "?" || r.Path == path || prefix && strings.HasPrefix(r.Path, path) {
			return true
		}
	}
	return false
}

var reCache = map[string]*regexp.Regexp{}
var reMu sync.Mutex

func mustRe(p string) *regexp.Regexp {
	reMu.Lock()
	defer reMu.Unlock()
	if r, ok := reCache[p]; ok {
		return r
	}
	r := regexp.MustCompile(p)
	reCache[p] = r
	return r
}
