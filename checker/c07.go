package main

import (
	"go/constant"
	"fmt"
	"go/token"
	"go/types"
	"regexp"
	"sort"
	"strings"

	"golang.org/x/tools/go/ssa"
)

func init() { register("C07", checkC07) }

// coordLeaves lists the access paths (from a struct type) of all components whose named type is
// "Element": the coordinates a decoder has to parse.
func coordLeaves(t types.Type, prefix string, depth int) []string {
	if depth > 6 {
		return nil
	}
	if n, ok := t.(*types.Named); ok && n.Obj().Name() == "Element" {
		return []string{prefix}
	}
	st, ok := t.Underlying().(*types.Struct)
	if !ok {
		return nil
	}
	var out []string
	for i := 0; i < st.NumFields(); i++ {
		out = append(out, coordLeaves(st.Field(i).Type(), prefix+"."+st.Field(i).Name(), depth+1)...)
	}
	return out
}

func recvStruct(fn *ssa.Function) types.Type {
	if fn.Signature.Recv() == nil {
		return nil
	}
	t := fn.Signature.Recv().Type()
	if p, ok := t.(*types.Pointer); ok {
		t = p.Elem()
	}
	return t
}

const (
	patZeroed   = `^ok isZeroed\(`
	patSqrtOK   = `^(Element|E\d+)\.Sqrt\(.*\) != nil$|^-1 != (Element|E\d+)\.Legendre\(|^(Element|E\d+)\.Legendre\(.*\) != -1$`
	patSubgroup = `^ok G[12]Affine\.IsInSubGroup\(pr\)$`
	patOnCurve  = `^ok (G[12]Affine|PointAffine)\.IsOnCurve\(pr\)$`
)

func canonReqs(fn *ssa.Function, field string) []Req {
	var out []Req
	t := recvStruct(fn)
	st, ok := t.Underlying().(*types.Struct)
	if !ok {
		return nil
	}
	for i := 0; i < st.NumFields(); i++ {
		if st.Field(i).Name() != field {
			continue
		}
		for _, leaf := range coordLeaves(st.Field(i).Type(), "."+field, 0) {
			out = append(out, Req{"Canonical(" + strings.TrimPrefix(leaf, ".") + ")", `^noerr Element\.SetBytesCanonical\(pr` + regexp.QuoteMeta(leaf) + `,`})
		}
	}
	return out
}

// boolParamAssume returns the statement pattern deleting the edges on which the bool parameter
// named like a subgroup switch is false.
func boolParamFalse(fn *ssa.Function) []string {
	var out []string
	off := 0
	if fn.Signature.Recv() != nil {
		off = 1
	}
	for i := off; i < len(fn.Params); i++ {
		if b, ok := fn.Params[i].Type().Underlying().(*types.Basic); ok && b.Kind() == types.Bool {
			out = append(out, fmt.Sprintf(`^!p%d$`, i-off))
		}
	}
	return out
}

func checkC07(c *Ctx) {
	p := mustLoad(c, K1)
	eff := NewEffects(p)
	curves := p.FamilyPkgs("ecc/*")
	var curvePkgs []string
	for _, pk := range curves {
		if p.Func(pk, "G1Affine", "setBytes") != nil {
			curvePkgs = append(curvePkgs, pk)
		}
	}
	c.Rule("C07.guard", "GUARD per accepting return of every point decoder (G1/G2 setBytes, unsafeSetCompressedBytes, unsafeComputeY, twisted-Edwards PointAffine.SetBytes, GT SetBytes): the return is the infinity branch with an all-zero payload (ok isZeroed), or every coordinate was parsed by the strict parser with its error tested (noerr SetBytesCanonical per coordinate leaf) and a recovered coordinate comes from a checked square root / Legendre test; with subgroup checks enabled the success edge of IsInSubGroup dominates it; on-curve membership holds on every accepting return (subgroup check, on-curve check, or coordinate recovered from the curve equation)", 40)
	c.Rule("C07.def", "DEFASSIGN: on every accepting return of a point decoder both coordinates of the destination are definitely written (the decoded value does not depend on what the destination held before); unsafeSetCompressedBytes defines X on every accepting return and the whole point on the returns that report infinity; decoders never read the destination before writing it", 40)
	c.Rule("C07.strict", "WHO-MAY-CALL: inside decoders coordinates are parsed only by strict parsers (SetBytesCanonical / ByteOrder.Element); lenient setters (SetBytes, SetBigInt, SetString, SetInterface) are never applied to a component of the destination", 40)
	c.Rule("C07.err", "ERRORS: in the stream codec (Decoder.Decode, Encoder.encode/encodeRaw, Vector/Domain/SRS/key/polynomial ReadFrom/WriteTo and their helpers) every error returned by a callee is inspected, and an error assigned inside a loop is tested before the next iteration overwrites it", 300)
	c.Rule("C07.read", "READFULL: no decoder calls Reader.Read without comparing the returned count (short reads); io.ReadFull / binary.Read are used instead", 0)
	c.Rule("C07.par", "PARALLEL-PHASE: in Decoder.Decode the closures that validate points in parallel record every failing validation (unsafeComputeY error, IsInSubGroup false) in an object shared with Decode — an atomic counter, or a call that writes a record captured by the closure — and every accepting return that follows the parallel phase is dominated by the test that nothing was recorded (counter == 0, recorded error == nil)", 14)
	c.Rule("C07.sqrt", "PARTIAL: in decoders the result of Sqrt is compared with nil or the call is dominated by a Legendre != -1 test of the same operand", 20)

	decName := regexp.MustCompile(`^(setBytes|unsafeSetCompressedBytes|unsafeComputeY|SetBytes|SetBytesCanonical)$`)
	var decoders []*ssa.Function

	for _, pk := range curvePkgs {
		for _, g := range []string{"G1Affine", "G2Affine"} {
			sb := p.Func(pk, g, "setBytes")
			if sb == nil {
				continue
			}
			decoders = append(decoders, sb)
			cx, cy := canonReqs(sb, "X"), canonReqs(sb, "Y")
			zero := Req{"ZeroedInfinity", patZeroed}
			sqrt := Req{"SqrtChecked", patSqrtOK}
			altFull := append(append([]Req{}, cx...), cy...)
			altCompressed := append(append([]Req{}, cx...), sqrt)
			RequireDNF(c, p, "C07.guard", sb, AcceptNilErr, nil, "infinity-zeroed-or-coordinates-canonical", [][]Req{{zero}, altFull, altCompressed})
			RequireDNF(c, p, "C07.guard", sb, AcceptNilErr, boolParamFalse(sb), "subgroup-checked", [][]Req{{zero}, {{"InSubgroup", patSubgroup}}})
			RequireDNF(c, p, "C07.guard", sb, AcceptNilErr, nil, "on-curve", [][]Req{{zero}, {{"InSubgroup", patSubgroup}}, {{"OnCurve", patOnCurve}}, altCompressed})
			RequireFacts(c, p, "C07.guard", sb, AcceptNilErr, nil, []Req{{"LenGE(compressed)", `^\d+ <= len\(p0\)$`}})
			if us := p.Func(pk, g, "unsafeSetCompressedBytes"); us != nil {
				decoders = append(decoders, us)
				RequireDNF(c, p, "C07.guard", us, AcceptNilErr, nil, "infinity-zeroed-or-X-canonical", [][]Req{{zero}, cx})
				checkUnsafeSetDef(c, p, eff, us)
			}
			if uy := p.Func(pk, g, "unsafeComputeY"); uy != nil {
				decoders = append(decoders, uy)
				RequireFacts(c, p, "C07.guard", uy, AcceptNilErr, nil, []Req{sqrt})
				RequireFacts(c, p, "C07.guard", uy, AcceptNilErr, boolParamFalse(uy), []Req{{"InSubgroup", patSubgroup}})
			}
			// the zero-padding test of an infinity encoding covers the whole encoding of *this*
			// group: the slice handed to isZeroed ends at SizeOf<G>Compressed / Uncompressed
			{
				sizes := map[int64]bool{}
				if pkgT := p.ByPath[modPath+"/"+pk]; pkgT != nil && pkgT.Types != nil {
					for _, suf := range []string{"Compressed", "Uncompressed"} {
						if cn, ok := pkgT.Types.Scope().Lookup("SizeOf" + g + suf).(*types.Const); ok {
							if v, exact := constant.Int64Val(cn.Val()); exact {
								sizes[v] = true
							}
						}
					}
				}
				for _, dfn := range []*ssa.Function{sb, p.Func(pk, g, "unsafeSetCompressedBytes")} {
					if dfn == nil || len(sizes) == 0 {
						continue
					}
					for _, b := range dfn.Blocks {
						for _, in := range b.Instrs {
							call, ok := in.(*ssa.Call)
							if !ok || calleeOf(&call.Call).Name != "isZeroed" || len(call.Call.Args) != 2 {
								continue
							}
							sl, ok := call.Call.Args[1].(*ssa.Slice)
							if !ok || sl.High == nil {
								continue
							}
							h, isConst := constInt(sl.High)
							if !isConst {
								continue
							}
							c.Ob("C07.guard", pk, funcKey(dfn), fmt.Sprintf("zero-padding-covers-encoding(%s)", p.Pos(call.Pos())), p.Pos(call.Pos()), sizes[h],
								fmt.Sprintf("%s: the zero-padding test of the infinity encoding stops at byte %d, which is not the size of a %s encoding: the bytes after it are not looked at and a non-canonical infinity is accepted", funcKey(dfn), h, g))
						}
					}
				}
			}
			checkSetterDef(c, p, eff, "C07.def", sb)
		}
		// GT
		for _, g := range []string{"E12", "E24", "E6"} {
			if fn := p.Func(pk+"/internal/fptower", g, "SetBytes"); fn != nil {
				decoders = append(decoders, fn)
				var reqs []Req
				for _, leaf := range coordLeaves(recvStruct(fn), "", 0) {
					reqs = append(reqs, Req{"Canonical(" + strings.TrimPrefix(leaf, ".") + ")", `^noerr Element\.SetBytesCanonical\(pr` + regexp.QuoteMeta(leaf) + `,`})
				}
				reqs = append(reqs, Req{"LenEq(SizeOfGT)", `^\d+ == len\(p0\)$`})
				RequireFacts(c, p, "C07.guard", fn, AcceptNilErr, nil, reqs)
				checkSetterDef(c, p, eff, "C07.def", fn)
			}
		}
	}
	for _, pk := range p.FamilyPkgs("ecc/*/twistededwards", "ecc/bls12-381/bandersnatch") {
		fn := p.Func(pk, "PointAffine", "SetBytes")
		if fn == nil {
			continue
		}
		decoders = append(decoders, fn)
		if cx := p.Func(pk, "", "computeX"); cx != nil {
			decoders = append(decoders, cx)
		}
		RequireFacts(c, p, "C07.guard", fn, AcceptNilErr, nil, []Req{
			{"LenGE(compressed)", `^\d+ <= len\(p0\)$`},
			{"Canonical(Y)", `^noerr Element\.SetBytesCanonical\(pr\.Y,`},
			{"OnCurve", patOnCurve},
		})
		checkSetterDef(c, p, eff, "C07.def", fn)
	}

	// ---- who-may-call + partial functions, in decoders
	for _, fn := range decoders {
		c.Instance("C07.strict", 1)
		checkStrictParsers(c, p, "C07.strict", fn)
	}
	{
		var dec []*ssa.Function
		for _, fn := range decoders {
			// computeX (twisted Edwards) is not scanned: its caller validates the recovered X with
			// the OnCurve guard required above, which rejects the no-square-root case
			if decName.MatchString(fn.Name()) {
				dec = append(dec, fn)
			}
		}
		sites, hits := uncheckedPartialsGuarded(dec)
		c.Instance("C07.sqrt", sites)
		reportFindings(c, p, "C07.sqrt", dec, hits, "sqrt-checked")
	}

	// ---- sign flags are canonical
	c.Rule("C07.sign", "SIGN-CANONICAL: where a decoder negates the recovered coordinate because the flag asks for the 'largest' / negative root although the computed root is not the largest one, the coordinate is known to be non-zero (dominating IsZero test): 0 = -0 has a single encoding, so a set sign flag with a zero coordinate is an alias that re-encodes to different bytes", 40)
	// the decoders and the functions of their package they hand part of the work to
	var signScope []*ssa.Function
	{
		seen := map[*ssa.Function]bool{}
		var add func(fn *ssa.Function, d int)
		add = func(fn *ssa.Function, d int) {
			if fn == nil || seen[fn] || fn.Blocks == nil || d > 2 {
				return
			}
			seen[fn] = true
			signScope = append(signScope, fn)
			for _, b := range fn.Blocks {
				for _, in := range b.Instrs {
					if ci, ok := in.(ssa.CallInstruction); ok {
						if sc := ci.Common().StaticCallee(); sc != nil && fnPkgPath(sc) == fnPkgPath(fn) && !decName.MatchString(sc.Name()) {
							add(sc, d+1)
						}
					}
				}
			}
		}
		for _, fn := range decoders {
			if decName.MatchString(fn.Name()) {
				add(fn, 0)
			}
		}
	}
	for _, fn := range signScope {
		ctx := blockContextsN(fn, 0)
		var negs []ssa.Instruction
		for _, b := range fn.Blocks {
			if !strings.Contains(ctx[b.Index], "not ") || !strings.Contains(ctx[b.Index], ".LexicographicallyLargest(") {
				continue
			}
			neg := false
			for _, f := range strings.Split(strings.Trim(ctx[b.Index], " @{}"), ";") {
				if strings.HasPrefix(f, "not ") && strings.Contains(f, ".LexicographicallyLargest(") {
					neg = true
				}
			}
			if !neg {
				continue
			}
			for _, in := range b.Instrs {
				if call, ok := in.(*ssa.Call); ok && calleeOf(&call.Call).Name == "Neg" && len(call.Call.Args) == 2 && (call.Call.Args[0] == call.Call.Args[1] || descValue(call.Call.Args[0], 0) == descValue(call.Call.Args[1], 0)) {
					negs = append(negs, in)
				}
			}
		}
		if len(negs) == 0 {
			continue
		}
		RequireFactsAtInstr(c, p, "C07.sign", fn, negs, "negated-to-largest", []Req{{"coordinate-non-zero", `^not \w+\.IsZero\(`}})
	}

	// ---- codec error discipline and raw reads
	codec := codecFuncs(p)
	c.Rule("C07.stalecap", "STALE-CAPACITY: the codec never extends a slice into its spare capacity (a scratch buffer kept in the Decoder and resliced per call still holds the flags / bytes of the previous call; the decoding loops rely on the zero values of a fresh make)", 20)
	{
		n := 0
		var hits []Finding
		seenFn := map[*ssa.Function]bool{}
		for _, pk := range curvePkgs {
			for _, fn := range libFuncs(p, pk) {
				if seenFn[fn] || !strings.HasSuffix(p.Fset.Position(fn.Pos()).Filename, "marshal.go") {
					continue
				}
				seenFn[fn] = true
				k, h := staleCapacityReslices(p, fn)
				n += k
				hits = append(hits, h...)
			}
		}
		c.Instance("C07.stalecap", n)
		reportFindings(c, p, "C07.stalecap", nil, hits, "")
		c.Ob("C07.stalecap", "-", "-", "reslices-scanned", "-", n > 0, "no reslice found in the codec files")
	}
	c.Rule("C07.zerouse", "L-ZEROUSE (belief contradiction) over the curve packages and their towers: on the branch where P.IsZero() returned true, P is not asked for its sign (LexicographicallyLargest, Legendre) nor multiplied / inverted: the answer is a constant, so the test looks at another coordinate than the one consulted (the compressed encoding picks the sign bit from the first non-zero coordinate from the top)", 20)
	{
		n := 0
		var hits []Finding
		seenFn := map[*ssa.Function]bool{}
		for _, pk := range curvePkgs {
			for _, pat := range []string{pk, pk + "/internal/fptower"} {
				for _, fn := range libFuncs(p, pat) {
					if seenFn[fn] {
						continue
					}
					seenFn[fn] = true
					k, h := zeroKnownOperands(p, fn)
					n += k
					hits = append(hits, h...)
				}
			}
		}
		c.Instance("C07.zerouse", n)
		reportFindings(c, p, "C07.zerouse", nil, hits, "")
		c.Ob("C07.zerouse", "-", "-", "zero-tests-scanned", "-", n > 0, "no IsZero test found")
	}
	{
		sites, hits := droppedErrors(p, codec)
		c.Instance("C07.err", sites)
		reportFindings(c, p, "C07.err", codec, hits, "errors-inspected")
	}
	{
		all := libFuncs(p)
		sites, hits := rawReads(all)
		c.Instance("C07.read", sites)
		reportFindings(c, p, "C07.read", nil, hits, "")
		// positive control: the rule must recognise a raw Read (synthetic check on the matcher)
		c.Ob("C07.read", "-", "-", "matcher-control", "-", rawReadControl(p), "the raw-Read matcher no longer recognises io.Reader.Read (checker self-test)")
	}

	// ---- parallel validation phase of Decoder.Decode
	for _, pk := range curvePkgs {
		if dec := p.Func(pk, "Decoder", "Decode"); dec != nil {
			checkParallelPhase(c, p, dec)
			// items of a compressed slice are set by unsafeSetCompressedBytes, which trusts the
			// flag bits: the stream decoder validates the mask of each item before it
			var sets []ssa.Instruction
			for _, b := range dec.Blocks {
				for _, in := range b.Instrs {
					if call, ok := in.(*ssa.Call); ok && calleeOf(&call.Call).Name == "unsafeSetCompressedBytes" {
						sets = append(sets, in)
					}
				}
			}
			// (curves with a 3-bit flag field have reserved patterns and an isMaskInvalid predicate;
			// the 2-bit layouts of bn254 / grumpkin / stark-curve / secp256k1 have none)
			if len(sets) > 0 && p.Func(pk, "", "isMaskInvalid") != nil {
				RequireFactsAtInstr(c, p, "C07.guard", dec, sets, "compressed-slice-item-set", []Req{{"item-mask-valid", `^not isMaskInvalid\(`}})
			}
		}
	}
	for t := range eff.Trusted {
		c.Trust(t)
	}
	c.Assume("IsInSubGroup implies IsOnCurve for the accepted point (C02 clause); isZeroed/isCompressed helpers do what their names say (12 lines, read)")
}

// checkSetterDef: receiver fully written on accept, never read before written.
func checkSetterDef(c *Ctx, p *Program, eff *Effects, rule string, fn *ssa.Function) {
	c.Instance(rule, 1)
	full, exposed := setterVerdict(eff, fn)
	pkg, fk := relPkg(fnPkgPath(fn)), funcKey(fn)
	msg := ""
	if !full {
		ms := eff.Must(fn)
		msg = fmt.Sprintf("%s: on some accepting return the destination is not completely written (definitely written: %v): the decoded value then depends on what the destination held before the call", fk, sortedLocs(ms.MustAcc))
	}
	c.Ob(rule, pkg, fk, "destination-fully-defined", p.Pos(fn.Pos()), full, msg)
	msg = ""
	if len(exposed) > 0 {
		msg = fmt.Sprintf("%s: reads its destination (paths %v) before writing it", fk, exposed)
	}
	c.Ob(rule, pkg, fk, "destination-not-read-before-written", p.Pos(fn.Pos()), len(exposed) == 0, msg)
}

// checkUnsafeSetDef: per-return obligations of unsafeSetCompressedBytes.
func checkUnsafeSetDef(c *Ctx, p *Program, eff *Effects, fn *ssa.Function) {
	c.Instance("C07.def", 1)
	ms := eff.Must(fn)
	pkg, fk := relPkg(fnPkgPath(fn)), funcKey(fn)
	bi := resultIndex(fn, AcceptTrueBool)
	okX, okInf := true, true
	var posX, posInf string
	n := 0
	for ret, w := range ms.AtRet {
		n++
		if !covered(fn, w, Loc{0, ".X"}, 0) {
			okX = false
			posX = p.Pos(instrPos(ret))
		}
		if bi >= 0 && mayBeTrue(retValue(ret, bi), 0) {
			if !covered(fn, w, Loc{0, ""}, 0) {
				okInf = false
				posInf = p.Pos(instrPos(ret))
			}
		}
	}
	if n == 0 {
		okX, okInf = false, false
	}
	c.Ob("C07.def", pkg, fk, "X-defined-on-accept", firstNonEmpty(posX, p.Pos(fn.Pos())), okX, fk+": an accepting return leaves X unwritten")
	c.Ob("C07.def", pkg, fk, "point-defined-when-infinity-reported", firstNonEmpty(posInf, p.Pos(fn.Pos())), okInf,
		fk+": an accepting return that may report isInfinity=true does not write the whole point; the caller skips the second phase for such items, so a reused destination keeps its previous value")
}

func firstNonEmpty(a, b string) string {
	if a != "" {
		return a
	}
	return b
}

// checkStrictParsers: no lenient setter on a component of the receiver.
func checkStrictParsers(c *Ctx, p *Program, rule string, fn *ssa.Function) {
	if fn.Signature.Recv() == nil {
		return
	}
	recv := fn.Params[0]
	ok := true
	msg, pos := "", p.Pos(fn.Pos())
	for _, b := range fn.Blocks {
		for _, in := range b.Instrs {
			call, isCall := in.(*ssa.Call)
			if !isCall {
				continue
			}
			cl := calleeOf(&call.Call)
			if cl.Recv != "Element" || len(call.Call.Args) == 0 {
				continue
			}
			switch cl.Name {
			case "SetBytes", "SetBigInt", "SetString", "SetInterface", "SetBytesLittleEndian":
				if addrDerivedFrom(call.Call.Args[0], recv, "...") {
					ok = false
					pos = p.Pos(instrPos(in))
					msg = fmt.Sprintf("%s parses a coordinate of the destination with the lenient %s (values >= q are reduced instead of rejected, so non-canonical encodings are accepted)", funcKey(fn), descCallee(cl))
				}
			}
		}
	}
	c.Ob(rule, relPkg(fnPkgPath(fn)), funcKey(fn), "strict-parsers-only", pos, ok, msg)
}

// uncheckedPartialsGuarded: L7 with the Legendre idiom accepted.
func uncheckedPartialsGuarded(fns []*ssa.Function) (int, []Finding) {
	sites, hits := uncheckedPartials(fns)
	var out []Finding
	for _, h := range hits {
		// accept when the function tests Legendre(...) against -1 in a block dominating the call
		guarded := false
		var callBlock *ssa.BasicBlock
		for _, b := range h.Fn.Blocks {
			for _, in := range b.Instrs {
				if in.Pos() == h.Pos {
					callBlock = b
				}
			}
		}
		if callBlock != nil {
			for _, b := range h.Fn.Blocks {
				iff, ok := b.Instrs[len(b.Instrs)-1].(*ssa.If)
				if !ok || !b.Dominates(callBlock) {
					continue
				}
				a := atomOf(iff.Cond)
				if a.Kind == "cmp" {
					for _, v := range []ssa.Value{a.X, a.Y} {
						if call, _ := callResult(v); call != nil && calleeOf(&call.Call).Name == "Legendre" {
							guarded = true
						}
					}
				}
			}
		}
		if !guarded {
			out = append(out, h)
		}
	}
	return sites, out
}

// reportFindings turns lint hits into obligations: one failing obligation per hit, and one
// passing obligation per scanned function without hits (so that the evidence shows coverage).
func reportFindings(c *Ctx, p *Program, rule string, scanned []*ssa.Function, hits []Finding, okConstruct string) {
	bad := map[*ssa.Function]bool{}
	for _, h := range hits {
		bad[h.Fn] = true
		c.Ob(rule, relPkg(fnPkgPath(h.Fn)), funcKey(h.Fn), h.Construct, p.Pos(h.Pos), false, h.Msg)
	}
	if okConstruct == "" {
		return
	}
	for _, fn := range scanned {
		if !bad[fn] {
			c.Ob(rule, relPkg(fnPkgPath(fn)), funcKey(fn), okConstruct, p.Pos(fn.Pos()), true, "")
		}
	}
}

// codecFuncs: the stream codec and (de)serialisation entry points with their closures.
func codecFuncs(p *Program) []*ssa.Function {
	name := regexp.MustCompile(`^(Decode|Encode|encode|encodeRaw|ReadFrom|WriteTo|UnsafeReadFrom|WriteRawTo|writeTo|readFrom|AsyncReadFrom|WriteDump|ReadDump|readUint32|readUint64|Unmarshal|UnmarshalBinary|MarshalBinary|Marshal|SetBytes|setBytes|ReadFromSlow|UnsafeToBytes|UnsafeFromBytes)$`)
	var out []*ssa.Function
	for _, fn := range libFuncs(p) {
		root := fn
		for root.Parent() != nil {
			root = root.Parent()
		}
		if name.MatchString(root.Name()) {
			out = append(out, fn)
		}
	}
	sort.Slice(out, func(i, j int) bool { return funcKey(out[i]) < funcKey(out[j]) })
	return out
}

// rawReadControl: the matcher recognises io.Reader.Read (type-level self-test, nothing executed).
func rawReadControl(p *Program) bool {
	for _, pkg := range p.Prog.AllPackages() {
		if pkg.Pkg.Path() == "io" {
			if tn, ok := pkg.Pkg.Scope().Lookup("Reader").(*types.TypeName); ok {
				if it, ok := tn.Type().Underlying().(*types.Interface); ok {
					for i := 0; i < it.NumMethods(); i++ {
						if isReadMethod(it.Method(i)) {
							return true
						}
					}
				}
			}
		}
	}
	return false
}

// checkParallelPhase: C07.par on one Decoder.Decode.
func checkParallelPhase(c *Ctx, p *Program, dec *ssa.Function) {
	pkg, fk := relPkg(fnPkgPath(dec)), funcKey(dec)
	nSites := 0
	for _, b := range dec.Blocks {
		for _, in := range b.Instrs {
			call, ok := in.(*ssa.Call)
			if !ok {
				continue
			}
			cl := calleeOf(&call.Call)
			if cl.Name != "Execute" || !strings.HasSuffix(cl.Pkg, "internal/parallel") {
				continue
			}
			var clo *ssa.MakeClosure
			for _, a := range call.Call.Args {
				if mc, ok := a.(*ssa.MakeClosure); ok {
					clo = mc
				}
			}
			if clo == nil {
				continue
			}
			cf := clo.Fn.(*ssa.Function)
			// validations inside the closure
			type val struct {
				call *ssa.Call
				name string
			}
			var vals []val
			var adds []*ssa.Call
			for _, cb := range cf.Blocks {
				for _, ci := range cb.Instrs {
					cc, ok := ci.(*ssa.Call)
					if !ok {
						continue
					}
					ccl := calleeOf(&cc.Call)
					switch {
					case ccl.Name == "unsafeComputeY" || ccl.Name == "IsInSubGroup" || ccl.Name == "IsOnCurve":
						vals = append(vals, val{cc, ccl.Name})
					case ccl.Pkg == "sync/atomic" && strings.HasPrefix(ccl.Name, "Add"):
						adds = append(adds, cc)
					default:
						// a recorder: a call that writes an object shared with the caller (a free
						// variable of the closure) — firstErr.report(i, err)
						if len(cc.Call.Args) > 0 && !cc.Call.IsInvoke() {
							if fv, isFV := addrBase(cc.Call.Args[0]).(*ssa.FreeVar); isFV && fv != nil && callMayWriteArg(cf, cc, cc.Call.Args[0]) {
								if cal := cc.Call.StaticCallee(); cal != nil && strings.HasPrefix(fnPkgPath(cal), modPath) {
									adds = append(adds, cc)
								}
							}
						}
					}
				}
			}
			if len(vals) == 0 {
				continue
			}
			nSites++
			c.Instance("C07.par", 1)
			// (a) every validation's failing edge leads to an atomic add before leaving the iteration
			okA := true
			posA := p.Pos(instrPos(in))
			for _, v := range vals {
				failBlocks := failingSuccessors(v.call)
				if len(failBlocks) == 0 {
					okA = false
					posA = p.Pos(instrPos(v.call))
					continue
				}
				for _, fb := range failBlocks {
					has := false
					for _, a := range adds {
						if fb == a.Block() || fb.Dominates(a.Block()) && len(fb.Succs) <= 1 {
							has = true
						}
					}
					if !has {
						okA = false
						posA = p.Pos(instrPos(v.call))
					}
				}
			}
			cons := fmt.Sprintf("closure-counts-failures(%s)", descValue(call.Call.Args[0], 0))
			c.Ob("C07.par", pkg, fk, cons, posA, okA, fk+": a failing validation inside the parallel phase does not increment the error counter")
			// (b) the counter is tested before every accepting return that follows
			okB := true
			posB := p.Pos(instrPos(in))
			if len(adds) > 0 && len(clo.Bindings) > 0 {
				// counter cell = the binding whose free variable is the atomic's address
				var cell ssa.Value
				for i, fv := range cf.FreeVars {
					for _, a := range adds {
						if a.Call.Args[0] == ssa.Value(fv) || addrBase(a.Call.Args[0]) == ssa.Value(fv) {
							cell = clo.Bindings[i]
						}
					}
				}
				if cell == nil {
					okB = false
				} else {
					deleted := map[edge]bool{}
					for _, bb := range dec.Blocks {
						iff, ok := bb.Instrs[len(bb.Instrs)-1].(*ssa.If)
						if !ok {
							continue
						}
						a := atomOf(iff.Cond)
						if a.Kind == "nilcmp" {
							// a field of the shared record compared with nil: the edge on which it is nil
							if ld, isLoad := a.X.(*ssa.UnOp); isLoad && addrBase(ld.X) == cell {
								nilEdge := 0
								if a.Neg {
									nilEdge = 1
								}
								deleted[edge{bb.Index, bb.Succs[nilEdge].Index}] = true
							}
							continue
						}
						if a.Kind != "cmp" {
							continue
						}
						if _, cl := constInt(a.X); cl {
							a.X, a.Y, a.Op = a.Y, a.X, swapOp(a.Op)
						}
						ld, isLoad := a.X.(*ssa.UnOp)
						k, isZero := constInt(a.Y)
						if !isLoad || addrBase(ld.X) != cell || !isZero || (k != 0 && k != 1) {
							continue
						}
						// delete the edge on which counter == 0 holds; for an unsigned counter
						// `c <= 0` and `c < 1` say the same as `c == 0`
						uns := isUnsigned(ld.Type())
						for ei := 0; ei < 2; ei++ {
							op := a.Op
							if ei == 1 {
								op = negOp(op)
							}
							if (k == 0 && (op == token.EQL || (uns && op == token.LEQ))) || (k == 1 && uns && op == token.LSS) {
								deleted[edge{bb.Index, bb.Succs[ei].Index}] = true
							}
						}
					}
					acc, _ := acceptReturns(dec, AcceptNilErr)
					seen := reach(dec, b, deleted)
					for _, a := range acc {
						if a.ret.Block() != b && !b.Dominates(a.ret.Block()) {
							continue
						}
						if seen[a.ret.Block().Index] {
							okB = false
							posB = p.Pos(instrPos(a.ret))
						}
					}
				}
			} else {
				okB = false
			}
			c.Ob("C07.par", pkg, fk, fmt.Sprintf("counter-tested-before-accept(%s)", descValue(call.Call.Args[0], 0)), posB, okB, fk+": an accepting return after the parallel validation phase is reachable without testing the error counter")
		}
	}
	if nSites == 0 {
		c.Ob("C07.par", pkg, fk, "parallel-phase-present", p.Pos(dec.Pos()), false, fk+": no parallel validation phase recognised (slices of compressed points must be validated)")
	}
}

// failingSuccessors: blocks entered when the validation call fails (error != nil / bool false).
func failingSuccessors(call *ssa.Call) []*ssa.BasicBlock {
	var out []*ssa.BasicBlock
	var conds []ssa.Value
	vals := []ssa.Value{call}
	for _, r := range *call.Referrers() {
		if ex, ok := r.(*ssa.Extract); ok {
			vals = append(vals, ex)
		}
	}
	for _, v := range vals {
		if v.Referrers() == nil {
			continue
		}
		for _, r := range *v.Referrers() {
			switch x := r.(type) {
			case *ssa.BinOp:
				conds = append(conds, x)
			case *ssa.UnOp:
				conds = append(conds, x)
			case *ssa.If:
				conds = append(conds, v)
			}
		}
	}
	for _, cv := range conds {
		if cv.Referrers() == nil {
			continue
		}
		for _, r := range *cv.Referrers() {
			iff, ok := r.(*ssa.If)
			if !ok {
				continue
			}
			a := atomOf(iff.Cond)
			blk := iff.Block()
			switch a.Kind {
			case "call":
				fail := 1
				if a.Neg {
					fail = 0
				}
				out = append(out, blk.Succs[fail])
			case "nilcmp":
				fail := 1 // nil on true edge -> failure on false edge
				if a.Neg {
					fail = 0
				}
				out = append(out, blk.Succs[fail])
			}
		}
	}
	return out
}
