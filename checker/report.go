package main

import (
	"encoding/json"
	"fmt"
	"os"
	"path/filepath"
	"sort"
	"strings"
	"sync"
	"time"
)

var verifDir = "/verif"

// Obligation is one decided instance of a rule.
type Obligation struct {
	Rule    string   `json:"rule"`
	Key     string   `json:"key"` // rule|pkg|func|construct  (never a line number)
	Pos     string   `json:"pos,omitempty"`
	OK      bool     `json:"ok"`
	Msg     string   `json:"msg,omitempty"`
	Witness []string `json:"witness,omitempty"`
	Config  string   `json:"config,omitempty"`
}

type RuleStat struct {
	Name        string `json:"name"`
	Text        string `json:"text"`
	Instances   int    `json:"instances"`
	Obligations int    `json:"obligations"`
	Discharged  int    `json:"discharged"`
	Floor       int    `json:"floor"`
	Controls    int    `json:"positive_controls_fired"`
}

type KnownFinding struct {
	Property string `json:"property"`
	Key      string `json:"key"`
	What     string `json:"what"`
	Status   string `json:"status"` // open | fixed
	Commit   string `json:"commit,omitempty"`
}

// Ctx accumulates what one check run covered.
type Ctx struct {
	Prop  string
	Tier  string
	Seed  int
	Only  string // when explaining: only this key
	start time.Time

	mu          sync.Mutex
	obs         []Obligation
	rules       map[string]*RuleStat
	ruleOrder   []string
	assumptions []string
	trusted     []string
	configs     []string
	undecided   []string
	pkgs, funcs int
	notes       []string
}

func NewCtx(prop, tier string, seed int) *Ctx {
	return &Ctx{Prop: prop, Tier: tier, Seed: seed, start: time.Now(), rules: map[string]*RuleStat{}}
}

func (c *Ctx) Thorough() bool { return c.Tier == "thorough" }

// Rule declares a rule (idempotent) with its text and instance floor.
func (c *Ctx) Rule(name, text string, floor int) *RuleStat {
	c.mu.Lock()
	defer c.mu.Unlock()
	if r, ok := c.rules[name]; ok {
		return r
	}
	r := &RuleStat{Name: name, Text: text, Floor: floor}
	c.rules[name] = r
	c.ruleOrder = append(c.ruleOrder, name)
	return r
}

// Instance counts one analysed instance (function, call site, pair...) of a rule.
func (c *Ctx) Instance(rule string, n int) {
	c.mu.Lock()
	defer c.mu.Unlock()
	if r := c.rules[rule]; r != nil {
		r.Instances += n
	} else {
		panic("undeclared rule " + rule)
	}
}

func (c *Ctx) Control(rule string) {
	c.mu.Lock()
	defer c.mu.Unlock()
	c.rules[rule].Controls++
}

// Ob records one obligation. construct must not contain positions.
func (c *Ctx) Ob(rule, pkg, fn, construct, pos string, ok bool, msg string, witness ...string) {
	key := rule + "|" + pkg + "|" + fn + "|" + construct
	c.mu.Lock()
	defer c.mu.Unlock()
	r := c.rules[rule]
	if r == nil {
		panic("undeclared rule " + rule)
	}
	r.Obligations++
	if ok {
		r.Discharged++
	}
	c.obs = append(c.obs, Obligation{Rule: rule, Key: key, Pos: pos, OK: ok, Msg: msg, Witness: witness})
}

func (c *Ctx) Assume(s string) {
	c.mu.Lock()
	defer c.mu.Unlock()
	for _, a := range c.assumptions {
		if a == s {
			return
		}
	}
	c.assumptions = append(c.assumptions, s)
}
func (c *Ctx) Trust(s string) {
	c.mu.Lock()
	defer c.mu.Unlock()
	for _, a := range c.trusted {
		if a == s {
			return
		}
	}
	c.trusted = append(c.trusted, s)
}
func (c *Ctx) Note(s string) { c.mu.Lock(); c.notes = append(c.notes, s); c.mu.Unlock() }

// Undecided records something the checker could not decide (unresolved anchor, unknown idiom in
// the checker's own tables). It makes the run fail without a verdict.
func (c *Ctx) Undecided(format string, a ...any) {
	c.mu.Lock()
	defer c.mu.Unlock()
	c.undecided = append(c.undecided, fmt.Sprintf(format, a...))
}

func (c *Ctx) UseProgram(p *Program) {
	c.mu.Lock()
	defer c.mu.Unlock()
	for _, k := range c.configs {
		if k == p.Cfg.ID {
			return
		}
	}
	c.configs = append(c.configs, fmt.Sprintf("%s", p.Cfg.ID))
	c.pkgs += len(p.Roots)
	c.funcs += len(p.AllFuncs())
}

func loadKnown() ([]KnownFinding, error) {
	b, err := os.ReadFile(filepath.Join(verifDir, "known_findings.json"))
	if err != nil {
		if os.IsNotExist(err) {
			return nil, nil
		}
		return nil, err
	}
	var k []KnownFinding
	if err := json.Unmarshal(b, &k); err != nil {
		return nil, fmt.Errorf("known_findings.json: %w", err)
	}
	return k, nil
}

// Finish prints the report, writes evidence, and returns the exit code.
func (c *Ctx) Finish() int {
	known, err := loadKnown()
	if err != nil {
		fmt.Println("ERROR:", err)
		return 2
	}
	open := map[string]KnownFinding{}
	for _, k := range known {
		if k.Property == c.Prop && k.Status == "open" {
			open[k.Key] = k
		}
	}
	// de-duplicate obligations by key+config: a key failing in any configuration fails.
	sort.SliceStable(c.obs, func(i, j int) bool { return c.obs[i].Key < c.obs[j].Key })
	var fails, knownHits []Obligation
	seenFail := map[string]bool{}
	for _, o := range c.obs {
		if o.OK {
			continue
		}
		if c.Only != "" && o.Key != c.Only {
			continue
		}
		if seenFail[o.Key] {
			continue
		}
		seenFail[o.Key] = true
		if _, ok := open[o.Key]; ok {
			knownHits = append(knownHits, o)
		} else {
			fails = append(fails, o)
		}
	}
	// floors
	for _, name := range c.ruleOrder {
		r := c.rules[name]
		// Floor is the instance count confirmed by hand on the reference tree. A rule that finds
		// fewer than three quarters of it no longer sees the code it was written for (it would pass
		// vacuously): undecided. The slack absorbs restructurings that merge duplicated code (two
		// decoders sharing one helper are one instance where there were two).
		if r.Instances < r.Floor*3/4 {
			c.undecided = append(c.undecided, fmt.Sprintf("rule %s analysed %d instances, less than three quarters of the %d confirmed on the reference tree (rule would pass vacuously)", name, r.Instances, r.Floor))
		}
	}
	fmt.Printf("== %s tier=%s configs=%v\n", c.Prop, c.Tier, c.configs)
	tot, dis := 0, 0
	for _, name := range c.ruleOrder {
		r := c.rules[name]
		tot += r.Obligations
		dis += r.Discharged
		fmt.Printf("rule %-28s instances=%-5d obligations=%-5d discharged=%-5d floor=%d\n", r.Name, r.Instances, r.Obligations, r.Discharged, r.Floor)
	}
	for _, o := range knownHits {
		k := open[o.Key]
		fmt.Printf("KNOWN-FINDING: property=%s %s [%s] at %s\n", c.Prop, k.What, o.Key, o.Pos)
	}
	violDir := filepath.Join(verifDir, "evidence", "violations")
	// clear stale violation files of this property
	if old, _ := filepath.Glob(filepath.Join(violDir, c.Prop+"-*.json")); len(old) > 0 && c.Only == "" {
		for _, f := range old {
			os.Remove(f)
		}
	}
	for i, o := range fails {
		os.MkdirAll(violDir, 0o755)
		path := filepath.Join(violDir, fmt.Sprintf("%s-%d.json", c.Prop, i+1))
		b, _ := json.MarshalIndent(map[string]any{"property": c.Prop, "obligation": o}, "", " ")
		os.WriteFile(path, b, 0o644)
		fmt.Printf("%s: [%s] %s\n", o.Pos, o.Rule, o.Msg)
		for _, w := range o.Witness {
			fmt.Printf("    %s\n", w)
		}
		fmt.Printf("    key: %s\n", o.Key)
		fmt.Printf("VIOLATION property=%s replay=%s\n", c.Prop, path)
	}
	for _, u := range c.undecided {
		fmt.Printf("UNDECIDED property=%s %s\n", c.Prop, u)
	}
	code := 0
	if len(fails) > 0 {
		code = 1
	} else if len(c.undecided) > 0 {
		code = 2
	}
	if c.Only == "" {
		c.writeEvidence(tot, dis, len(fails), len(knownHits))
	}
	fmt.Printf("== %s: obligations=%d discharged=%d violations=%d known=%d undecided=%d wall=%.1fs exit=%d\n", c.Prop, tot, dis, len(fails), len(knownHits), len(c.undecided), time.Since(c.start).Seconds(), code)
	return code
}

func (c *Ctx) writeEvidence(tot, dis, nviol, nknown int) {
	var rules []*RuleStat
	var texts []string
	for _, n := range c.ruleOrder {
		rules = append(rules, c.rules[n])
		texts = append(texts, n+": "+c.rules[n].Text)
	}
	// samples: up to 3 obligations per rule, written out.
	var samples []any
	per := map[string]int{}
	distinct := map[string]bool{}
	for _, o := range c.obs {
		distinct[o.Key] = true
		if per[o.Rule] < 3 {
			per[o.Rule]++
			samples = append(samples, map[string]any{"key": o.Key, "pos": o.Pos, "ok": o.OK, "msg": o.Msg})
		}
	}
	if len(samples) == 0 {
		samples = append(samples, "no obligations generated")
	}
	ev := map[string]any{
		"property_id": c.Prop,
		"tier":        c.Tier,
		"seed":        c.Seed,
		"level":       "other",
		"coverage": map[string]any{
			"explanation": "static analysis of /repo's current working tree (go/packages type-check + go/ssa + VTA call graph; no repository code executed). " +
				"Each obligation is one instance of a structural rule that is a necessary condition of the property; value-level behaviour is not decided. Rules: " + strings.Join(texts, " || "),
			"obligations":         tot,
			"discharged":          dis,
			"evaluations":         tot,
			"distinct_nontrivial": len(distinct),
			"rule":                "obligations are enumerated from the resolved program (rule × package × function × construct); distinct = distinct obligation keys; every enumerated instance is decided, none sampled",
			"samples":             samples,
			"checker_cmd":         fmt.Sprintf("/verif/bin/gcverif -prop %s -tier %s", c.Prop, c.Tier),
			"trusted_base":        c.trusted,
			"exhaustive":          true,
			"configurations":      c.configs,
			"packages_loaded":     c.pkgs,
			"ssa_functions":       c.funcs,
			"rules":               rules,
			"known_findings_hit":  nknown,
			"undecided":           c.undecided,
			"notes":               c.notes,
		},
		"assumptions": c.assumptions,
		"wall_s":      time.Since(c.start).Seconds(),
		"violations":  nviol,
	}
	if c.trusted == nil {
		ev["coverage"].(map[string]any)["trusted_base"] = []string{}
	}
	if c.assumptions == nil {
		ev["assumptions"] = []string{}
	}
	b, _ := json.MarshalIndent(ev, "", " ")
	os.MkdirAll(filepath.Join(verifDir, "evidence"), 0o755)
	os.WriteFile(filepath.Join(verifDir, "evidence", c.Prop+".json"), b, 0o644)
}
