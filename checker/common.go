package main

// Lints that apply to every property over the packages the property is about.

var propScopes = map[string][]string{
	"C01": {"ecc/*/fp", "ecc/*/fr", "field/babybear", "field/koalabear", "field/goldilocks", "ecc/secp256k1/fp", "ecc/secp256k1/fr", "ecc/stark-curve/fp", "ecc/stark-curve/fr"},
	"C02": {"ecc/*"},
	"C03": {"ecc/*", "ecc/*/twistededwards", "ecc/*/bandersnatch"},
	"C04": {"ecc/*"},
	"C05": {"ecc/*", "ecc/*/internal/fptower"},
	"C06": {"ecc/*/internal/fptower", "field/*/extensions"},
	"C07": {"ecc/*", "ecc/*/internal/fptower"},
	"C08": {"ecc/*/fp", "ecc/*/fr", "field/babybear", "field/koalabear", "field/goldilocks"},
	"C09": {"field/babybear", "field/koalabear", "field/goldilocks", "field/*/extensions", "field/*/sis", "field/*/poseidon2", "ecc/*/fr", "ecc/*/fp"},
	"C10": {"ecc/*/fr/fft", "field/*/fft"},
	"C11": {"ecc/*/kzg"},
	"C12": {"ecc/*/ecdsa", "ecc/*/twistededwards/eddsa", "ecc/*/bandersnatch/eddsa", "signature/*"},
	"C13": {"ecc/*", "ecc/*/hash_to_curve", "ecc/*/fr/hash_to_field", "ecc/*/fp/hash_to_field", "field/hash"},
	"C14": {"ecc/*/fr/mimc", "ecc/*/fr/poseidon2", "field/*/poseidon2", "ecc/*/fr/sis", "field/*/sis", "hash"},
	"C15": {"fiat-shamir"},
	"C16": {"accumulator/merkletree", "field/koalabear/vortex"},
	"C17": {"ecc/*/fr/pedersen", "ecc/*/shplonk", "ecc/*/fflonk", "ecc/*/fr/permutation", "ecc/*/fr/plookup", "ecc/*/fr/fri", "ecc/*/mpcsetup", "field/koalabear/vortex"},
	"C19": {"ecc/*", "ecc/*/fp", "ecc/*/fr", "ecc/*/twistededwards", "ecc/*/bandersnatch", "ecc/*/internal/fptower", "ecc/*/fr/polynomial", "ecc/*/fr/iop", "field/babybear", "field/koalabear", "field/goldilocks", "field/*/extensions", "field/eisenstein"},
	"C20": {"ecc/*/fr/iop", "ecc/*/fr/polynomial"},
}

func commonLints(c *Ctx) {
	pats, ok := propScopes[c.Prop]
	if !ok {
		return
	}
	p := mustLoad(c, K1)
	if c.Prop != "C19" {
		constCondLint(c, p, pats...)
	}
	if c.Prop == "C09" || c.Prop == "C19" {
		elemAliasLint(c, p, pats)
	}
	if c.Prop != "C19" {
		rule := c.Prop + ".errprop"
		n := 0
		var hits []Finding
		for _, fn := range libFuncs(p, pats...) {
			k, h := swallowedErrors(p, fn)
			n += k
			hits = append(hits, h...)
		}
		if n > 0 {
			c.Rule(rule, "ERROR PROPAGATION: on the branch where the error returned by a callee is known to be non-nil, a function that itself returns an error does not return nil in its place (one reviewed exception: kzg.NewSRS on fr.Generator(4), unreachable)", 0)
			c.Instance(rule, n)
			reportFindings(c, p, rule, nil, hits, "")
			c.Ob(rule, "-", "-", "error-branches-scanned", "-", true, "")
		}
	}
	{
		rule := c.Prop + ".rotate"
		n := 0
		var hits []Finding
		for _, fn := range libFuncs(p, pats...) {
			k, h := rotatedWithoutTemp(p, fn)
			n += k
			hits = append(hits, h...)
		}
		if n > 0 {
			c.Rule(rule, "ROTATION WITHOUT TEMPORARY (the broken swap): no two consecutive assignments `o.f = g(o.h); o.h = o.f` (plain or fluent: z.A0.Neg(&z.A1); z.A1.Set(&z.A0)) — the second reads the field the first has just overwritten, the previous o.f is lost", 0)
			c.Instance(rule, n)
			reportFindings(c, p, rule, nil, hits, "")
			c.Ob(rule, "-", "-", "consecutive-field-writes-scanned", "-", true, "")
		}
	}
	if c.Prop != "C17" && c.Prop != "C19" {
		rule := c.Prop + ".dead"
		n := 0
		var hits []Finding
		for _, fn := range libFuncs(p, pats...) {
			k, h := deadAccumulatorsMin(p, fn, 2)
			n += k
			hits = append(hits, h...)
		}
		if n > 0 {
			c.Rule(rule, "DEAD ACCUMULATOR: a local built by two or more arithmetic steps (fluent calls with the local as destination) is used afterwards — compared, passed on, stored or returned; a value prepared and dropped is a term, a check or a correction that no longer reaches the result", 0)
			c.Instance(rule, n)
			reportFindings(c, p, rule, nil, hits, "")
			c.Ob(rule, "-", "-", "accumulated-locals-scanned", "-", true, "")
		}
	}
	if narrowRemProps[c.Prop] {
		rule := c.Prop + ".narrowrem"
		c.Rule(rule, "NARROW-BEFORE-REDUCE: no remainder `T(v) % m` is taken of a value converted to a narrower integer type T first (the residue would be that of v mod 2^bits), unless the source is known to fit — a remainder, a mask, a shift, a constant — or m is a power of two", 0)
		n := 0
		var hits []Finding
		for _, fn := range libFuncs(p, pats...) {
			k, h := narrowBeforeReduce(p, fn)
			n += k
			hits = append(hits, h...)
		}
		c.Instance(rule, n)
		reportFindings(c, p, rule, nil, hits, "")
		c.Ob(rule, "-", "-", "integer-remainders-scanned", "-", n > 0, "no integer remainder found in the property's packages")
	}
}

func elemAliasLint(c *Ctx, p *Program, pats []string) {
	rule := c.Prop + ".elemalias"
	c.Rule(rule, "ELEMENT-ALIAS: a function taking a pointer a *T and a slice of T (parameter or receiver) whose elements it writes does not read *a after such a write (a may point at an element of the slice: the library's idiom is a copy of *a taken before the loop; the assembly kernels load their scalar operand once) — otherwise the result under that aliasing depends on which code path runs", 0)
	n := 0
	var hits []Finding
	registerScanProgram(p)
	for _, fn := range libFuncs(p, pats...) {
		k, h := elementAliasHazard(p, fn)
		n += k
		hits = append(hits, h...)
	}
	c.Instance(rule, n)
	reportFindings(c, p, rule, nil, hits, "")
	c.Ob(rule, "-", "-", "pointer-and-slice-operand-pairs-analysed", "-", n > 0, "no function with a *T and a []T operand found")
}

// properties about code that reduces machine integers modulo a field characteristic or a size
var narrowRemProps = map[string]bool{"C01": true, "C08": true, "C09": true, "C13": true, "C14": true}
