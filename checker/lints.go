package main

import (
	"fmt"
	"go/ast"
	"go/token"
	"go/types"
	"os"
	"regexp"
	"strings"

	"golang.org/x/tools/go/ssa"
)

// Finding is one lint hit (rules decide which hits are obligations).
type Finding struct {
	Fn        *ssa.Function
	Pos       token.Pos
	Construct string
	Msg       string
}

func libFuncs(p *Program, pkgPats ...string) []*ssa.Function {
	var out []*ssa.Function
	want := map[string]bool{}
	for _, pk := range p.FamilyPkgs(pkgPats...) {
		want[pk] = true
	}
	for _, fn := range p.RepoFuncs() {
		pk := relPkg(fnPkgPath(fn))
		if len(pkgPats) > 0 && !want[pk] {
			continue
		}
		if !libPkg(pk) {
			continue
		}
		if fn.Origin() != nil && fn.Origin() != fn {
			continue
		}
		out = append(out, fn)
	}
	return out
}

// ---------- L1: raw Read ----------

// isReadMethod: method Read([]byte) (int, error).
func isReadMethod(f *types.Func) bool {
	if f == nil || f.Name() != "Read" {
		return false
	}
	sig, ok := f.Type().(*types.Signature)
	if !ok || sig.Recv() == nil || sig.Params().Len() != 1 || sig.Results().Len() != 2 {
		return false
	}
	return isByteSlice(sig.Params().At(0).Type()) && isErrorType(sig.Results().At(1).Type())
}

// rawReads: call sites of a Read method whose byte count is not compared with anything (a short
// read goes unnoticed). Functions that themselves implement Read (wrappers) are skipped.
func rawReads(fns []*ssa.Function) (sites int, hits []Finding) {
	for _, fn := range fns {
		if fn.Name() == "Read" {
			continue
		}
		for _, b := range fn.Blocks {
			for _, in := range b.Instrs {
				call, ok := in.(*ssa.Call)
				if !ok {
					continue
				}
				cl := calleeOf(&call.Call)
				if !isReadMethod(cl.Obj) {
					continue
				}
				if cl.Pkg == "crypto/rand" || cl.Pkg == "math/rand" {
					continue
				}
				sites++
				// is the count result compared?
				counted := false
				for _, r := range *call.Referrers() {
					if ex, ok := r.(*ssa.Extract); ok && ex.Index == 0 {
						for _, u := range *ex.Referrers() {
							if bo, ok := u.(*ssa.BinOp); ok {
								switch bo.Op {
								case token.EQL, token.NEQ, token.LSS, token.LEQ, token.GTR, token.GEQ:
									counted = true
								}
							}
						}
					}
				}
				if !counted {
					hits = append(hits, Finding{fn, instrPos(in), "raw-Read(" + descValue(call.Call.Value, 0) + ")",
						fmt.Sprintf("%s calls %s.Read directly and never compares the returned count with the buffer length: a short read (allowed by io.Reader) yields a partially filled buffer that is then decoded; use io.ReadFull", funcKey(fn), descCallee(cl))})
				}
			}
		}
	}
	return
}

// ---------- L2: error discipline ----------

// neverFails: callees whose error result is documented to be always nil.
func neverFails(cl Callee) bool {
	if cl.Name == "Write" && (cl.Pkg == "hash" || cl.Recv == "Hash" || cl.Recv == "digest" || cl.Recv == "Digest" || cl.Recv == "merkleDamgardHasher" || cl.Recv == "Buffer" || cl.Recv == "Builder" || cl.Recv == "state" || cl.Recv == "ShakeHash") {
		return true
	}
	switch cl.Pkg {
	case "bytes", "strings", "hash", "crypto/sha256", "crypto/sha512", "golang.org/x/crypto/sha3", "golang.org/x/crypto/blake2b", "fmt":
		return true
	}
	return false
}

// errorResults: error-typed results of a call (Extracts or the call itself).
func errorResults(call *ssa.Call) []ssa.Value {
	var out []ssa.Value
	if isErrorType(call.Type()) {
		return []ssa.Value{call}
	}
	if _, ok := call.Type().(*types.Tuple); ok {
		for _, r := range *call.Referrers() {
			if ex, ok := r.(*ssa.Extract); ok && isErrorType(ex.Type()) {
				out = append(out, ex)
			}
		}
	}
	return out
}

// callHasErrorResult reports the index of the error result (-1 if none).
func callErrIndex(call *ssa.Call) int {
	res := call.Call.Signature().Results()
	for i := res.Len() - 1; i >= 0; i-- {
		if isErrorType(res.At(i).Type()) {
			return i
		}
	}
	return -1
}

// usedMeaningfully: v reaches a comparison, a return, a call argument, a store, a channel send
// or an interface conversion — directly or through phis. loopPhis collects loop-header phis on
// the way.
func errUses(v ssa.Value, seen map[ssa.Value]bool, loopPhis *[]*ssa.Phi) bool {
	if seen[v] {
		return false
	}
	seen[v] = true
	refs := v.Referrers()
	if refs == nil {
		return false
	}
	used := false
	for _, r := range *refs {
		switch x := r.(type) {
		case *ssa.Phi:
			if loopPhis != nil {
				*loopPhis = append(*loopPhis, x)
			}
			if errUses(x, seen, loopPhis) {
				used = true
			}
		case *ssa.DebugRef:
		default:
			used = true
		}
	}
	return used
}

// droppedErrors finds (a) error results that are never used and (b) error results whose only
// use is to be merged into a loop-carried variable that is overwritten by the next iteration
// without being tested inside the loop.
func droppedErrors(p *Program, fns []*ssa.Function) (sites int, hits []Finding) {
	for _, fn := range fns {
		var loops []*loopInfo
		loopsDone := false
		for _, b := range fn.Blocks {
			for _, in := range b.Instrs {
				call, ok := in.(*ssa.Call)
				if !ok {
					continue
				}
				ei := callErrIndex(call)
				if ei < 0 {
					continue
				}
				cl := calleeOf(&call.Call)
				if neverFails(cl) {
					continue
				}
				sites++
				errs := errorResults(call)
				if len(errs) == 0 {
					hits = append(hits, Finding{fn, instrPos(in), "unused-error(" + descCallee(cl) + ")",
						fmt.Sprintf("%s discards the error returned by %s", funcKey(fn), descCallee(cl))})
					continue
				}
				for _, e := range errs {
					var phis []*ssa.Phi
					if !errUses(e, map[ssa.Value]bool{}, &phis) {
						hits = append(hits, Finding{fn, instrPos(in), "unused-error(" + descCallee(cl) + ")",
							fmt.Sprintf("%s never inspects the error returned by %s", funcKey(fn), descCallee(cl))})
						continue
					}
					// (b) direct uses are only phis?
					onlyPhi := true
					for _, r := range *e.Referrers() {
						switch r.(type) {
						case *ssa.Phi, *ssa.DebugRef:
						default:
							onlyPhi = false
						}
					}
					if !onlyPhi {
						continue
					}
					if !loopsDone {
						loops = loopsOf(fn)
						loopsDone = true
					}
					for _, r := range *e.Referrers() {
						ph, ok := r.(*ssa.Phi)
						if !ok {
							continue
						}
						for _, l := range loops {
							if l.header != ph.Block() || !l.blocks[b.Index] {
								continue
							}
							// the loop carries the error in ph; is ph (or e) tested inside the loop?
							tested := false
							for bi := range l.blocks {
								blk := fn.Blocks[bi]
								if iff, ok := blk.Instrs[len(blk.Instrs)-1].(*ssa.If); ok {
									a := atomOf(iff.Cond)
									if a.Kind == "nilcmp" && (a.X == ssa.Value(ph) || a.X == e) {
										tested = true
									}
								}
							}
							if !tested {
								hits = append(hits, Finding{fn, instrPos(in), "overwritten-error(" + descCallee(cl) + ")",
									fmt.Sprintf("%s assigns the error of %s inside a loop and overwrites it on the next iteration without testing it: a failure on any item but the last is reported as success", funcKey(fn), descCallee(cl))})
							}
						}
					}
				}
			}
		}
	}
	return
}

// ---------- L7: results of partial functions ----------

// partialCallee: functions returning nil / false when the mathematical result does not exist.
func partialCallee(cl Callee) bool {
	switch cl.Name {
	case "Sqrt":
		return cl.Recv == "Element" || cl.Recv == "E2" || cl.Recv == "E4" || cl.Recv == "Int"
	case "ModSqrt", "ModInverse":
		return cl.Pkg == "math/big"
	}
	return false
}

// uncheckedPartials: calls to Sqrt/ModSqrt/ModInverse whose result is not compared with nil.
func uncheckedPartials(fns []*ssa.Function) (sites int, hits []Finding) {
	for _, fn := range fns {
		for _, b := range fn.Blocks {
			for _, in := range b.Instrs {
				call, ok := in.(*ssa.Call)
				if !ok {
					continue
				}
				cl := calleeOf(&call.Call)
				if !partialCallee(cl) {
					continue
				}
				if _, isPtr := call.Type().Underlying().(*types.Pointer); !isPtr {
					continue
				}
				sites++
				checked := false
				var walk func(v ssa.Value, d int)
				walk = func(v ssa.Value, d int) {
					if d > 4 || v.Referrers() == nil {
						return
					}
					for _, r := range *v.Referrers() {
						switch x := r.(type) {
						case *ssa.BinOp:
							if (x.Op == token.EQL || x.Op == token.NEQ) && (isNilConst(x.X) || isNilConst(x.Y)) {
								checked = true
							}
						case *ssa.Phi:
							walk(x, d+1)
						case *ssa.Return:
							checked = true // handed to the caller, who must check
						}
					}
				}
				walk(call, 0)
				if !checked {
					hits = append(hits, Finding{fn, instrPos(in), "unchecked(" + descCallee(cl) + ")",
						fmt.Sprintf("%s ignores whether %s found a result (nil = none exists) and continues with an unspecified value", funcKey(fn), descCallee(cl))})
				}
			}
		}
	}
	return
}

// ---------- L17: lazily initialised globals ----------

// onceInit describes globals written only inside a function handed to sync.Once.Do.
type onceInit struct {
	global *ssa.Global
	once   *ssa.Global   // the sync.Once variable
	initFn *ssa.Function // function run by once.Do
}

// findOnceInits discovers (once variable, init function) pairs and the globals the init
// function (transitively, within its package) writes.
func findOnceInits(p *Program, eff *Effects, fns []*ssa.Function) []onceInit {
	var out []onceInit
	seen := map[string]bool{}
	for _, fn := range fns {
		for _, b := range fn.Blocks {
			for _, in := range b.Instrs {
				call, ok := in.(*ssa.Call)
				if !ok {
					continue
				}
				cl := calleeOf(&call.Call)
				if cl.Pkg != "sync" || cl.Recv != "Once" || cl.Name != "Do" || len(call.Call.Args) != 2 {
					continue
				}
				onceG, ok := call.Call.Args[0].(*ssa.Global)
				if !ok {
					continue
				}
				var initFn *ssa.Function
				switch f := call.Call.Args[1].(type) {
				case *ssa.Function:
					initFn = f
				case *ssa.MakeClosure:
					initFn = f.Fn.(*ssa.Function)
				}
				if initFn == nil {
					continue
				}
				s := eff.Summary(initFn)
				for l := range s.Writes {
					if l.Root >= 0 || !strings.HasPrefix(l.Path, "g:") {
						continue
					}
					name := strings.TrimPrefix(splitGlobalName(l.Path), "g:")
					key := name + "|" + onceG.String()
					if seen[key] {
						continue
					}
					seen[key] = true
					// resolve the global
					i := strings.LastIndex(name, ".")
					if i < 0 {
						continue
					}
					pkgPath, gname := name[:i], name[i+1:]
					if pkgPath != onceG.Pkg.Pkg.Path() {
						continue
					}
					if g, ok := onceG.Pkg.Members[gname].(*ssa.Global); ok && g != onceG && !isSyncPrimitive(g.Type()) {
						out = append(out, onceInit{g, onceG, initFn})
					}
				}
			}
		}
	}
	return out
}

// splitGlobalName returns the "g:pkg.Name" prefix of a global path.
func splitGlobalName(path string) string {
	// path = g:<pkgpath>.<Name><fields...>; pkgpath may contain dots and slashes. The name starts
	// after the last '/'-segment's first '.'.
	rest := path
	slash := strings.LastIndex(rest, "/")
	dot := strings.Index(rest[slash+1:], ".")
	if dot < 0 {
		return path
	}
	nameStart := slash + 1 + dot + 1
	end := nameStart
	for end < len(rest) && rest[end] != '.' && rest[end] != '[' {
		end++
	}
	return rest[:end]
}

// readsGlobal: instructions of fn that load from (an address derived from) g.
func readsOfGlobal(fn *ssa.Function, g *ssa.Global) []ssa.Instruction {
	var out []ssa.Instruction
	for _, b := range fn.Blocks {
		for _, in := range b.Instrs {
			switch x := in.(type) {
			case *ssa.UnOp:
				if x.Op != token.MUL {
					continue
				}
				for _, r := range addrRoots(x.X) {
					if r.Kind == "global" && r.Glob == g {
						out = append(out, in)
					}
				}
			case ssa.CallInstruction:
				// an address inside the global handed to a callee is read there
				for _, a := range x.Common().Args {
					if !isPtrLikeType(a.Type()) {
						continue
					}
					hit := false
					for _, r := range addrRoots(a) {
						if r.Kind == "global" && r.Glob == g {
							hit = true
						}
					}
					if hit {
						out = append(out, in)
						break
					}
				}
			}
		}
	}
	return out
}

// callsOnceDo: instructions of fn that call once.Do on the given Once variable (directly or via
// a same-package helper that does so on every path, depth 1).
func onceDoCalls(fn *ssa.Function, once *ssa.Global) []ssa.Instruction {
	var out []ssa.Instruction
	for _, b := range fn.Blocks {
		for _, in := range b.Instrs {
			call, ok := in.(*ssa.Call)
			if !ok {
				continue
			}
			cl := calleeOf(&call.Call)
			if cl.Pkg == "sync" && cl.Recv == "Once" && cl.Name == "Do" && len(call.Call.Args) == 2 && call.Call.Args[0] == ssa.Value(once) {
				out = append(out, in)
				continue
			}
			// helper that starts with once.Do
			if cl.Fn != nil && cl.Fn.Blocks != nil && cl.Fn.Pkg == fn.Pkg && cl.Fn != fn {
				for _, in2 := range cl.Fn.Blocks[0].Instrs {
					if c2, ok := in2.(*ssa.Call); ok {
						cl2 := calleeOf(&c2.Call)
						if cl2.Pkg == "sync" && cl2.Recv == "Once" && cl2.Name == "Do" && len(c2.Call.Args) == 2 && c2.Call.Args[0] == ssa.Value(once) {
							out = append(out, in)
						}
					}
				}
			}
		}
	}
	return out
}

// lazyInitViolations implements L17.
func lazyInitViolations(p *Program, eff *Effects, fns []*ssa.Function) (inits []onceInit, sites int, hits []Finding) {
	inits = findOnceInits(p, eff, fns)
	cg := p.CallGraph()
	for _, oi := range inits {
		// functions reachable from the init function run under the Once
		under := map[*ssa.Function]bool{oi.initFn: true}
		stack := []*ssa.Function{oi.initFn}
		for len(stack) > 0 {
			f := stack[len(stack)-1]
			stack = stack[:len(stack)-1]
			if n := cg.Nodes[f]; n != nil {
				for _, e := range n.Out {
					if !under[e.Callee.Func] && e.Callee.Func.Pkg == oi.initFn.Pkg {
						under[e.Callee.Func] = true
						stack = append(stack, e.Callee.Func)
					}
				}
			}
		}
		memo := map[*ssa.Function]int{} // 1 in progress, 2 safe, 3 unsafe
		var safeEntry func(f *ssa.Function, depth int) bool
		// siteGuarded: the instruction is dominated by a once.Do in its function
		siteGuarded := func(f *ssa.Function, in ssa.Instruction) bool {
			for _, d := range onceDoCalls(f, oi.once) {
				if instrDominates(d, in) {
					return true
				}
			}
			return false
		}
		// safeEntry: every way of entering f happens after once.Do
		safeEntry = func(f *ssa.Function, depth int) bool {
			if under[f] {
				return true
			}
			switch memo[f] {
			case 1:
				return true
			case 2:
				return true
			case 3:
				return false
			}
			memo[f] = 1
			ok := true
			if depth > 6 {
				ok = false
			}
			exported := f.Parent() == nil && f.Object() != nil && f.Object().Exported()
			if exported {
				ok = false // callable by users directly
			}
			n := cg.Nodes[f]
			if ok && (n == nil || len(n.In) == 0) {
				// no callers inside the module: package init or dead code
				ok = true
			}
			if ok && n != nil {
				for _, e := range n.In {
					h := e.Caller.Func
					if e.Site == nil {
						ok = false
						break
					}
					if siteGuarded(h, e.Site) {
						continue
					}
					if !safeEntry(h, depth+1) {
						ok = false
						break
					}
				}
			}
			if ok {
				memo[f] = 2
			} else {
				memo[f] = 3
			}
			return ok
		}
		for _, f := range fns {
			if f.Pkg == nil && f.Parent() == nil {
				continue
			}
			if fnPkgPath(f) != oi.global.Pkg.Pkg.Path() || under[f] {
				continue
			}
			if f.Name() == "init" || strings.HasPrefix(f.Name(), "init#") {
				continue
			}
			for _, rd := range readsOfGlobal(f, oi.global) {
				sites++
				if siteGuarded(f, rd) {
					continue
				}
				// closures: the enclosing function's guard counts when it dominates the closure creation
				if safeEntry(f, 0) {
					continue
				}
				hits = append(hits, Finding{f, instrPos(rd), "lazy-read(" + oi.global.Name() + ")",
					fmt.Sprintf("%s reads %s, which is only initialised inside %s.Do(%s), without a dominating %s.Do on this path or in every caller: the first call in a fresh process computes with the zero value", funcKey(f), oi.global.Name(), oi.once.Name(), oi.initFn.Name(), oi.once.Name())})
				break
			}
		}
	}
	return
}

func runLint(which string) {
	p, err := Load(K1)
	if err != nil {
		fmt.Println(err)
		return
	}
	fns := libFuncs(p)
	var hits []Finding
	var sites int
	if which == "CONTINUE" {
		n, out := continueSkipsCounter(p)
		fmt.Printf("CONTINUE: %d loops with trailing updates, %d findings\n", n, len(out))
		for _, o := range out {
			fmt.Println(o)
		}
		return
	}
	switch which {
	case "L1":
		sites, hits = rawReads(fns)
	case "L2":
		sites, hits = droppedErrors(p, fns)
	case "L7":
		sites, hits = uncheckedPartials(fns)
	case "L12":
		re := regexp.MustCompile(os.Getenv("GCV_FUNCS"))
		for _, fn := range fns {
			if !re.MatchString(funcKey(fn)) {
				continue
			}
			n, h := unguardedAccesses(p, fn)
			sites += n
			hits = append(hits, h...)
		}
	case "L19":
		sites, hits = montgomeryLimbReads(fns)
	case "ARGROLE":
		sites, hits = swappedArguments(p)
		if os.Getenv("GCV_DEBUG") != "" {
			debugArgRoles(p)
		}
	case "SCAN", "ABS", "ZEROUSE", "ARRIDX", "WIDTH", "SUBALIAS", "ASMBOUNDS", "DEAD", "RANGEOFF", "SHAREDFIELD", "STALECAP", "CHUNKREM", "COINDEX", "CONSTCOND", "NARROWREM", "ELEMALIAS", "IGNOREDOBS", "SWALLOW", "ROTATE":
		registerScanProgram(p)
		re := regexp.MustCompile(os.Getenv("GCV_FUNCS"))
		for _, fn := range fns {
			if !re.MatchString(funcKey(fn)) {
				continue
			}
			var n int
			var h []Finding
			if which == "CHUNKREM" {
				n, h = chunkRemainderDropped(p, fn)
			} else if which == "CONSTCOND" {
				n, h = constantConditions(p, fn)
			} else if which == "NARROWREM" {
				n, h = narrowBeforeReduce(p, fn)
			} else if which == "ELEMALIAS" {
				n, h = elementAliasHazard(p, fn)
			} else if which == "IGNOREDOBS" {
				n, h = ignoredObservations(p, fn)
			} else if which == "SWALLOW" {
				n, h = swallowedErrors(p, fn)
			} else if which == "ROTATE" {
				n, h = rotatedWithoutTemp(p, fn)
			} else if which == "COINDEX" {
				n, h = coIndexedLengths(p, fn)
			} else if which == "RANGEOFF" {
				n, h = rangeOffsetMisuse(p, fn)
			} else if which == "SHAREDFIELD" {
				n, h = sharedFieldStorage(p, fn)
			} else if which == "STALECAP" {
				n, h = staleCapacityReslices(p, fn)
			} else if which == "SCAN" {
				n, h = scanLoopBounds(p, fn)
			} else if which == "SUBALIAS" {
				if fn.Parent() == nil && fn.Object() != nil && fn.Object().Exported() {
					n, h = subObjectHazards(p, sharedEffects(p), fn)
				}
			} else if which == "DEAD" {
				n, h = deadAccumulators(p, fn)
			} else if which == "ASMBOUNDS" {
				n, h = asmCallBounds(p, fn)
			} else if which == "WIDTH" {
				n, h = narrowLengthArithmetic(p, fn)
			} else if which == "ARRIDX" {
				n, h = fixedArrayUnboundedIndex(p, fn)
			} else if which == "ZEROUSE" {
				n, h = zeroKnownOperands(p, fn)
			} else {
				n, h = signDiscipline(p, fn)
			}
			sites += n
			hits = append(hits, h...)
		}
	case "LEAK":
		sites, hits = globalLeaks(p, fns)
	case "GLOBALS":
		sites, hits = globalWrites(p, NewEffects(p), fns, os.Getenv("GCV_INIT") != "")
	case "L17":
		eff := NewEffects(p)
		var inits []onceInit
		inits, sites, hits = lazyInitViolations(p, eff, fns)
		for _, oi := range inits {
			fmt.Printf("once-init: %s.%s guarded by %s (init %s)\n", relPkg(oi.global.Pkg.Pkg.Path()), oi.global.Name(), oi.once.Name(), oi.initFn.Name())
		}
	}
	fmt.Printf("%s: %d sites, %d hits\n", which, sites, len(hits))
	for _, h := range hits {
		fmt.Printf("%s: %s | %s\n", p.Pos(h.Pos), h.Construct, h.Msg)
	}
}

// ---------- L3: reported byte count vs bytes consumed ----------

// evalConstInt folds integer constants through +,-,* and identical-phi.
func evalConstInt(v ssa.Value, depth int) (int64, bool) {
	if depth > 80 {
		return 0, false
	}
	v = stripConv(v)
	switch x := v.(type) {
	case *ssa.Const:
		return constInt(x)
	case *ssa.BinOp:
		a, ok1 := evalConstInt(x.X, depth+1)
		b, ok2 := evalConstInt(x.Y, depth+1)
		if !ok1 || !ok2 {
			return 0, false
		}
		switch x.Op {
		case token.ADD:
			return a + b, true
		case token.SUB:
			return a - b, true
		case token.MUL:
			return a * b, true
		}
	case *ssa.Phi:
		var val int64
		first := true
		for _, e := range x.Edges {
			k, ok := evalConstInt(e, depth+1)
			if !ok {
				return 0, false
			}
			if first {
				val, first = k, false
			} else if k != val {
				return 0, false
			}
		}
		return val, !first
	}
	return 0, false
}

// byteCountMismatch checks a decoder `f(buf []byte) (int, error)`: on every accepting return
// the reported count is a constant equal to the largest constant upper bound of the slices /
// indices of buf that may have been read on a path to that return. Returns (decided, ok, msg).
func byteCountMismatch(p *Program, fn *ssa.Function) (decided bool, ok bool, msg string, pos token.Pos) {
	var buf *ssa.Parameter
	for _, prm := range fn.Params {
		if isByteSlice(prm.Type()) {
			buf = prm
			break
		}
	}
	res := fn.Signature.Results()
	if buf == nil || res.Len() != 2 || !isInteger(res.At(0).Type()) || !isErrorType(res.At(1).Type()) {
		return false, true, "", token.NoPos
	}
	acc, err := acceptReturns(fn, AcceptNilErr)
	if err != nil || len(acc) == 0 {
		return false, true, "", token.NoPos
	}
	type acc1 struct {
		blk  *ssa.BasicBlock
		hi   int64
		open bool
	}
	var accesses []acc1
	for _, b := range fn.Blocks {
		for _, in := range b.Instrs {
			switch x := in.(type) {
			case *ssa.Slice:
				if x.X != ssa.Value(buf) {
					continue
				}
				if x.High == nil {
					accesses = append(accesses, acc1{b, 0, true})
				} else if k, ok := evalConstInt(x.High, 0); ok {
					accesses = append(accesses, acc1{b, k, false})
				} else {
					accesses = append(accesses, acc1{b, 0, true})
				}
			case *ssa.IndexAddr:
				if x.X != ssa.Value(buf) {
					continue
				}
				if k, ok := evalConstInt(x.Index, 0); ok {
					accesses = append(accesses, acc1{b, k + 1, false})
				} else {
					accesses = append(accesses, acc1{b, 0, true})
				}
			}
		}
	}
	if len(accesses) == 0 {
		return false, true, "", token.NoPos
	}
	decided = true
	ok = true
	for _, a := range acc {
		n, isConst := evalConstInt(retValue(a.ret, 0), 0)
		var max int64
		open := false
		for _, ac := range accesses {
			if ac.blk == a.ret.Block() || blockReaches(fn, ac.blk, a.ret.Block()) {
				if ac.open {
					open = true
				} else if ac.hi > max {
					max = ac.hi
				}
			}
		}
		if open || !isConst {
			continue // not decidable for this return (open-ended slice or computed count)
		}
		if n != max {
			ok = false
			pos = instrPos(a.ret)
			msg = fmt.Sprintf("%s reports %d bytes read on this accepting return, but the input buffer was read up to offset %d", funcKey(fn), n, max)
		}
	}
	return
}

// ---------- L19: Montgomery limbs are not numbers ----------

func isFieldPkgPath(path string) bool {
	rel := relPkg(path)
	seg := strings.Split(rel, "/")
	if len(seg) == 3 && seg[0] == "ecc" && (seg[2] == "fp" || seg[2] == "fr") {
		return true
	}
	if len(seg) == 2 && seg[0] == "field" && (seg[1] == "koalabear" || seg[1] == "babybear" || seg[1] == "goldilocks") {
		return true
	}
	return false
}

// isFieldElementType: named type Element of a field package.
func isFieldElementType(t types.Type) bool {
	if p, ok := t.(*types.Pointer); ok {
		t = p.Elem()
	}
	n, ok := t.(*types.Named)
	return ok && n.Obj().Name() == "Element" && n.Obj().Pkg() != nil && isFieldPkgPath(n.Obj().Pkg().Path())
}

// regularForm: the element value/address v comes from Bits()/fromMont/ToRegular/BigInt-like
// conversions (canonical integer limbs).
func regularForm(v ssa.Value, depth int) bool {
	if depth > 8 {
		return false
	}
	switch x := v.(type) {
	case *ssa.Call:
		n := calleeOf(&x.Call).Name
		return n == "Bits" || n == "ToRegular" || n == "fromMont" || n == "FromMont"
	case *ssa.Extract:
		return regularForm(x.Tuple, depth+1)
	case *ssa.ChangeType:
		return regularForm(x.X, depth+1)
	case *ssa.Convert:
		return regularForm(x.X, depth+1)
	case *ssa.IndexAddr:
		return regularForm(x.X, depth+1)
	case *ssa.Index:
		return regularForm(x.X, depth+1)
	case *ssa.Alloc:
		// local holding the result of Bits(): every store into it (whole or field) is regular
		n := 0
		ok := true
		var visit func(a ssa.Value, d int)
		visit = func(a ssa.Value, d int) {
			if d > 6 || a.Referrers() == nil {
				return
			}
			for _, r := range *a.Referrers() {
				switch y := r.(type) {
				case *ssa.Store:
					if y.Addr == a {
						n++
						if !regularForm(y.Val, depth+1) {
							ok = false
						}
					}
				case *ssa.FieldAddr:
					visit(y, d+1)
				case *ssa.IndexAddr:
					if _, isElem := y.Type().(*types.Pointer).Elem().Underlying().(*types.Array); isElem {
						visit(y, d+1) // element of an array of field elements
					}
				case ssa.CallInstruction:
					cn := calleeOf(y.Common()).Name
					if len(y.Common().Args) > 0 && y.Common().Args[0] == a && (cn == "fromMont" || cn == "FromMont") {
						n++
					}
				}
			}
		}
		visit(x, 0)
		return n > 0 && ok
	case *ssa.FieldAddr:
		return regularForm(x.X, depth+1)
	case *ssa.Field:
		return regularForm(x.X, depth+1)
	case *ssa.UnOp:
		if x.Op == token.MUL {
			return regularForm(x.X, depth+1)
		}
	case *ssa.Phi:
		for _, e := range x.Edges {
			if !regularForm(e, depth+1) {
				return false
			}
		}
		return len(x.Edges) > 0
	}
	return false
}

// montgomeryLimbReads: outside the field packages, reads of a limb of a field element that is
// not in regular form and whose value is used as a number (anything but an OR-chain zero test).
func montgomeryLimbReads(fns []*ssa.Function) (sites int, hits []Finding) {
	for _, fn := range fns {
		if isFieldPkgPath(fnPkgPath(fn)) {
			continue
		}
		for _, b := range fn.Blocks {
			for _, in := range b.Instrs {
				var limb ssa.Value
				var base ssa.Value
				switch x := in.(type) {
				case *ssa.UnOp:
					if x.Op != token.MUL {
						continue
					}
					ia, ok := x.X.(*ssa.IndexAddr)
					if !ok || !isFieldElementType(ia.X.Type()) {
						continue
					}
					limb, base = x, ia.X
				case *ssa.Index:
					if !isFieldElementType(x.X.Type()) {
						continue
					}
					limb, base = x, x.X
				default:
					continue
				}
				sites++
				if regularForm(base, 0) {
					continue
				}
				if onlyZeroTested(limb, 0) {
					continue
				}
				hits = append(hits, Finding{fn, instrPos(in), "montgomery-limb-as-number(" + descValue(base, 0) + ")",
					fmt.Sprintf("%s reads a limb of %s, which is in Montgomery form (not produced by Bits()/fromMont), and uses it as a number: parity, ordering or bit tests on Montgomery limbs are unrelated to the element's value", funcKey(fn), descValue(base, 0))})
			}
		}
	}
	return
}

// onlyZeroTested: the value is only OR-ed with other values and finally compared with zero (or
// returned as such an OR): the zero test is representation independent.
func onlyZeroTested(v ssa.Value, depth int) bool {
	if depth > 12 || v.Referrers() == nil {
		return false
	}
	refs := *v.Referrers()
	if len(refs) == 0 {
		return true
	}
	for _, r := range refs {
		switch x := r.(type) {
		case *ssa.BinOp:
			switch x.Op {
			case token.OR:
				if !onlyZeroTested(x, depth+1) {
					return false
				}
			case token.EQL, token.NEQ:
				if k, ok := constInt(x.Y); !ok || k != 0 {
					if k2, ok2 := constInt(x.X); !ok2 || k2 != 0 {
						return false
					}
				}
			default:
				return false
			}
		case *ssa.Return, *ssa.DebugRef:
		case *ssa.Phi:
			if !onlyZeroTested(x, depth+1) {
				return false
			}
		default:
			return false
		}
	}
	return true
}

// ---------- global-state discipline (C18 b) ----------

// globalWrites: instructions of library functions (outside init and outside functions run under
// sync.Once) that store into a package-level variable, or pass its address to a callee that
// writes through it.
func globalWrites(p *Program, eff *Effects, fns []*ssa.Function, includeInit bool) (sites int, hits []Finding) {
	// functions run under sync.Once / OnceValue / package init
	under := map[*ssa.Function]bool{}
	cg := p.CallGraph()
	var mark func(f *ssa.Function)
	mark = func(f *ssa.Function) {
		if f == nil || under[f] {
			return
		}
		under[f] = true
		if n := cg.Nodes[f]; n != nil {
			for _, e := range n.Out {
				if strings.HasPrefix(fnPkgPath(e.Callee.Func), modPath) {
					mark(e.Callee.Func)
				}
			}
		}
		for _, af := range f.AnonFuncs {
			mark(af)
		}
	}
	for _, fn := range p.RepoFuncs() {
		if fn.Parent() == nil && (fn.Name() == "init" || strings.HasPrefix(fn.Name(), "init#")) {
			mark(fn)
		}
		for _, b := range fn.Blocks {
			for _, in := range b.Instrs {
				call, ok := in.(ssa.CallInstruction)
				if !ok {
					continue
				}
				cl := calleeOf(call.Common())
				if cl.Pkg == "sync" && (cl.Name == "Do" || strings.HasPrefix(cl.Name, "Once")) {
					for _, a := range call.Common().Args {
						switch f := a.(type) {
						case *ssa.Function:
							mark(f)
						case *ssa.MakeClosure:
							mark(f.Fn.(*ssa.Function))
						}
					}
				}
			}
		}
	}
	for _, fn := range fns {
		root := fn
		for root.Parent() != nil {
			root = root.Parent()
		}
		if !includeInit && (under[fn] || under[root]) {
			continue
		}
		for _, b := range fn.Blocks {
			for _, in := range b.Instrs {
				for _, addr := range writtenAddrs(eff, in) {
					for _, r := range addrRoots(addr) {
						if r.Kind != "global" {
							continue
						}
						sites++
						t := r.Glob.Type().(*types.Pointer).Elem().String()
						if strings.HasPrefix(t, "sync.") || strings.HasPrefix(t, "sync/atomic.") || strings.Contains(t, "atomic.") {
							continue
						}
						hits = append(hits, Finding{fn, instrPos(in), "global-write(" + r.Glob.Name() + ")",
							fmt.Sprintf("%s writes the package-level variable %s outside package initialisation and outside a sync.Once: concurrent callers race on it and later calls observe state left by earlier ones", funcKey(fn), r.Glob.Name())})
					}
				}
			}
		}
	}
	return
}

// ---------- sync.Pool discipline ----------

// pooledObjectsReadBeforeDefined: for every (*sync.Pool).Get in the library, the object obtained
// must be completely (re)defined before anything reads it, in the function that obtains it:
// whole store, clear, provably full copy, or a Reset/SetZero-like method. Returning the object
// hands the obligation to the caller (listed exception: the polynomial scratch pool, whose
// contract is "unspecified contents").
func pooledObjectsReadBeforeDefined(p *Program, eff *Effects, fns []*ssa.Function) (sites int, hits []Finding) {
	for _, fn := range fns {
		for _, b := range fn.Blocks {
			for _, in := range b.Instrs {
				call, ok := in.(*ssa.Call)
				if !ok {
					continue
				}
				cl := calleeOf(&call.Call)
				if cl.Pkg != "sync" || cl.Recv != "Pool" || cl.Name != "Get" {
					continue
				}
				sites++
				var defs, reads []ssa.Instruction
				viaPhi := map[ssa.Instruction][]*ssa.BasicBlock{}
				var entry []*ssa.BasicBlock
				escaped := false
				seen := map[ssa.Value]bool{}
				var walk func(v ssa.Value)
				walk = func(v ssa.Value) {
					if seen[v] || v.Referrers() == nil {
						return
					}
					seen[v] = true
					nReads := len(reads)
					defer func() {
						if entry != nil {
							for _, rd := range reads[nReads:] {
								if _, ok := viaPhi[rd]; !ok {
									viaPhi[rd] = entry
								}
							}
						}
					}()
					for _, r := range *v.Referrers() {
						switch x := r.(type) {
						case *ssa.TypeAssert:
							walk(x)
						case *ssa.Extract:
							walk(x)
						case *ssa.Phi:
							saved := entry
							if entry == nil {
								for i, e := range x.Edges {
									if e == v {
										entry = append(entry, x.Block().Preds[i])
									}
								}
							}
							walk(x)
							entry = saved
						case *ssa.Slice, *ssa.ChangeType, *ssa.Convert:
							walk(r.(ssa.Value))
						case *ssa.IndexAddr:
							// element access: loads read, stores write one element (not a full definition)
							for _, rr := range *x.Referrers() {
								if u, ok := rr.(*ssa.UnOp); ok && u.Op == token.MUL {
									reads = append(reads, rr)
								}
								if c2, ok := rr.(ssa.CallInstruction); ok {
									reads = append(reads, c2)
								}
							}
						case *ssa.FieldAddr:
							for _, rr := range *x.Referrers() {
								if u, ok := rr.(*ssa.UnOp); ok && u.Op == token.MUL {
									reads = append(reads, rr)
								}
							}
						case *ssa.Store:
							if x.Addr == v {
								defs = append(defs, r)
							}
						case *ssa.UnOp:
							if x.Op == token.MUL {
								reads = append(reads, r)
							}
						case *ssa.Return:
							escaped = true
						case ssa.CallInstruction:
							cc := x.Common()
							c2 := calleeOf(cc)
							switch {
							case c2.Built && c2.Name == "clear":
								defs = append(defs, r)
							case c2.Built && c2.Name == "copy" && len(cc.Args) == 2 && cc.Args[0] == v:
								if fullArrayCopy(cc.Args[0], cc.Args[1]) != nil {
									defs = append(defs, r)
								}
							case c2.Built:
							case c2.Pkg == "sync" && c2.Name == "Put":
							case len(cc.Args) > 0 && cc.Args[0] == v && (c2.Name == "Reset" || c2.Name == "SetZero" || c2.Name == "Init"):
								defs = append(defs, r)
							case c2.Pkg == "math/big" && !cc.IsInvoke() && len(cc.Args) > 0 && cc.Args[0] == v && !bigGetter[c2.Name]:
								// receiver of a defining math/big operation (unless also an operand)
								isOperand := false
								for _, a := range cc.Args[1:] {
									if a == v {
										isOperand = true
									}
								}
								if isOperand {
									reads = append(reads, r)
								} else {
									defs = append(defs, r)
									if val, ok := r.(ssa.Value); ok {
										walk(val) // fluent API returns the receiver
									}
								}
							default:
								reads = append(reads, r)
							}
						}
					}
				}
				walk(call)
				if escaped && len(reads) == 0 {
					// wrappers whose callers are checked: field/pool (C08.pool) and the polynomial scratch pool (documented: unspecified contents)
					if !strings.Contains(funcKey(fn), "polynomial.(*sizedPool).get") && !strings.HasPrefix(funcKey(fn), "field/pool.") {
						hits = append(hits, Finding{fn, instrPos(in), "pooled-object-returned", funcKey(fn) + " returns an object taken from a sync.Pool without redefining it: its previous contents reach the caller"})
					}
					continue
				}
				for _, rd := range reads {
					dom := false
					for _, d := range defs {
						if instrDominates(d, rd) {
							dom = true
						}
					}
					if !dom && len(viaPhi[rd]) > 0 {
						all := true
						for _, eb := range viaPhi[rd] {
							found := false
							for _, d := range defs {
								if d.Block() == eb || d.Block().Dominates(eb) {
									found = true
								}
							}
							if !found {
								all = false
							}
						}
						dom = all
					}
					if !dom {
						hits = append(hits, Finding{fn, instrPos(rd), "pooled-object-read-before-defined", funcKey(fn) + " reads an object obtained from a sync.Pool before completely redefining it: data left by a previous user of the pool (another call, another goroutine) flows into this computation"})
						break
					}
				}
			}
		}
	}
	return
}

// continueSkipsCounter (AST): a `continue` inside a for body whose top-level trailing statements
// update (x++, x += k) a variable declared outside the loop, where the continue is not itself
// preceded by the same update in its own block. Returns (loops with trailing updates, findings).
func continueSkipsCounter(p *Program) (int, []string) {
	var out []string
	loops := 0
	for _, pkg := range p.Roots {
		pk := relPkg(pkg.PkgPath)
		if !strings.HasPrefix(pkg.PkgPath, modPath) || !libPkg(pk) {
			continue
		}
		for _, f := range pkg.Syntax {
			for _, decl := range f.Decls {
				fd, isFn := decl.(*ast.FuncDecl)
				if !isFn || fd.Body == nil {
					continue
				}
				fname := pk + "." + fd.Name.Name
				ast.Inspect(fd, func(n ast.Node) bool {
					var body *ast.BlockStmt
					switch x := n.(type) {
					case *ast.ForStmt:
						body = x.Body
					case *ast.RangeStmt:
						body = x.Body
					}
					if body == nil || len(body.List) == 0 {
						return true
					}
					// trailing updates at the top level of the body
					trailing := map[string]bool{}
					for i := len(body.List) - 1; i >= 0; i-- {
						name := ""
						switch s := body.List[i].(type) {
						case *ast.IncDecStmt:
							if id, ok := s.X.(*ast.Ident); ok {
								name = id.Name
							}
						case *ast.AssignStmt:
							if (s.Tok == token.ADD_ASSIGN || s.Tok == token.SUB_ASSIGN) && len(s.Lhs) == 1 {
								if id, ok := s.Lhs[0].(*ast.Ident); ok {
									name = id.Name
								}
							}
						}
						if name == "" {
							break
						}
						trailing[name] = true
					}
					if len(trailing) == 0 {
						return true
					}
					loops++
					// continue statements belonging to this loop (not to nested loops)
					var walk func(st ast.Stmt, prior map[string]bool)
					walkList := func(list []ast.Stmt, prior map[string]bool) {
						local := map[string]bool{}
						for k, v := range prior {
							local[k] = v
						}
						for _, st := range list {
							switch s := st.(type) {
							case *ast.IncDecStmt:
								if id, ok := s.X.(*ast.Ident); ok {
									local[id.Name] = true
								}
							case *ast.AssignStmt:
								for _, l := range s.Lhs {
									if id, ok := l.(*ast.Ident); ok {
										local[id.Name] = true
									}
								}
							}
							walk(st, local)
						}
					}
					walk = func(st ast.Stmt, prior map[string]bool) {
						switch s := st.(type) {
						case *ast.BranchStmt:
							if s.Tok == token.CONTINUE && s.Label == nil {
								for name := range trailing {
									if !prior[name] {
										out = append(out, fmt.Sprintf("%s|%s|%s", fname, name, p.Pos(s.Pos())))
									}
								}
							}
						case *ast.BlockStmt:
							walkList(s.List, prior)
						case *ast.IfStmt:
							walkList(s.Body.List, prior)
							if s.Else != nil {
								walk(s.Else, prior)
							}
						case *ast.SwitchStmt:
							for _, cc := range s.Body.List {
								walkList(cc.(*ast.CaseClause).Body, prior)
							}
						case *ast.ForStmt, *ast.RangeStmt:
							// nested loop: its continues are its own
						}
					}
					walkList(body.List[:len(body.List)-len(trailing)], map[string]bool{})
					return true
				})
			}
		}
	}
	return loops, out
}

// indexLints adds, for the packages of a property, the two index / storage deviance rules that
// have no instance on the reference tree (expected count zero; the scanned-site count is the
// positive control): RANGE-OFFSET and SHARED-FIELD-STORAGE.
func indexLints(c *Ctx, p *Program, pkgPats ...string) {
	fns := libFuncs(p, pkgPats...)
	rule := c.Prop + ".rangeidx"
	c.Rule(rule, "RANGE-OFFSET: a loop `for i := range s[k:]` with k != 0 never indexes the base slice s with the bare loop index (the index counts from the start of the sub-slice: s[i] visits the first k elements again and never the last k)", 0)
	n, total := 0, 0
	var hits []Finding
	for _, fn := range fns {
		k, h := rangeOffsetMisuse(p, fn)
		n += k
		total++
		hits = append(hits, h...)
	}
	c.Instance(rule, total)
	reportFindings(c, p, rule, nil, hits, "")
	c.Ob(rule, "-", "-", "functions-scanned", "-", total > 0, "no function of the property's packages was scanned")
	rule2 := c.Prop + ".sharedfield"
	c.Rule(rule2, "SHARED-FIELD-STORAGE: no function stores one and the same slice value into two different fields of one object (the fields would share a backing array: an in-place update of one — copy, append(f[:0], ...) — silently updates the other)", 0)
	var hits2 []Finding
	m := 0
	for _, fn := range fns {
		k, h := sharedFieldStorage(p, fn)
		m += k
		hits2 = append(hits2, h...)
	}
	c.Instance(rule2, m)
	reportFindings(c, p, rule2, nil, hits2, "")
	c.Ob(rule2, "-", "-", "field-stores-scanned", "-", true, "")
	rule3 := c.Prop + ".chunkrem"
	c.Rule(rule3, "CHUNK-REMAINDER: a loop that starts one goroutine per chunk, runs n/size times (floor division) and rebuilds positions as k*size treats the remainder somewhere (n % size, a ceiling division, a clamp of the end position against n, a tail slice): otherwise the last partial chunk is never processed when n is not a multiple of size; likewise a stride loop `for i := a; i+k <= n; i += k` that spawns a goroutine per stride looks at n again (clamp, tail, remainder)", 0)
	var hits3 []Finding
	for _, fn := range fns {
		_, h := chunkRemainderDropped(p, fn)
		hits3 = append(hits3, h...)
		_, h = strideRemainderDropped(p, fn)
		hits3 = append(hits3, h...)
	}
	c.Instance(rule3, total)
	reportFindings(c, p, rule3, nil, hits3, "")
	c.Ob(rule3, "-", "-", "functions-scanned", "-", total > 0, "no function of the property's packages was scanned")
	rule4 := c.Prop + ".coindex"
	c.Rule(rule4, "CO-INDEXED LENGTHS / TILING: where a callee (any callee the call graph resolves, function values included) walks one slice parameter and reads another slice parameter at the same index, the two arguments of every call have the same length; where consecutive goroutines of one block receive sub-slices of the same slice, each starts where the previous one ends. Lengths and bounds are compared as polynomials over the program's values with a = k*(a/k) + a%k; reported only when the difference is *determined* — nothing left in it but constants and remainders — so that no relation between unrelated values could make it vanish", 0)
	var hits4 []Finding
	k4 := 0
	for _, fn := range fns {
		k, h := coIndexedLengths(p, fn)
		k4 += k
		hits4 = append(hits4, h...)
	}
	c.Instance(rule4, k4)
	reportFindings(c, p, rule4, nil, hits4, "")
	c.Ob(rule4, "-", "-", "call-sites-compared", "-", true, "")
}

// isSyncPrimitive: a sync.Once / Mutex / RWMutex / WaitGroup / Map / Pool (or pointer to one): not
// data that is "initialised" by being used.
func isSyncPrimitive(t types.Type) bool {
	if pt, ok := t.(*types.Pointer); ok {
		t = pt.Elem()
	}
	return namedPkg(t) == "sync" || namedPkg(t) == "sync/atomic"
}
