package main

import (
	"fmt"
	"go/ast"
	"go/constant"
	"go/token"
	"go/types"
	"sort"
	"strings"

	"golang.org/x/tools/go/packages"
	"golang.org/x/tools/go/ssa"
)

func init() { register("C20", checkC20) }

type polyState struct {
	basis, layout string // "Canonical","Lagrange","LagrangeCoset" ; "Regular","BitReverse"
}

func checkC20(c *Ctx) {
	p := mustLoad(c, K1)
	indexLints(c, p, "ecc/*/fr/iop", "ecc/*/fr/polynomial")
	eff := sharedEffects(p)
	c.Rule("C20.typestate", "TYPESTATE (L13): in ToLagrange, ToCanonical, ToLagrangeCoset, ToRegular, ToBitReverse, every switch arm, started in each form it lists, applies FFT / FFTInverse / BitReverse calls whose preconditions hold (DIF needs regular layout, DIT bit-reversed; FFT needs the canonical basis, FFTInverse a Lagrange basis, the coset option exactly on the coset basis) and ends in the (basis, layout) that the arm stores into the polynomial; the six forms are all covered or the default panics. Transfer table = contract of the fft package", 7*5)
	c.Rule("C20.zero", "DEGENERATE (L4): no multiplication, exponentiation, division or inversion takes as operand a local field element that was never assigned (definitely zero) — e.g. g.Exp(g, k) on a fresh g", 7)
	c.Rule("C20.clone", "CLONE: Clone/ShallowClone define every field of the result (whole-struct copy or one store per field): the clone denotes the same polynomial (shift, size, coset, form, coefficients)", 14)
	c.Rule("C20.index", "INDEX: GetCoeff indexes the coefficient vector with a position reduced into [0, n) (x % n corrected by +n when negative), so that every integer shift is accepted", 7)
	c.Rule("C20.grow", "GROW: polynomial.grow, which every conversion calls to extend the coefficient vector to the size of the domain, looks at the layout before appending zero coefficients (appending is value-preserving in regular layout only)", 7)
	c.Rule("C20.coset", "COSET: every function of the package that can produce a polynomial in LagrangeCoset form (it stores a non-constant basis, or builds a Polynomial from a form it received as parameter) also sets the coset field, which Evaluate divides by", 14)
	c.Rule("C20.domainpoint", "DOMAIN-POINT: in the Lagrange-form evaluation the denominators x - w^i handed to BatchInvert are all known to be non-zero (a zero one is treated before: the value at a point of the domain is the entry itself; 0/0 in the barycentric formula gave 0)", 7)
	c.Rule("C20.stalecap", "STALE-CAPACITY: no function of the iop and polynomial packages extends a slice into its spare capacity (s[:n] with n taken from or compared with cap(s)) without clearing the exposed elements: growing a coefficient vector must append zeros, not resurrect the coefficients of an earlier, longer value (cap() is not used anywhere on the reference tree)", 14)
	c.Rule("C20.alias", "ALIAS: the deep Clone shares no coefficient storage with its source (its coefficient vector comes from a fresh allocation)", 7)

	for _, pk := range append(p.FamilyPkgs("ecc/*/fr/iop"), p.FamilyPkgs("ecc/*/fr/polynomial")...) {
		n := 0
		var hits []Finding
		for _, fn := range libFuncs(p, pk) {
			k, h := staleCapacityReslices(p, fn)
			n += k
			hits = append(hits, h...)
		}
		c.Instance("C20.stalecap", 1)
		reportFindings(c, p, "C20.stalecap", nil, hits, "")
		c.Ob("C20.stalecap", pk, pk, "reslices-scanned", "-", true, "")
	}
	for _, pk := range p.FamilyPkgs("ecc/*/fr/iop") {
		pkg := p.ByPath[modPath+"/"+pk]
		if pkg == nil {
			continue
		}
		forms := formConstants(pkg)
		if len(forms) < 6 {
			c.Undecided("%s: the six form values were not found (got %d)", pk, len(forms))
			continue
		}
		for _, name := range []string{"ToLagrange", "ToCanonical", "ToLagrangeCoset", "ToRegular", "ToBitReverse"} {
			fd := findMethodDecl(pkg, "Polynomial", name)
			if fd == nil {
				c.Undecided("anchor %s.Polynomial.%s not found", pk, name)
				continue
			}
			c.Instance("C20.typestate", 1)
			checkTypestate(c, p, pkg, pk, fd, forms)
		}
		// degenerate operands in the package
		{
			fns := libFuncs(p, pk)
			sites, hits := zeroOperands(fns)
			c.Instance("C20.zero", 1)
			_ = sites
			reportFindings(c, p, "C20.zero", nil, hits, "")
			c.Ob("C20.zero", pk, pk, "operands-scanned", "-", sites > 0, pk+": no arithmetic call sites found")
		}
		for _, name := range []string{"Clone", "ShallowClone"} {
			if fn := p.Func(pk, "Polynomial", name); fn != nil {
				c.Instance("C20.clone", 1)
				ok, missing := cloneDefinesAllFields(fn)
				c.Ob("C20.clone", pk, funcKey(fn), "all-fields-defined", p.Pos(fn.Pos()), ok, fmt.Sprintf("%s: the returned copy leaves field(s) %v at their zero value: the clone does not denote the same polynomial", funcKey(fn), missing))
			} else {
				c.Undecided("anchor %s.Polynomial.%s not found", pk, name)
			}
		}
		if fn := p.Func(pk, "Polynomial", "GetCoeff"); fn != nil {
			c.Instance("C20.index", 1)
			ok, msg := indexesNormalised(fn)
			c.Ob("C20.index", pk, funcKey(fn), "position-normalised", p.Pos(fn.Pos()), ok, funcKey(fn)+": "+msg)
		}
		// ---- resizing is layout-aware
		if fn := p.Func(pk, "polynomial", "grow"); fn != nil {
			c.Instance("C20.grow", 1)
			layoutRead := false
			for _, b := range fn.Blocks {
				for _, in := range b.Instrs {
					if fa, ok := in.(*ssa.FieldAddr); ok && fieldName(fa.X.Type(), fa.Field) == "Layout" {
						layoutRead = true
					}
				}
			}
			c.Ob("C20.grow", pk, funcKey(fn), "append-is-layout-aware", p.Pos(fn.Pos()), layoutRead, funcKey(fn)+": zero coefficients are appended without looking at the layout: in bit-reversed layout every slot denotes another monomial once the length changes")
		} else {
			c.Undecided("anchor %s.polynomial.grow not found", pk)
		}
		// ---- every producer of a LagrangeCoset polynomial records the shift of the coset
		cosetSetters := map[*ssa.Function]bool{} // functions that write the coset field themselves
		for _, fn := range libFuncs(p, pk) {
			for _, b := range fn.Blocks {
				for _, in := range b.Instrs {
					switch x := in.(type) {
					case *ssa.Store:
						if fa, ok := x.Addr.(*ssa.FieldAddr); ok && fieldName(fa.X.Type(), fa.Field) == "coset" {
							cosetSetters[fn] = true
						}
					case *ssa.Call:
						if calleeOf(&x.Call).Name == "Set" && len(x.Call.Args) == 2 {
							if fa, ok := x.Call.Args[0].(*ssa.FieldAddr); ok && fieldName(fa.X.Type(), fa.Field) == "coset" {
								cosetSetters[fn] = true
							}
						}
					}
				}
			}
		}
		for _, fn := range libFuncs(p, pk) {
			if fn.Parent() != nil {
				continue
			}
			makes, setsCoset := false, cosetSetters[fn]
			for _, b := range fn.Blocks {
				for _, in := range b.Instrs {
					if call, ok := in.(*ssa.Call); ok {
						if f := call.Call.StaticCallee(); f != nil && cosetSetters[f] {
							setsCoset = true // delegated to a helper of the package
						}
					}
				}
			}
			for _, b := range fn.Blocks {
				for _, in := range b.Instrs {
					switch x := in.(type) {
					case *ssa.Store:
						if fa, ok := x.Addr.(*ssa.FieldAddr); ok {
							switch fieldName(fa.X.Type(), fa.Field) {
							case "Basis":
								// filling a local Form value (composite literal) is not a change of a polynomial
								if a := allocRoot(fa.X, 0); a != nil && namedName(a.Type().(*types.Pointer).Elem()) == "Form" {
									continue
								}
								// a stored constant other than LagrangeCoset cannot produce that form
								if k, ok := constInt(x.Val); ok {
									if lc, ok2 := basisConst(p, pk, "LagrangeCoset"); ok2 && k != lc {
										continue
									}
								}
								makes = true
							case "coset":
								setsCoset = true
							}
						}
					case *ssa.Call:
						cl := calleeOf(&x.Call)
						if cl.Name == "NewPolynomial" && fn.Name() != "NewPolynomial" && len(x.Call.Args) == 2 {
							// only a form handed in by the caller (a parameter) may be any of the six forms;
							// a literal form used for an intermediate value is converted before it is returned
							for _, par := range fn.Params {
								if derivedFrom(x.Call.Args[1], par, "") || stripConv(x.Call.Args[1]) == ssa.Value(par) {
									makes = true
								}
							}
						}
						if cl.Name == "Set" && len(x.Call.Args) == 2 {
							if fa, ok := x.Call.Args[0].(*ssa.FieldAddr); ok && fieldName(fa.X.Type(), fa.Field) == "coset" {
								setsCoset = true
							}
						}
					}
				}
			}
			if !makes {
				continue
			}
			c.Instance("C20.coset", 1)
			c.Ob("C20.coset", pk, funcKey(fn), "coset-shift-recorded", p.Pos(fn.Pos()), setsCoset, funcKey(fn)+": may produce a polynomial in LagrangeCoset form (it stores the basis / builds it from a caller-chosen form) but never sets its coset field: Evaluate divides its argument by that shift (0 by default)")
		}
		// ---- evaluation in Lagrange form treats the points of the domain
		if fn := p.Func(pk, "polynomial", "evaluate"); fn != nil {
			for _, cl := range fn.AnonFuncs {
				var inv []ssa.Instruction
				for _, b := range cl.Blocks {
					for _, in := range b.Instrs {
						if call, ok := in.(*ssa.Call); ok && calleeOf(&call.Call).Name == "BatchInvert" {
							inv = append(inv, in)
						}
					}
				}
				if len(inv) == 0 {
					continue
				}
				RequireFactsAtInstr(c, p, "C20.domainpoint", cl, inv, "denominators-inverted", []Req{{"all-non-zero", `^not Element\.IsZero\(make:\[\]Element\[\*\]\)$`}})
			}
		}
		if fn := p.Func(pk, "polynomial", "clone"); fn != nil {
			c.Instance("C20.alias", 1)
			s := eff.Summary(fn)
			_ = s
			// the coefficient vector of the result is a MakeSlice / append to fresh
			fresh := false
			for _, b := range fn.Blocks {
				for _, in := range b.Instrs {
					if _, ok := in.(*ssa.MakeSlice); ok {
						fresh = true
					}
				}
			}
			c.Ob("C20.alias", pk, funcKey(fn), "coefficients-fresh", p.Pos(fn.Pos()), fresh, funcKey(fn)+": the cloned coefficient vector is not freshly allocated")
		}
	}
	c.Assume("contract of the fft package used as transfer table: FFT(DIF): (Canonical,Regular)->(Lagrange[Coset],BitReverse); FFT(DIT): (Canonical,BitReverse)->(Lagrange[Coset],Regular); FFTInverse(DIF): (Lagrange[Coset],Regular)->(Canonical,BitReverse); FFTInverse(DIT): (Lagrange[Coset],BitReverse)->(Canonical,Regular); BitReverse flips the layout")
	c.Assume("evaluation values, barycentric formula, ratio builders and multilinear folding are value-level: not decided")
}

// formConstants: identifier -> (basis, layout) from `x = Form{Basis, Layout}` declarations.
func formConstants(pkg *packages.Package) map[string]polyState {
	out := map[string]polyState{}
	for _, f := range pkg.Syntax {
		for _, d := range f.Decls {
			gd, ok := d.(*ast.GenDecl)
			if !ok {
				continue
			}
			for _, sp := range gd.Specs {
				vs, ok := sp.(*ast.ValueSpec)
				if !ok {
					continue
				}
				for i, n := range vs.Names {
					if i >= len(vs.Values) {
						continue
					}
					cl, ok := vs.Values[i].(*ast.CompositeLit)
					if !ok {
						continue
					}
					if id, ok := cl.Type.(*ast.Ident); !ok || id.Name != "Form" {
						continue
					}
					st := polyState{}
					for k, e := range cl.Elts {
						var v ast.Expr = e
						key := ""
						if kv, ok := e.(*ast.KeyValueExpr); ok {
							v = kv.Value
							if id, ok := kv.Key.(*ast.Ident); ok {
								key = id.Name
							}
						}
						id, ok := v.(*ast.Ident)
						if !ok {
							continue
						}
						if key == "Basis" || (key == "" && k == 0) {
							st.basis = id.Name
						} else {
							st.layout = id.Name
						}
					}
					if st.basis != "" && st.layout != "" {
						out[n.Name] = st
					}
				}
			}
		}
	}
	return out
}

func findMethodDecl(pkg *packages.Package, recv, name string) *ast.FuncDecl {
	for _, f := range pkg.Syntax {
		for _, d := range f.Decls {
			fd, ok := d.(*ast.FuncDecl)
			if !ok || fd.Name.Name != name || fd.Recv == nil || len(fd.Recv.List) == 0 {
				continue
			}
			t := fd.Recv.List[0].Type
			if st, ok := t.(*ast.StarExpr); ok {
				t = st.X
			}
			if id, ok := t.(*ast.Ident); ok && id.Name == recv {
				return fd
			}
		}
	}
	return nil
}

// checkTypestate interprets one conversion method on the AST.
func checkTypestate(c *Ctx, p *Program, pkg *packages.Package, pk string, fd *ast.FuncDecl, forms map[string]polyState) {
	fk := pk + ".(*Polynomial)." + fd.Name.Name
	pos := func(n ast.Node) string { return p.Pos(n.Pos()) }
	var sw *ast.SwitchStmt
	var after []ast.Stmt // statements after the switch (common tail)
	for i, st := range fd.Body.List {
		if s, ok := st.(*ast.SwitchStmt); ok {
			sw = s
			after = fd.Body.List[i+1:]
		}
	}
	if sw == nil {
		// guard form: `if p.Layout == X { return p }` followed by the transformation
		var guardField, guardVal string
		var rest []ast.Stmt
		for i, st := range fd.Body.List {
			if ifs, ok := st.(*ast.IfStmt); ok && i == 0 {
				if be, ok := ifs.Cond.(*ast.BinaryExpr); ok && be.Op == token.EQL {
					if sel, ok := be.X.(*ast.SelectorExpr); ok {
						if id, ok := be.Y.(*ast.Ident); ok {
							guardField, guardVal = sel.Sel.Name, id.Name
							rest = fd.Body.List[1:]
						}
					}
				}
			}
		}
		if guardField == "" {
			// the conversion is written in a shape this (syntactic) rule does not model — typically the
			// dispatch was moved into a helper. Not recognising the shape is not evidence of a wrong
			// label: nothing is claimed for this function (the instance floor of the rule still
			// guarantees that the rule sees the conversions of the reference tree)
			c.Note(fk + ": neither a switch over the form nor a leading layout/basis guard in the body: shape not modelled, no obligation")
			return
		}
		var names []string
		for n := range forms {
			names = append(names, n)
		}
		sort.Strings(names)
		for _, n := range names {
			start := forms[n]
			if (guardField == "Layout" && start.layout == guardVal) || (guardField == "Basis" && start.basis == guardVal) {
				continue // returned unchanged by the guard
			}
			cur, claimed := start, start
			for _, st := range rest {
				switch x := st.(type) {
				case *ast.ExprStmt:
					if call, ok := x.X.(*ast.CallExpr); ok {
						if sel, ok := call.Fun.(*ast.SelectorExpr); ok && sel.Sel.Name == "BitReverse" {
							if cur.layout == "Regular" {
								cur.layout = "BitReverse"
							} else {
								cur.layout = "Regular"
							}
						}
					}
				case *ast.AssignStmt:
					if len(x.Lhs) == 1 && len(x.Rhs) == 1 {
						if sel, ok := x.Lhs[0].(*ast.SelectorExpr); ok {
							if id, ok := x.Rhs[0].(*ast.Ident); ok {
								if sel.Sel.Name == "Layout" {
									claimed.layout = id.Name
								} else if sel.Sel.Name == "Basis" {
									claimed.basis = id.Name
								}
							}
						}
					}
				}
			}
			c.Ob("C20.typestate", pk, fk, "case("+n+")", pos(fd), cur == claimed,
				fmt.Sprintf("%s, from %s: the transformations leave the coefficients in (%s,%s) but the polynomial is labelled (%s,%s)", fk, n, cur.basis, cur.layout, claimed.basis, claimed.layout))
		}
		return
	}
	covered := map[string]bool{}
	hasDefaultPanic := false
	type effect struct {
		kind  string // "FFT","FFTInverse","BitReverse","setLayout","setBasis","return"
		arg   string // DIF/DIT or value
		coset bool
		node  ast.Node
	}
	// unmodelled: a statement of a kind the symbolic execution below does not understand (a call to
	// a helper, a nested branch, ...): the arm it sits in is then not judged
	unmodelled := false
	effectsOf := func(stmts []ast.Stmt) []effect {
		var out []effect
		for _, st := range stmts {
			switch s := st.(type) {
			case *ast.ReturnStmt:
				out = append(out, effect{kind: "return", node: s})
			case *ast.AssignStmt:
				known := false
				if len(s.Lhs) == 1 && len(s.Rhs) == 1 {
					if sel, ok := s.Lhs[0].(*ast.SelectorExpr); ok {
						if id, ok := s.Rhs[0].(*ast.Ident); ok {
							switch sel.Sel.Name {
							case "Layout":
								out = append(out, effect{kind: "setLayout", arg: id.Name, node: s})
								known = true
							case "Basis":
								out = append(out, effect{kind: "setBasis", arg: id.Name, node: s})
								known = true
							}
						}
					}
				}
				if !known {
					unmodelled = true
				}
			case *ast.ExprStmt:
				call, ok := s.X.(*ast.CallExpr)
				if !ok {
					unmodelled = true
					continue
				}
				sel, ok := call.Fun.(*ast.SelectorExpr)
				if !ok {
					if id, isID := call.Fun.(*ast.Ident); !isID || id.Name != "panic" {
						unmodelled = true
					}
					continue
				}
				switch sel.Sel.Name {
				case "FFT", "FFTInverse":
					e := effect{kind: sel.Sel.Name, node: s}
					for _, a := range call.Args[1:] {
						switch x := a.(type) {
						case *ast.SelectorExpr:
							if x.Sel.Name == "DIF" || x.Sel.Name == "DIT" {
								e.arg = x.Sel.Name
							}
						case *ast.CallExpr:
							if s2, ok := x.Fun.(*ast.SelectorExpr); ok && s2.Sel.Name == "OnCoset" {
								e.coset = true
							}
						}
					}
					out = append(out, e)
				case "BitReverse":
					out = append(out, effect{kind: "BitReverse", node: s})
				case "Set", "grow":
					// coset bookkeeping / resizing: no effect on basis or layout
				default:
					unmodelled = true
				}
			default:
				unmodelled = true
			}
		}
		return out
	}
	tail := effectsOf(after)
	tailUnmodelled := unmodelled
	for _, cc := range sw.Body.List {
		clause := cc.(*ast.CaseClause)
		if clause.List == nil {
			for _, st := range clause.Body {
				if es, ok := st.(*ast.ExprStmt); ok {
					if call, ok := es.X.(*ast.CallExpr); ok {
						if id, ok := call.Fun.(*ast.Ident); ok && id.Name == "panic" {
							hasDefaultPanic = true
						}
					}
				}
			}
			continue
		}
		unmodelled = false
		effs := effectsOf(clause.Body)
		armUnmodelled := unmodelled || tailUnmodelled
		for _, e := range clause.List {
			id, ok := e.(*ast.Ident)
			if !ok {
				continue
			}
			start, known := forms[id.Name]
			if !known {
				c.Ob("C20.typestate", pk, fk, "case("+id.Name+")", pos(e), false, fk+": case label "+id.Name+" is not one of the declared forms")
				continue
			}
			covered[id.Name] = true
			if armUnmodelled {
				c.Note(fmt.Sprintf("%s, case %s: the arm contains a statement this rule does not model (helper call, nested branch): not judged", fk, id.Name))
				continue
			}
			cur := start
			claimed := start
			ok2 := true
			msg := ""
			returned := false
			apply := func(list []effect) {
				for _, ef := range list {
					if returned || !ok2 {
						return
					}
					switch ef.kind {
					case "return":
						returned = true
					case "setLayout":
						claimed.layout = ef.arg
					case "setBasis":
						claimed.basis = ef.arg
					case "BitReverse":
						if cur.layout == "Regular" {
							cur.layout = "BitReverse"
						} else {
							cur.layout = "Regular"
						}
					case "FFT":
						wantLayout := map[string]string{"DIF": "Regular", "DIT": "BitReverse"}[ef.arg]
						if cur.basis != "Canonical" || cur.layout != wantLayout {
							ok2 = false
							msg = fmt.Sprintf("%s, case %s: FFT(%s) at %s is applied to a polynomial in (%s,%s) but requires (Canonical,%s)", fk, id.Name, ef.arg, pos(ef.node), cur.basis, cur.layout, wantLayout)
							return
						}
						cur.basis = "Lagrange"
						if ef.coset {
							cur.basis = "LagrangeCoset"
						}
						cur.layout = map[string]string{"DIF": "BitReverse", "DIT": "Regular"}[ef.arg]
					case "FFTInverse":
						wantLayout := map[string]string{"DIF": "Regular", "DIT": "BitReverse"}[ef.arg]
						wantBasis := "Lagrange"
						if ef.coset {
							wantBasis = "LagrangeCoset"
						}
						if cur.basis != wantBasis || cur.layout != wantLayout {
							ok2 = false
							msg = fmt.Sprintf("%s, case %s: FFTInverse(%s, coset=%v) at %s is applied to a polynomial in (%s,%s) but requires (%s,%s)", fk, id.Name, ef.arg, ef.coset, pos(ef.node), cur.basis, cur.layout, wantBasis, wantLayout)
							return
						}
						cur.basis = "Canonical"
						cur.layout = map[string]string{"DIF": "BitReverse", "DIT": "Regular"}[ef.arg]
					}
				}
			}
			apply(effs)
			if !returned {
				apply(tail)
			}
			if ok2 && (cur != claimed) {
				ok2 = false
				msg = fmt.Sprintf("%s, case %s: the transformations leave the coefficients in (%s,%s) but the polynomial is labelled (%s,%s)", fk, id.Name, cur.basis, cur.layout, claimed.basis, claimed.layout)
			}
			c.Ob("C20.typestate", pk, fk, "case("+id.Name+")", pos(clause), ok2, msg)
		}
	}
	var missing []string
	for n := range forms {
		if !covered[n] {
			missing = append(missing, n)
		}
	}
	sort.Strings(missing)
	c.Ob("C20.typestate", pk, fk, "forms-exhaustive", pos(sw), len(missing) == 0 || hasDefaultPanic, fmt.Sprintf("%s: forms %v have no case and the default does not panic", fk, missing))
}

// zeroOperands: arithmetic calls with a never-assigned local element as (non-receiver) operand.
func zeroOperands(fns []*ssa.Function) (sites int, hits []Finding) {
	arith := map[string]bool{"Mul": true, "Exp": true, "Div": true, "Inverse": true, "Square": true}
	for _, fn := range fns {
		for _, b := range fn.Blocks {
			for _, in := range b.Instrs {
				call, ok := in.(*ssa.Call)
				if !ok || call.Call.IsInvoke() {
					continue
				}
				cl := calleeOf(&call.Call)
				if cl.Recv != "Element" || !arith[cl.Name] {
					continue
				}
				sites++
				for _, a := range call.Call.Args[1:] {
					var al *ssa.Alloc
					switch x := a.(type) {
					case *ssa.Alloc:
						al = x
					case *ssa.UnOp:
						if x.Op == token.MUL {
							al, _ = x.X.(*ssa.Alloc)
						}
					}
					if al == nil {
						continue
					}
					if _, isNamed := al.Type().(*types.Pointer).Elem().(*types.Named); !isNamed {
						continue
					}
					if neverDefinedBefore(fn, al, call) {
						hits = append(hits, Finding{fn, instrPos(in), "zero-operand(" + cl.Name + ")",
							fmt.Sprintf("%s: %s is applied to a local element that is never assigned before the call (it is zero): the result is degenerate (0 or 1) whatever the inputs", funcKey(fn), descCallee(cl))})
					}
				}
			}
		}
	}
	return
}

// neverDefinedBefore: no store into / defining call on the alloc can precede `at`.
func neverDefinedBefore(fn *ssa.Function, a *ssa.Alloc, at ssa.Instruction) bool {
	var visit func(v ssa.Value, d int) bool
	visit = func(v ssa.Value, d int) bool {
		if d > 6 || v.Referrers() == nil {
			return true
		}
		for _, r := range *v.Referrers() {
			if r == at {
				continue
			}
			switch x := r.(type) {
			case *ssa.Store:
				if x.Addr == v && instrMayPrecede(fn, r, at) {
					return false
				}
			case *ssa.FieldAddr, *ssa.IndexAddr:
				if !visit(r.(ssa.Value), d+1) {
					return false
				}
			case ssa.CallInstruction:
				// any earlier call receiving the address may define it
				if instrMayPrecede(fn, r, at) {
					return false
				}
				_ = x
			case *ssa.MakeClosure:
				return false
			}
		}
		return true
	}
	return visit(a, 0)
}

// cloneDefinesAllFields: the returned struct has every field stored (or a whole-struct store).
func cloneDefinesAllFields(fn *ssa.Function) (bool, []string) {
	// result: a pointer to a struct
	var st *types.Struct
	res := fn.Signature.Results()
	if res.Len() != 1 {
		return false, []string{"(no single result)"}
	}
	if pt, ok := res.At(0).Type().Underlying().(*types.Pointer); ok {
		st, _ = pt.Elem().Underlying().(*types.Struct)
	}
	if st == nil {
		return false, []string{"(result is not *struct)"}
	}
	for _, b := range fn.Blocks {
		ret, ok := b.Instrs[len(b.Instrs)-1].(*ssa.Return)
		if !ok {
			continue
		}
		v := ret.Results[0]
		// delegation to another clone-like function: fields not overwritten are inherited
		inherited := false
		written := map[string]bool{}
		var root ssa.Value = v
		if call, ok := v.(*ssa.Call); ok {
			if f := call.Call.StaticCallee(); f != nil && f != fn {
				ok2, _ := cloneDefinesAllFields(f)
				inherited = ok2
			}
		}
		if a, ok := root.(*ssa.Alloc); ok {
			for _, r := range *a.Referrers() {
				switch x := r.(type) {
				case *ssa.Store:
					if x.Addr == ssa.Value(a) {
						inherited = true // whole-struct store
					}
				case *ssa.FieldAddr:
					for _, rr := range *x.Referrers() {
						if s2, ok := rr.(*ssa.Store); ok && s2.Addr == ssa.Value(x) {
							written[fieldName(a.Type(), x.Field)] = true
						}
					}
				}
			}
		}
		if inherited {
			continue
		}
		var missing []string
		for i := 0; i < st.NumFields(); i++ {
			if !written[st.Field(i).Name()] {
				missing = append(missing, st.Field(i).Name())
			}
		}
		if len(missing) > 0 {
			return false, missing
		}
	}
	return true, nil
}

// indexesNormalised: every index into the coefficient vector in GetCoeff derives from a value
// of the shape  r = x % n ; if r < 0 { r += n }.
func indexesNormalised(fn *ssa.Function) (bool, string) {
	n := 0
	for _, b := range fn.Blocks {
		for _, in := range b.Instrs {
			ia, ok := in.(*ssa.IndexAddr)
			if !ok || !isSliceType(ia.X.Type()) {
				continue
			}
			n++
			if !derivesFromNormalisedMod(ia.Index, 0) {
				return false, "the coefficient index " + descValue(ia.Index, 0) + " is not reduced into [0, n): a negative shift makes it negative (panic)"
			}
		}
	}
	// the access made by a helper of the package (p.at(pos)): the helper's index derives from its
	// parameter, and the argument is a normalised position
	for _, b := range fn.Blocks {
		for _, in := range b.Instrs {
			call, ok := in.(*ssa.Call)
			if !ok {
				continue
			}
			f := call.Call.StaticCallee()
			if f == nil || f.Blocks == nil || f.Pkg != fn.Pkg {
				continue
			}
			for _, hb := range f.Blocks {
				for _, hin := range hb.Instrs {
					ia, ok := hin.(*ssa.IndexAddr)
					if !ok || !isSliceType(ia.X.Type()) {
						continue
					}
					n++
					normalisedParams = map[*ssa.Parameter]bool{}
					for i, q := range f.Params {
						if i < len(call.Call.Args) && derivesFromNormalisedMod(call.Call.Args[i], 0) {
							normalisedParams[q] = true
						}
					}
					okIdx := derivesFromNormalisedMod(ia.Index, 0)
					normalisedParams = nil
					if !okIdx {
						return false, "the coefficient index " + descValue(ia.Index, 0) + " used by " + f.Name() + " is not reduced into [0, n): a negative shift makes it negative (panic)"
					}
				}
			}
		}
	}
	if n == 0 {
		return false, "no coefficient access found"
	}
	return true, ""
}

// normalisedParams: parameters of the helper being looked through whose argument is a normalised position.
var normalisedParams map[*ssa.Parameter]bool

func derivesFromNormalisedMod(v ssa.Value, depth int) bool {
	if depth > 8 {
		return false
	}
	v = stripConvAll(v)
	switch x := v.(type) {
	case *ssa.Parameter:
		return normalisedParams[x]
	case *ssa.Phi:
		// phi(r, r+n) with r = _ % n
		var rem *ssa.BinOp
		for _, e := range x.Edges {
			if b, ok := stripConvAll(e).(*ssa.BinOp); ok && b.Op == token.REM {
				rem = b
			}
		}
		if rem == nil {
			// a choice between positions each of which is normalised (regular / bit-reversed entry)
			for _, e := range x.Edges {
				if stripConvAll(e) == ssa.Value(x) || !derivesFromNormalisedMod(e, depth+1) {
					return false
				}
			}
			return len(x.Edges) > 0
		}
		okAll := true
		for _, e := range x.Edges {
			e2 := stripConvAll(e)
			if e2 == ssa.Value(rem) {
				continue
			}
			if b, ok := e2.(*ssa.BinOp); ok && b.Op == token.ADD && (stripConvAll(b.X) == ssa.Value(rem) && sameValue(b.Y, rem.Y, 0) || stripConvAll(b.Y) == ssa.Value(rem) && sameValue(b.X, rem.Y, 0)) {
				continue
			}
			okAll = false
		}
		return okAll
	case *ssa.BinOp:
		// bit reversal of a normalised value: Reverse64(pos) >> nn
		if x.Op == token.SHR {
			return derivesFromNormalisedMod(x.X, depth+1)
		}
	case *ssa.Call:
		if strings.HasPrefix(calleeOf(&x.Call).Name, "Reverse") && len(x.Call.Args) == 1 {
			return derivesFromNormalisedMod(x.Call.Args[0], depth+1)
		}
	}
	return false
}

// basisConst: value of the named Basis constant of the iop package.
func basisConst(p *Program, pk, name string) (int64, bool) {
	pkg := p.ByPath[modPath+"/"+pk]
	if pkg == nil {
		return 0, false
	}
	k, ok := pkg.Types.Scope().Lookup(name).(*types.Const)
	if !ok {
		return 0, false
	}
	v, ok2 := constant.Int64Val(k.Val())
	return v, ok2
}
