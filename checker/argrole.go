package main

// ARGUMENT ROLES (deviant behaviour, Engler et al.): when almost every call of one function in the
// library passes the fields (f, g) of one struct type at the argument positions (i, j), a call that
// passes (g, f) of that type at the same positions has its operands swapped. The statistics range
// over the whole library (the generated siblings of every curve count), the instances are the call
// sites; only an exact swap against a majority of at least 9 in 10 (and at least 8 sites) is
// reported — a different field, another base object or a local is no verdict. Methods whose operands
// have the receiver's own type (z.Sub(&p.Y, &p.X)) are left out: both orders are legitimate there.

import (
	"fmt"
	"go/types"
	"sort"

	"golang.org/x/tools/go/ssa"
)

type argRoleSite struct {
	fn   *ssa.Function
	call ssa.CallInstruction
	f, g string
}

type argRoleKey struct {
	callee string
	i, j   int
	typ    string
}

// fieldOfArg: the (struct type, field name) an argument denotes when it is &x.f or x.f.
func fieldOfArg(v ssa.Value) (string, string, ssa.Value, bool) {
	if u, ok := v.(*ssa.UnOp); ok {
		v = u.X
	}
	fa, ok := v.(*ssa.FieldAddr)
	if !ok {
		return "", "", nil, false
	}
	pt, ok := fa.X.Type().Underlying().(*types.Pointer)
	if !ok {
		return "", "", nil, false
	}
	st, ok := pt.Elem().Underlying().(*types.Struct)
	if !ok {
		return "", "", nil, false
	}
	return types.TypeString(pt.Elem(), func(p *types.Package) string { return "" }), st.Field(fa.Field).Name(), fa.X, true
}

func argRoleStats(p *Program) map[argRoleKey][]argRoleSite {
	if p.argRoles != nil {
		return p.argRoles
	}
	out := map[argRoleKey][]argRoleSite{}
	for _, fn := range libFuncs(p) {
		for _, b := range fn.Blocks {
			for _, in := range b.Instrs {
				site, ok := in.(ssa.CallInstruction)
				if !ok {
					continue
				}
				com := site.Common()
				cal := com.StaticCallee()
				if cal == nil {
					continue
				}
				if o := cal.Origin(); o != nil {
					cal = o
				}
				// the callee is identified by receiver type name + method name, without the
				// package: the generated siblings of all curves vote together
				name := cal.Name()
				if r := cal.Signature.Recv(); r != nil {
					name = types.TypeString(r.Type(), func(*types.Package) string { return "" }) + "." + name
				}
				first := 0
				var recvT types.Type
				if r := cal.Signature.Recv(); r != nil {
					// the receiver is the destination, and a method whose operands have the
					// receiver's own type is plain ring arithmetic: both x-y and y-x occur
					first = 1
					recvT = derefType(r.Type())
				}
				for i := first; i < len(com.Args); i++ {
					if recvT != nil && types.Identical(derefType(com.Args[i].Type()), recvT) {
						continue
					}
					ti, fi, bi, ok := fieldOfArg(com.Args[i])
					if !ok {
						continue
					}
					for j := i + 1; j < len(com.Args); j++ {
						tj, fj, bj, ok := fieldOfArg(com.Args[j])
						if !ok || ti != tj || fi == fj {
							continue
						}
						// the same object on both positions (same address value or same rendering)
						if bi != bj && descValue(bi, 0) != descValue(bj, 0) {
							continue
						}
						k := argRoleKey{name, i, j, ti}
						out[k] = append(out[k], argRoleSite{fn, site, fi, fj})
					}
				}
			}
		}
	}
	p.argRoles = out
	return out
}

// swappedArguments reports the deviant sites located in the given packages.
func swappedArguments(p *Program, pkgPats ...string) (int, []Finding) {
	want := map[string]bool{}
	for _, pk := range p.FamilyPkgs(pkgPats...) {
		want[pk] = true
	}
	stats := argRoleStats(p)
	var keys []argRoleKey
	for k := range stats {
		keys = append(keys, k)
	}
	sort.Slice(keys, func(a, b int) bool {
		return fmt.Sprint(keys[a]) < fmt.Sprint(keys[b])
	})
	n := 0
	var hits []Finding
	for _, k := range keys {
		sites := stats[k]
		count := map[[2]string]int{}
		for _, s := range sites {
			count[[2]string{s.f, s.g}]++
		}
		for _, s := range sites {
			if len(pkgPats) > 0 && !want[relPkg(fnPkgPath(s.fn))] {
				continue
			}
			n++
			maj := count[[2]string{s.g, s.f}]
			mine := count[[2]string{s.f, s.g}]
			// within one function: both orders occur for the same callee and object type
			if maj > 0 {
				rootOf := func(f *ssa.Function) *ssa.Function {
					for f.Parent() != nil {
						f = f.Parent()
					}
					return f
				}
				same, other := 0, 0
				for _, t := range sites {
					if rootOf(t.fn) != rootOf(s.fn) {
						continue
					}
					if t.f == s.f && t.g == s.g {
						same++
					} else if t.f == s.g && t.g == s.f {
						other++
					}
				}
				if other > same || (other == same && other > 0 && maj > mine) {
					hits = append(hits, Finding{s.fn, s.call.Pos(), fmt.Sprintf("swapped-arguments(%s,%d,%d)", k.callee, k.i, k.j),
						fmt.Sprintf("%s: the call of %s passes the fields (%s, %s) of one %s at argument positions %d and %d, and %d other call(s) of it in the same function pass (%s, %s): one of the two orders has its operands swapped",
							funcKey(s.fn), k.callee, s.f, s.g, k.typ, k.i, k.j, other, s.g, s.f)})
					continue
				}
			}
			if maj >= 8 && maj*10 >= (maj+mine)*9 {
				hits = append(hits, Finding{s.fn, s.call.Pos(), fmt.Sprintf("swapped-arguments(%s,%d,%d)", k.callee, k.i, k.j),
					fmt.Sprintf("%s: the call of %s passes the fields (%s, %s) of one %s at argument positions %d and %d where %d of the %d such calls in the library pass (%s, %s): the operands are swapped",
						funcKey(s.fn), k.callee, s.f, s.g, k.typ, k.i, k.j, maj, maj+mine, s.g, s.f)})
			}
		}
	}
	return n, hits
}

func argRoleLint(c *Ctx, p *Program, pkgPats ...string) {
	rule := c.Prop + ".argrole"
	c.Rule(rule, "ARGUMENT ROLES (deviance): where at least 9 in 10 of the calls of one function in the whole library (generated siblings of all curves included, at least 8 sites) pass the fields (f, g) of one object at two argument positions, no call in the property's packages passes (g, f) of one object at those positions", 0)
	n, hits := swappedArguments(p, pkgPats...)
	c.Instance(rule, n)
	reportFindings(c, p, rule, nil, hits, "")
	c.Ob(rule, "-", "-", "field-pair-call-sites-compared", "-", true, "")
}

func init() {
	debugArgRoles = func(p *Program) {
		st := argRoleStats(p)
		for k, v := range st {
			if len(v) >= 1 {
				count := map[[2]string]int{}
				for _, s := range v {
					count[[2]string{s.f, s.g}]++
				}
				fmt.Println(k, len(v), count)
			}
		}
	}
}

var debugArgRoles func(p *Program)

func derefType(t types.Type) types.Type {
	if pt, ok := t.Underlying().(*types.Pointer); ok {
		return pt.Elem()
	}
	return t
}
