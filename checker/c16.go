package main

import (
	"golang.org/x/tools/go/ssa"
	"regexp"
)

func init() { register("C16", checkC16) }

func checkC16(c *Ctx) {
	p := mustLoad(c, K1)
	indexLints(c, p, "accumulator/merkletree", "field/koalabear/vortex")
	c.Rule("C16.guard", "GUARD: merkletree.VerifyProof returns true only through the final bytes.Equal with the given root, after merkleRoot != nil, proofIndex < numLeaves and an equality test fixing the length of the proof set (a shortened set lets an interior node play the leaf); vortex MerkleProof.Verify returns nil only with 0 <= i < 2^len(proof) and the recomputed node equal to the root; MerkleTree.Open only with 0 <= i < 2^depth", 3)
	c.Rule("C16.bounds", "BOUNDS (L12): every proofSet[height] / levels index on caller-supplied slices is dominated by a comparison with the slice length (a shortened proof is rejected, never a panic)", 2)
	c.Rule("C16.order", "ORDER: in Tree.Push and Tree.PushSubTree the join of equal-height subtrees (which reads currentIndex to decide which sibling enters the proof set) happens before currentIndex is advanced, in both insertion routines alike; the tracked leaf is recorded before the join", 2)
	c.Rule("C16.par", "PARTITION (L8): the parallel level build of BuildMerkleTree writes levels[i][k] only for k in its [start,end) range", 1)
	c.Rule("C16.alias", "ALIAS (L10): Tree.Prove returns a proof set that does not share its backing array with the tree (later pushes cannot overwrite a proof already handed out); Push and PushSubTree keep no reference to the caller's slice (a reused input buffer cannot change the proof set or the root)", 3)
	for _, name := range []string{"Prove"} {
		if fn := p.Func("accumulator/merkletree", "Tree", name); fn != nil {
			c.Instance("C16.alias", 1)
			checkReturnedSlicesFresh(c, p, "C16.alias", fn)
		} else {
			c.Undecided("anchor merkletree.Tree.%s not found", name)
		}
	}
	for _, name := range []string{"Push", "PushSubTree"} {
		if fn := p.Func("accumulator/merkletree", "Tree", name); fn != nil {
			c.Instance("C16.alias", 1)
			checkNoRetainedParamSlices(c, p, "C16.alias", fn)
		} else {
			c.Undecided("anchor merkletree.Tree.%s not found", name)
		}
	}

	vp := p.Func("accumulator/merkletree", "", "VerifyProof")
	if vp == nil {
		c.Undecided("anchor merkletree.VerifyProof not found")
	} else {
		RequireFacts(c, p, "C16.guard", vp, AcceptTrueBool, nil, []Req{
			{"root!=nil", `^p1 != nil$`},
			{"InRange(proofIndex,numLeaves)", `^p3 < p4$`},
			{"root-compared", `^ok bytes\.Equal\(.*,p1\)$`},
			{"proof-non-empty", `^0 < len\(p2\)$`},
			{"proof-length-fixed-by-(index,numLeaves)", `== len\(p2\)$|^len\(p2\) == `},
		})
		sites, hits := unguardedAccesses(p, vp)
		c.Instance("C16.bounds", 1)
		_ = sites
		reportFindings(c, p, "C16.bounds", []*ssa.Function{vp}, hits, "accesses-guarded")
	}
	const vx = "field/koalabear/vortex"
	// the functions of the package that compute a node by compression (CompressPoseidon2 itself and
	// whatever wraps it, e.g. a fold over the proof)
	rootFns := "CompressPoseidon2"
	for _, f := range libFuncs(p, vx) {
		if f.Parent() == nil && f.Name() != "CompressPoseidon2" && f.Signature.Results().Len() >= 1 && f.Signature.Results().Len() <= 2 && reachesCallee(f, "CompressPoseidon2") {
			rootFns += "|" + regexp.QuoteMeta(f.Name())
		}
	}
	if fn := p.Func(vx, "MerkleProof", "Verify"); fn != nil {
		RequireFacts(c, p, "C16.guard", fn, AcceptNilErr, nil, []Req{
			{"InRange(i)>=0", `^0 <= p0$`},
			{"InRange(i)<2^depth", `^\(p0>>len\(pr\)\) == 0$|^p0 < \(1<<len\(pr\)\)$`},
			{"root-compared", `^p2 == .*(?:` + rootFns + `)\(|(?:` + rootFns + `)\(.* == p2$|^local:Hash == p2$|^p2 == local:Hash$`}, // the running node kept in an address-taken local
		})
	} else {
		c.Undecided("anchor vortex.MerkleProof.Verify not found")
	}
	if fn := p.Func(vx, "MerkleTree", "Open"); fn != nil {
		RequireFacts(c, p, "C16.guard", fn, AcceptNilErr, nil, []Req{
			{"InRange(i)>=0", `^0 <= p0$`},
			{"InRange(i)<2^depth", `^p0 < \(1<<MerkleTree\.Depth\(pr\)\)$`},
		})
		sites, hits := unguardedAccesses(p, fn)
		_ = sites
		c.Instance("C16.bounds", 1)
		reportFindings(c, p, "C16.bounds", []*ssa.Function{fn}, hits, "accesses-guarded")
	} else {
		c.Undecided("anchor vortex.MerkleTree.Open not found")
	}
	// order rule
	for _, name := range []string{"Push", "PushSubTree"} {
		fn := p.Func("accumulator/merkletree", "Tree", name)
		if fn == nil {
			c.Undecided("anchor merkletree.Tree.%s not found", name)
			continue
		}
		c.Instance("C16.order", 1)
		recv := fn.Params[0]
		var joins []ssa.Instruction
		var idxStores []ssa.Instruction
		for _, b := range fn.Blocks {
			for _, in := range b.Instrs {
				switch x := in.(type) {
				case *ssa.Call:
					if calleeOf(&x.Call).Name == "joinAllSubTrees" {
						joins = append(joins, in)
					}
				case *ssa.Store:
					if addrDerivedFrom(x.Addr, recv, ".currentIndex") {
						idxStores = append(idxStores, in)
					}
				}
			}
		}
		ok := len(joins) > 0 && len(idxStores) > 0
		for _, s := range idxStores {
			for _, j := range joins {
				if instrMayPrecede(fn, s, j) {
					ok = false
				}
			}
		}
		c.Ob("C16.order", "accumulator/merkletree", funcKey(fn), "join-before-index-update", p.Pos(fn.Pos()), ok,
			funcKey(fn)+": currentIndex is advanced before (or without) joinAllSubTrees, which uses it to pick the sibling that enters the proof set: proofs built through this routine do not verify for some tree shapes")
	}
	// partition rule
	if fn := p.Func(vx, "", "BuildMerkleTree"); fn != nil {
		c.Instance("C16.par", 1)
		n, bad := partitionedWrites(p, fn)
		// the level loop may hand the per-level work to a function of the package
		seenPW := map[*ssa.Function]bool{fn: true}
		var more func(f *ssa.Function, d int)
		more = func(f *ssa.Function, d int) {
			for _, b := range f.Blocks {
				for _, in := range b.Instrs {
					if ci, ok := in.(ssa.CallInstruction); ok {
						if h := ci.Common().StaticCallee(); h != nil && h.Blocks != nil && fnPkgPath(h) == fnPkgPath(fn) && h.Parent() == nil && !seenPW[h] && d < 3 {
							seenPW[h] = true
							n2, b2 := partitionedWrites(p, h)
							n += n2
							bad = append(bad, b2...)
							more(h, d+1)
						}
					}
				}
			}
		}
		more(fn, 0)
		c.Ob("C16.par", vx, funcKey(fn), "closure-writes-partitioned", p.Pos(fn.Pos()), n > 0 && len(bad) == 0, funcKey(fn)+": a parallel closure writes a captured slice at an index not derived from its [start,end) range: "+joinStr(bad))
	} else {
		c.Undecided("anchor vortex.BuildMerkleTree not found")
	}
	c.Assume("collision resistance of the hash (tamper rejection) and equality of the root with the recursive tree hash are value-level: not decided")
}

func joinStr(xs []string) string {
	s := ""
	for i, x := range xs {
		if i > 0 {
			s += "; "
		}
		s += x
	}
	return s
}
