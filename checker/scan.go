package main

import (
	"fmt"
	"go/token"
	"go/types"
	"strings"
	"sync"

	"golang.org/x/tools/go/ssa"
)

// ---------------------------------------------------------------------------------------------
// L-SCAN: a descending scan loop  `for i := hi; i >= 0; i--`  that reads several operands at the
// loop index (k1[i], k2[i], ...) must start at an index computed from EVERY operand it scans: if
// the start index does not depend (through data flow) on one of them, the top words of that
// operand are silently skipped whenever it is longer than the others. The rule is structural: it
// looks at the backward data-flow slice of the loop's initial index, not at values.
// ---------------------------------------------------------------------------------------------

// sliceAllocs: local allocations that reach the sinks through data flow (same over-approximate
// slice as influenceSet).
func sliceAllocs(fn *ssa.Function, sinks []ssa.Value) map[*ssa.Alloc]bool {
	seen := map[ssa.Value]bool{}
	allocs := map[*ssa.Alloc]bool{}
	var work []ssa.Value
	push := func(v ssa.Value) {
		if v != nil && !seen[v] {
			seen[v] = true
			work = append(work, v)
		}
	}
	var derived func(v ssa.Value, acc *[]ssa.Value, d int)
	derived = func(v ssa.Value, acc *[]ssa.Value, d int) {
		if d > 12 || v.Referrers() == nil {
			return
		}
		*acc = append(*acc, v)
		for _, r := range *v.Referrers() {
			switch x := r.(type) {
			case *ssa.FieldAddr:
				derived(x, acc, d+1)
			case *ssa.IndexAddr:
				derived(x, acc, d+1)
			case *ssa.Slice:
				derived(x, acc, d+1)
			case *ssa.ChangeType:
				derived(x, acc, d+1)
			}
		}
	}
	process := func(a *ssa.Alloc) {
		if allocs[a] {
			return
		}
		allocs[a] = true
		var addrs []ssa.Value
		derived(a, &addrs, 0)
		for _, ad := range addrs {
			if ad.Referrers() == nil {
				continue
			}
			for _, r := range *ad.Referrers() {
				switch x := r.(type) {
				case *ssa.Store:
					if x.Addr == ad {
						push(x.Val)
					}
				case ssa.CallInstruction:
					// the call may define the local from its other operands — unless the callee is
					// statically known not to write through this argument (mod summary)
					if !callMayWriteArg(fn, x, ad) {
						continue
					}
					for _, op := range x.Common().Args {
						push(op)
					}
				}
			}
		}
	}
	for _, s := range sinks {
		push(s)
	}
	for len(work) > 0 {
		v := work[len(work)-1]
		work = work[:len(work)-1]
		if a := allocRoot(v, 0); a != nil {
			process(a)
		}
		switch x := v.(type) {
		case *ssa.Call:
			for _, a := range x.Call.Args {
				push(a)
			}
			push(x.Call.Value)
		case *ssa.Parameter, *ssa.Const, *ssa.Global, *ssa.FreeVar, *ssa.Builtin, *ssa.Function:
		default:
			if in, ok := v.(ssa.Instruction); ok {
				for _, op := range in.Operands(nil) {
					if op != nil && *op != nil {
						push(*op)
					}
				}
			}
		}
	}
	return allocs
}

func allocRoot(v ssa.Value, d int) *ssa.Alloc {
	if d > 12 {
		return nil
	}
	switch x := v.(type) {
	case *ssa.Alloc:
		return x
	case *ssa.FieldAddr:
		return allocRoot(x.X, d+1)
	case *ssa.IndexAddr:
		return allocRoot(x.X, d+1)
	case *ssa.Slice:
		return allocRoot(x.X, d+1)
	case *ssa.ChangeType:
		return allocRoot(x.X, d+1)
	case *ssa.UnOp:
		if x.Op == token.MUL {
			return allocRoot(x.X, d+1)
		}
	}
	return nil
}

func allocName(a *ssa.Alloc) string {
	if a.Comment != "" {
		return a.Comment
	}
	return a.Name()
}

// scanLoopBounds analyses every descending counting loop of fn. Returns the number of loops that
// scan at least two distinct local operands at the loop index and the findings.
func scanLoopBounds(p *Program, fn *ssa.Function) (int, []Finding) {
	var hits []Finding
	n := 0
	for _, li := range loopsOf(fn) {
		for _, in := range li.header.Instrs {
			phi, ok := in.(*ssa.Phi)
			if !ok {
				break
			}
			if !isInteger(phi.Type()) {
				continue
			}
			// init edges come from outside the loop; back-edge value must be phi - const
			var inits []ssa.Value
			desc := false
			for i, e := range phi.Edges {
				pred := li.header.Preds[i]
				if li.blocks[pred.Index] {
					if bo, ok := e.(*ssa.BinOp); ok && bo.Op == token.SUB && bo.X == phi {
						if _, isC := bo.Y.(*ssa.Const); isC {
							desc = true
						}
					}
				} else {
					inits = append(inits, e)
				}
			}
			if !desc || len(inits) == 0 {
				continue
			}
			allConst := true
			for _, iv := range inits {
				if _, ok := iv.(*ssa.Const); !ok {
					allConst = false
				}
			}
			// operands indexed by phi inside the loop
			operands := map[*ssa.Alloc]token.Pos{}
			for _, b := range fn.Blocks {
				if !li.blocks[b.Index] {
					continue
				}
				for _, x := range b.Instrs {
					ia, ok := x.(*ssa.IndexAddr)
					if !ok || stripConv(ia.Index) != ssa.Value(phi) {
						continue
					}
					// only reads: the address is loaded, not stored to
					read := false
					if ia.Referrers() != nil {
						for _, r := range *ia.Referrers() {
							if u, ok := r.(*ssa.UnOp); ok && u.Op == token.MUL {
								read = true
							}
						}
					}
					if !read {
						continue
					}
					if a := allocRoot(ia.X, 0); a != nil {
						if _, ok := operands[a]; !ok {
							operands[a] = ia.Pos()
						}
					}
				}
			}
			// fixed-size operands: the start index must not come from an unbounded length
			if !allConst {
				for a, pos := range operands {
					if !fixedArrayAlloc(a) {
						continue
					}
					for _, iv := range inits {
						for _, bad := range unboundedLengthLeaves(iv, 0, map[ssa.Value]bool{}) {
							hits = append(hits, Finding{fn, pos, "scan-start-bounded(" + allocName(a) + ")",
								fmt.Sprintf("%s: the descending loop at %s indexes the fixed-size array %s with an index that starts from %s, which is not bounded by the array's size: a longer scalar indexes past the limbs (panic)", funcKey(fn), p.Pos(phi.Pos()), allocName(a), bad)})
						}
					}
					break
				}
			}
			if len(operands) < 2 {
				continue
			}
			n++
			if allConst {
				continue // fixed top index: every word of every operand is scanned
			}
			sl := sliceAllocs(fn, inits)
			for a, pos := range operands {
				if !sl[a] {
					hits = append(hits, Finding{fn, pos, "scan-start-covers(" + allocName(a) + ")",
						fmt.Sprintf("%s: the descending loop at %s reads %s at the loop index, but the index the loop starts from is not computed from %s: when %s is longer than the other scanned operands its top words are never processed", funcKey(fn), p.Pos(phi.Pos()), allocName(a), allocName(a), allocName(a))})
				}
			}
		}
	}
	return n, hits
}

// ---------------------------------------------------------------------------------------------
// L-ABS: math/big magnitude accessors (Bytes, Bits, BitLen, Bit, FillBytes) ignore the sign. A
// scalar-multiplication / exponentiation kernel that scans the magnitude of a *big.Int it
// received must also consult its sign (Sign / Cmp), or scan a value derived from one whose sign
// was consulted (k.Neg(s) / k.Set(s) after s.Sign()), or a value that is non-negative by
// construction (Abs, Mod, SetBytes, SetUint64, Element.BigInt).
// ---------------------------------------------------------------------------------------------

func bigRoot(v ssa.Value) ssa.Value {
	v = stripConv(v)
	for d := 0; d < 12; d++ {
		switch x := v.(type) {
		case *ssa.Parameter:
			return x
		case *ssa.Alloc:
			return x
		case *ssa.IndexAddr:
			v = x.X
			continue
		case *ssa.FieldAddr:
			v = x.X
			continue
		case *ssa.UnOp:
			if x.Op == token.MUL {
				v = x.X
				continue
			}
		case *ssa.Call:
			// fluent big.Int methods return their receiver
			cl := calleeOf(&x.Call)
			if cl.Pkg == "math/big" && cl.Recv == "Int" && len(x.Call.Args) > 0 && isBigIntPtr(x.Type()) {
				v = x.Call.Args[0]
				continue
			}
			return x
		}
		return v
	}
	return v
}

func isBigIntPtr(t types.Type) bool {
	pt, ok := t.(*types.Pointer)
	return ok && namedName(pt.Elem()) == "Int" && namedPkg(pt.Elem()) == "math/big"
}

var bigMagnitude = map[string]bool{"Bytes": true, "Bits": true, "BitLen": true, "Bit": true, "FillBytes": true, "TrailingZeroBits": true}
var bigSignReaders = map[string]bool{"Sign": true, "Cmp": true, "IsInt64": true, "Int64": true}
var bigNonNegWriters = map[string]bool{"Abs": true, "Mod": true, "SetBytes": true, "SetUint64": true, "SetBits": true}

// signFacts: roots whose sign is consulted (or non-negative by construction) in fn, and the
// magnitude reads of fn.
type magRead struct {
	root ssa.Value
	pos  token.Pos
	name string
}

func signFacts(fn *ssa.Function) (map[ssa.Value]bool, []magRead) {
	consulted := map[ssa.Value]bool{}
	var mags []magRead
	type wr struct {
		dst  ssa.Value
		srcs []ssa.Value
		name string
	}
	var writes []wr
	for _, b := range fn.Blocks {
		for _, in := range b.Instrs {
			call, ok := in.(*ssa.Call)
			if !ok {
				continue
			}
			cl := calleeOf(&call.Call)
			if cl.Pkg == "math/big" && cl.Recv == "Int" && len(call.Call.Args) > 0 {
				r := bigRoot(call.Call.Args[0])
				switch {
				case bigSignReaders[cl.Name]:
					consulted[r] = true
				case bigMagnitude[cl.Name]:
					mags = append(mags, magRead{r, call.Pos(), cl.Name})
				default:
					w := wr{dst: r, name: cl.Name}
					for _, a := range call.Call.Args[1:] {
						if isBigIntPtr(a.Type()) {
							w.srcs = append(w.srcs, bigRoot(a))
						}
					}
					writes = append(writes, w)
				}
				continue
			}
			// repository helpers producing non-negative values into a *big.Int destination
			if (cl.Name == "BigInt" || cl.Name == "ToBigIntRegular" || cl.Name == "toBigInt") && len(call.Call.Args) >= 2 {
				consulted[bigRoot(call.Call.Args[1])] = true
			}
		}
	}
	for changed := true; changed; {
		changed = false
		for _, w := range writes {
			if consulted[w.dst] {
				continue
			}
			ok := bigNonNegWriters[w.name]
			if !ok && len(w.srcs) > 0 {
				ok = true
				for _, s := range w.srcs {
					if !consulted[s] {
						ok = false
					}
				}
			}
			if ok {
				consulted[w.dst] = true
				changed = true
			}
		}
	}
	return consulted, mags
}

func isBigScalarRoot(v ssa.Value) bool {
	switch r := v.(type) {
	case *ssa.Parameter:
		return isBigIntPtr(r.Type()) // a field of a configuration struct (lattice determinant, modulus) is not a scalar
	case *ssa.Alloc:
		t := r.Type().(*types.Pointer).Elem()
		if at, ok := t.Underlying().(*types.Array); ok {
			t = at.Elem()
		}
		return namedName(t) == "Int" && namedPkg(t) == "math/big"
	case *ssa.TypeAssert:
		return isBigIntPtr(r.Type()) // pooled scratch value
	}
	return false
}

// signDiscipline: findings for magnitude reads of big.Int values whose sign was never consulted.
// For an unexported function the obligation on a parameter may be met by all its callers
// (precondition established at the exported entry point), looked up in the call graph.
func signDiscipline(p *Program, fn *ssa.Function) (int, []Finding) {
	consulted, mags := signFacts(fn)
	var hits []Finding
	var flat func(v ssa.Value, seen map[ssa.Value]bool, out *[]ssa.Value)
	flat = func(v ssa.Value, seen map[ssa.Value]bool, out *[]ssa.Value) {
		if seen[v] {
			return
		}
		seen[v] = true
		if ph, ok := v.(*ssa.Phi); ok {
			for _, e := range ph.Edges {
				flat(bigRoot(e), seen, out)
			}
			return
		}
		*out = append(*out, v)
	}
	var expanded []magRead
	for _, m := range mags {
		var roots []ssa.Value
		flat(m.root, map[ssa.Value]bool{}, &roots)
		for _, r := range roots {
			expanded = append(expanded, magRead{r, m.pos, m.name})
		}
	}
	for _, m := range expanded {
		if consulted[m.root] || !isBigScalarRoot(m.root) {
			continue
		}
		if par, ok := m.root.(*ssa.Parameter); ok && fn.Object() != nil && !fn.Object().Exported() {
			if callersConsult(p, fn, par, 0) {
				continue
			}
		}
		hits = append(hits, Finding{fn, m.pos, "sign-consulted(" + descValue(m.root, 0) + ")",
			fmt.Sprintf("%s: reads the magnitude of a big.Int (%s.%s) whose sign is never consulted on the way: a negative scalar/exponent is treated as its absolute value", funcKey(fn), descValue(m.root, 0), m.name)})
	}
	return len(mags), hits
}

func callersConsult(p *Program, fn *ssa.Function, par *ssa.Parameter, depth int) bool {
	if depth > 3 {
		return false
	}
	idx := -1
	for i, q := range fn.Params {
		if q == par {
			idx = i
		}
	}
	node := p.CallGraph().Nodes[fn]
	if idx < 0 || node == nil || len(node.In) == 0 {
		return false
	}
	for _, e := range node.In {
		caller := e.Caller.Func
		if caller == nil || e.Site == nil || !libPkg(relPkg(fnPkgPath(caller))) {
			continue
		}
		args := e.Site.Common().Args
		if e.Site.Common().IsInvoke() || idx >= len(args) {
			return false
		}
		cons, _ := signFacts(caller)
		r := bigRoot(args[idx])
		if cons[r] {
			continue
		}
		if cp, ok := r.(*ssa.Parameter); ok && caller.Object() != nil && !caller.Object().Exported() && callersConsult(p, caller, cp, depth+1) {
			continue
		}
		return false
	}
	return true
}

// fluentMethods: methods of library packages whose single result is a pointer to their receiver
// type (z.Op(x, y) returning z) and whose key matches re.
func fluentMethods(p *Program, re interface{ MatchString(string) bool }) []*ssa.Function {
	var out []*ssa.Function
	for _, fn := range p.RepoFuncs() {
		if fn.Parent() != nil || fn.Signature.Recv() == nil || fn.Blocks == nil || !libPkg(relPkg(fnPkgPath(fn))) {
			continue
		}
		if fn.Origin() != nil && fn.Origin() != fn {
			continue
		}
		res := fn.Signature.Results()
		if res.Len() != 1 || !types.Identical(res.At(0).Type(), fn.Signature.Recv().Type()) {
			continue
		}
		if _, ok := res.At(0).Type().(*types.Pointer); !ok {
			continue
		}
		if !re.MatchString(funcKey(fn)) {
			continue
		}
		out = append(out, fn)
	}
	return out
}

// ---------------------------------------------------------------------------------------------
// L-ZEROUSE (belief contradiction, Engler et al.): on the branch where `P.IsZero()` returned true,
// P is an operand of a multiplication / squaring / inversion: the product is the constant zero,
// which means the test and the arithmetic disagree on which quantity vanishes.
// ---------------------------------------------------------------------------------------------
func zeroKnownOperands(p *Program, fn *ssa.Function) (int, []Finding) {
	var hits []Finding
	n := 0
	for _, b := range fn.Blocks {
		if len(b.Instrs) == 0 {
			continue
		}
		iff, ok := b.Instrs[len(b.Instrs)-1].(*ssa.If)
		if !ok {
			continue
		}
		call, ok := iff.Cond.(*ssa.Call)
		if !ok || calleeOf(&call.Call).Name != "IsZero" || len(call.Call.Args) != 1 {
			continue
		}
		tested := call.Call.Args[0]
		key := descValue(tested, 0)
		if key == "" || strings.HasPrefix(key, "local:") {
			// locals are re-used as scratch: identity by description is not reliable
			if _, isAlloc := stripConv(tested).(*ssa.Alloc); !isAlloc {
				continue
			}
		}
		n++
		then := b.Succs[0]
		if len(then.Preds) != 1 {
			continue
		}
		for _, d := range fn.Blocks {
			if !(d == then || then.Dominates(d)) {
				continue
			}
			for _, in := range d.Instrs {
				c2, ok := in.(*ssa.Call)
				if !ok {
					continue
				}
				cl := calleeOf(&c2.Call)
				operands := c2.Call.Args
				switch cl.Name {
				case "Mul", "Square", "Inverse", "Div", "MulByNonResidue", "MulAssign":
					if len(operands) > 0 {
						operands = operands[1:]
					}
				case "LexicographicallyLargest", "Legendre":
					// predicates of their receiver: constant on zero
					if len(operands) != 1 {
						continue
					}
				default:
					continue
				}
				for _, a := range operands {
					same := a == tested
					if !same {
						if _, isAlloc := stripConv(tested).(*ssa.Alloc); !isAlloc && descValue(a, 0) == key {
							same = true
						}
					}
					if same && !storedBetween(fn, tested, call, c2) {
						hits = append(hits, Finding{fn, c2.Pos(), "zero-known-operand(" + key + ")",
							fmt.Sprintf("%s: %s is an operand of %s on the branch where %s.IsZero() returned true: the test and the arithmetic disagree on which quantity vanishes", funcKey(fn), key, cl.Name, key)})
					}
				}
			}
		}
	}
	return n, hits
}

// storedBetween: is the tested cell (a local) redefined by a call between the test and the use?
func storedBetween(fn *ssa.Function, cell ssa.Value, from, to ssa.Instruction) bool {
	a, ok := stripConv(cell).(*ssa.Alloc)
	if !ok || a.Referrers() == nil {
		return false
	}
	for _, r := range *a.Referrers() {
		c, ok := r.(*ssa.Call)
		if ok && len(c.Call.Args) > 0 && c.Call.Args[0] == cell && c != from && c != to && instrMayPrecede(fn, from, c) && instrMayPrecede(fn, c, to) {
			return true
		}
		if st, ok := r.(*ssa.Store); ok && st.Addr == cell {
			return true
		}
	}
	return false
}

var (
	scanEffMu sync.Mutex
	scanEff   = map[*ssa.Program]*Effects{}
	scanProg  = map[*ssa.Program]*Program{}
)

// registerScanProgram makes the mod summaries of p available to the slicer.
func registerScanProgram(p *Program) {
	scanEffMu.Lock()
	defer scanEffMu.Unlock()
	for _, fn := range p.RepoFuncs() {
		if _, ok := scanEff[fn.Prog]; !ok {
			scanEff[fn.Prog] = NewEffects(p)
			scanProg[fn.Prog] = p
		}
		break
	}
}

// callMayWriteArg: may the call write memory reachable from the address ad it receives?
func callMayWriteArg(fn *ssa.Function, site ssa.CallInstruction, ad ssa.Value) bool {
	callee := site.Common().StaticCallee()
	if callee == nil {
		return true
	}
	scanEffMu.Lock()
	eff := scanEff[fn.Prog]
	scanEffMu.Unlock()
	if eff == nil {
		return true
	}
	args := site.Common().Args
	may := false
	found := false
	for i, a := range args {
		if a != ad {
			continue
		}
		found = true
		var cs *Summary
		if callee.Blocks == nil || !strings.HasPrefix(fnPkgPath(callee), modPath) {
			cs = eff.externalSummary(callee, Callee{Pkg: fnPkgPath(callee), Name: callee.Name()})
		} else {
			cs = eff.Summary(callee)
		}
		if cs == nil || len(cs.WritesRoot(i)) > 0 {
			may = true
		}
	}
	return may || !found
}

// fixedArrayAlloc: a local whose type is (an array of) fixed-size word arrays.
func fixedArrayAlloc(a *ssa.Alloc) bool {
	t := a.Type().(*types.Pointer).Elem()
	_, ok := t.Underlying().(*types.Array)
	return ok
}

// unboundedLengthLeaves walks the pure value expression of v (arithmetic, phis, conversions) and
// returns the calls it bottoms out in that yield a length not bounded by a fixed array size:
// (*big.Int).BitLen, len of (*big.Int).Bits()/Bytes().
func unboundedLengthLeaves(v ssa.Value, depth int, seen map[ssa.Value]bool) []string {
	if depth > 20 || seen[v] {
		return nil
	}
	seen[v] = true
	switch x := v.(type) {
	case *ssa.BinOp:
		return append(unboundedLengthLeaves(x.X, depth+1, seen), unboundedLengthLeaves(x.Y, depth+1, seen)...)
	case *ssa.Phi:
		var out []string
		for _, e := range x.Edges {
			out = append(out, unboundedLengthLeaves(e, depth+1, seen)...)
		}
		return out
	case *ssa.Convert:
		return unboundedLengthLeaves(x.X, depth+1, seen)
	case *ssa.ChangeType:
		return unboundedLengthLeaves(x.X, depth+1, seen)
	case *ssa.Call:
		cl := calleeOf(&x.Call)
		if cl.Pkg == "math/big" && cl.Recv == "Int" && cl.Name == "BitLen" {
			return []string{"(*big.Int).BitLen of " + descValue(x.Call.Args[0], 0)}
		}
		if b, ok := x.Call.Value.(*ssa.Builtin); ok && b.Name() == "len" && len(x.Call.Args) == 1 {
			if c2, ok := x.Call.Args[0].(*ssa.Call); ok {
				cl2 := calleeOf(&c2.Call)
				if cl2.Pkg == "math/big" && (cl2.Name == "Bits" || cl2.Name == "Bytes") {
					return []string{"len((*big.Int)." + cl2.Name + "())"}
				}
			}
		}
	}
	return nil
}

// fixedArrayUnboundedIndex: indices into fixed-size arrays whose value expression bottoms out in
// an unbounded big.Int length (library-wide generalisation of scan-start-bounded).
func fixedArrayUnboundedIndex(p *Program, fn *ssa.Function) (int, []Finding) {
	var hits []Finding
	n := 0
	for _, b := range fn.Blocks {
		for _, in := range b.Instrs {
			ia, ok := in.(*ssa.IndexAddr)
			if !ok {
				continue
			}
			pt, ok := ia.X.Type().Underlying().(*types.Pointer)
			if !ok {
				continue
			}
			if _, isArr := pt.Elem().Underlying().(*types.Array); !isArr {
				continue
			}
			if _, isConst := ia.Index.(*ssa.Const); isConst {
				continue
			}
			n++
			for _, bad := range unboundedLengthLeaves(ia.Index, 0, map[ssa.Value]bool{}) {
				hits = append(hits, Finding{fn, ia.Pos(), "array-index-bounded(" + descValue(ia.X, 0) + ")",
					fmt.Sprintf("%s: the fixed-size array %s is indexed with a value computed from %s, which is not bounded by the array length", funcKey(fn), descValue(ia.X, 0), bad)})
				break
			}
		}
	}
	return n, hits
}

// ---------------------------------------------------------------------------------------------
// COORDINATE-COVERAGE: a function that inspects a struct-typed input (an extension-field
// element, given through a slice or pointer parameter) coordinate by coordinate reads every
// base-field leaf of it; reading some leaves and never the others means one coordinate is never
// checked (copy/paste slip in a coordinate-wise loop). A whole-value use (copy, call with the
// element's address, comparison) covers all its leaves.
// ---------------------------------------------------------------------------------------------

func leafPaths(t types.Type, prefix string, depth int, out *[]string) {
	if depth > 6 {
		*out = append(*out, prefix)
		return
	}
	if st, ok := t.Underlying().(*types.Struct); ok && st.NumFields() > 0 {
		for i := 0; i < st.NumFields(); i++ {
			leafPaths(st.Field(i).Type(), prefix+"."+st.Field(i).Name(), depth+1, out)
		}
		return
	}
	*out = append(*out, prefix)
}

// coordinateCoverage returns, per parameter index, the leaves of the parameter's element type
// that are never read although at least one other leaf is.
func coordinateCoverage(fn *ssa.Function) map[int][]string {
	res := map[int][]string{}
	for pi, par := range fn.Params {
		var elem types.Type
		switch u := par.Type().Underlying().(type) {
		case *types.Slice:
			elem = u.Elem()
		case *types.Pointer:
			elem = u.Elem()
		}
		if elem == nil {
			continue
		}
		if _, ok := elem.Underlying().(*types.Struct); !ok {
			continue
		}
		var leaves []string
		leafPaths(elem, "", 0, &leaves)
		if len(leaves) < 2 {
			continue
		}
		covered := map[string]bool{}
		var visit func(v ssa.Value, path string, d int)
		visit = func(v ssa.Value, path string, d int) {
			if d > 10 || v.Referrers() == nil {
				return
			}
			for _, r := range *v.Referrers() {
				switch x := r.(type) {
				case *ssa.IndexAddr:
					if x.X == v {
						visit(x, path, d+1)
					}
				case *ssa.FieldAddr:
					visit(x, path+"."+fieldName(x.X.Type(), x.Field), d+1)
				case *ssa.Slice:
					visit(x, path, d+1)
				case *ssa.Phi, *ssa.ChangeType:
					visit(x.(ssa.Value), path, d+1)
				case *ssa.DebugRef:
				case *ssa.Store:
					if x.Addr == v {
						continue // written, not read
					}
					covered[path+"*"] = true
				case *ssa.Call:
					if b, ok := x.Call.Value.(*ssa.Builtin); ok && (b.Name() == "len" || b.Name() == "cap") {
						continue
					}
					covered[path+"*"] = true
				default:
					// load, call argument, comparison, ...: the whole sub-object at this path
					covered[path+"*"] = true
				}
			}
		}
		visit(par, "", 0)
		any := false
		var missing []string
		for _, l := range leaves {
			ok := false
			for c := range covered {
				pre := strings.TrimSuffix(c, "*")
				if pre == "" || l == pre || strings.HasPrefix(l, pre+".") {
					ok = true
				}
			}
			if ok {
				any = true
			} else {
				missing = append(missing, l)
			}
		}
		if any && len(missing) > 0 {
			res[pi] = missing
		}
	}
	return res
}

// ---------------------------------------------------------------------------------------------
// L-WIDTH: a product (or sum) computed in a type narrower than int whose operand is a length
// decoded from input (binary.*.Uint32/Uint16 result, or a uint32 parameter/field) and whose result
// is used as a slice length / bound / index: for large decoded values the product wraps around and
// the bound no longer matches the data.
// ---------------------------------------------------------------------------------------------
func narrowLengthArithmetic(p *Program, fn *ssa.Function) (int, []Finding) {
	var hits []Finding
	n := 0
	for _, b := range fn.Blocks {
		for _, in := range b.Instrs {
			bo, ok := in.(*ssa.BinOp)
			if !ok || (bo.Op != token.MUL && bo.Op != token.SHL) {
				continue
			}
			bt, ok := bo.Type().Underlying().(*types.Basic)
			if !ok {
				continue
			}
			narrow := false
			switch bt.Kind() {
			case types.Uint32, types.Int32, types.Uint16, types.Int16, types.Uint8, types.Int8:
				narrow = true
			}
			// one operand decoded from input?
			depthDecoded := 0
			var decoded func(v ssa.Value) bool
			decoded = func(v ssa.Value) bool {
				v = stripConv(v)
				if ld, ok := v.(*ssa.UnOp); ok && ld.Op == token.MUL {
					// a local (possibly captured by a closure, hence spilled) holding the decoded value
					if a, ok := ld.X.(*ssa.Alloc); ok && a.Referrers() != nil {
						for _, r := range *a.Referrers() {
							if st, ok := r.(*ssa.Store); ok && st.Addr == ssa.Value(a) && decoded(st.Val) {
								return true
							}
						}
					}
					return false
				}
				if c, ok := v.(*ssa.Call); ok {
					cl := calleeOf(&c.Call)
					if cl.Pkg == "encoding/binary" && (strings.HasPrefix(cl.Name, "Uint") || strings.HasPrefix(cl.Name, "Int")) {
						return true
					}
				}
				// the result of a function of the module that returns a decoded value
				// (readVectorLen(r) (uint32, int64, error))
				if c, idx := callResult(v); c != nil && depthDecoded < 2 {
					if h := c.Call.StaticCallee(); h != nil && h.Blocks != nil && strings.HasPrefix(fnPkgPath(h), modPath) {
						depthDecoded++
						defer func() { depthDecoded-- }()
						for _, hb := range h.Blocks {
							if ret, ok := hb.Instrs[len(hb.Instrs)-1].(*ssa.Return); ok && idx < len(ret.Results) {
								if decoded(retValue(ret, idx)) {
									return true
								}
							}
						}
					}
				}
				return false
			}
			if !decoded(bo.X) && !decoded(bo.Y) {
				continue
			}
			n++ // a product involving a decoded length (whatever its width): instance of the rule
			if narrow && usedAsBound(bo, 0, map[ssa.Value]bool{}) {
				hits = append(hits, Finding{fn, bo.Pos(), "decoded-length-arithmetic-in-int", fmt.Sprintf("%s: a length decoded from the input is multiplied in %s and the product is used as a slice length or bound: for large headers the product wraps around (the data window no longer matches the announced length)", funcKey(fn), bt.Name())})
			}
		}
	}
	return n, hits
}

func usedAsBound(v ssa.Value, d int, seen map[ssa.Value]bool) bool {
	if d > 6 || seen[v] || v.Referrers() == nil {
		return false
	}
	seen[v] = true
	for _, r := range *v.Referrers() {
		switch x := r.(type) {
		case *ssa.Convert:
			if usedAsBound(x, d+1, seen) {
				return true
			}
		case *ssa.ChangeType:
			if usedAsBound(x, d+1, seen) {
				return true
			}
		case *ssa.MakeSlice:
			return true
		case *ssa.Slice:
			if x.Low == v || x.High == v || x.Max == v {
				return true
			}
		case *ssa.IndexAddr:
			if x.Index == v {
				return true
			}
		case *ssa.Call:
			cl := calleeOf(&x.Call)
			if cl.Pkg == "unsafe" || cl.Name == "Slice" || cl.Name == "SliceData" {
				return true
			}
			if b, ok := x.Call.Value.(*ssa.Builtin); ok && strings.HasPrefix(b.Name(), "Slice") {
				return true
			}
		case *ssa.BinOp:
			if usedAsBound(x, d+1, seen) {
				return true
			}
		case *ssa.Phi:
			if usedAsBound(x, d+1, seen) {
				return true
			}
		}
	}
	return false
}

// ---------------------------------------------------------------------------------------------
// SUB-OBJECT ALIASING: an operand whose type S is the type of a (nested) coordinate / element of
// the receiver type T may point INTO the receiver (z.MulByElement(&z, &z.A0), v.ScalarMul(v, &v[3])).
// The operation then has to read the operand before it writes the receiver component of type S
// (or copy it first): a read of the operand after such a write is a hazard.
// ---------------------------------------------------------------------------------------------

// containsType: does T (struct / array / slice, nested) contain a component of type S?
func containsType(t, s types.Type, d int) bool {
	if d > 6 {
		return false
	}
	switch u := t.Underlying().(type) {
	case *types.Struct:
		for i := 0; i < u.NumFields(); i++ {
			ft := u.Field(i).Type()
			if types.Identical(ft, s) || containsType(ft, s, d+1) {
				return true
			}
		}
	case *types.Array:
		return types.Identical(u.Elem(), s) || containsType(u.Elem(), s, d+1)
	case *types.Slice:
		return types.Identical(u.Elem(), s) || containsType(u.Elem(), s, d+1)
	}
	return false
}

func subObjectHazards(p *Program, eff *Effects, fn *ssa.Function) (int, []Finding) {
	if fn.Signature.Recv() == nil || len(fn.Params) < 2 {
		return 0, nil
	}
	rt := pointee(fn.Params[0].Type())
	if rt == nil {
		rt = fn.Params[0].Type()
	}
	var hits []Finding
	n := 0
	var s *Summary
	for i := 1; i < len(fn.Params); i++ {
		st := pointee(fn.Params[i].Type())
		if st == nil || types.Identical(st, rt) || !containsType(rt, st, 0) {
			continue
		}
		// only pointer operands to a single component (scalars); slices of components are ranges
		if _, isPtr := fn.Params[i].Type().Underlying().(*types.Pointer); !isPtr {
			continue
		}
		n++
		if s == nil {
			s = eff.Summary(fn)
		}
		hz := s.HazBetween(0, i)
		pos := token.NoPos
		if len(hz) > 0 {
			pos = s.Haz[hz[0]]
		} else if sb := s.SubBetween(0, i); len(sb) > 0 {
			hz = sb
			pos = s.Sub[sb[0]]
		}
		if len(hz) == 0 {
			continue
		}
		h := hz[0]
		hits = append(hits, Finding{fn, pos, fmt.Sprintf("sub-object(param#%d)", i-1),
			fmt.Sprintf("%s: the operand %s (%s) may point to a component of the receiver; the receiver is written at %s%s and %s%s is read afterwards: with %s inside the receiver the later reads see the new value", funcKey(fn), fn.Params[i].Name(), types.TypeString(st, func(*types.Package) string { return "" }), fn.Params[0].Name(), h.W.Path, fn.Params[i].Name(), h.R.Path, fn.Params[i].Name())})
	}
	return n, hits
}

// ---------------------------------------------------------------------------------------------
// ASM-BOUNDS: an assembly routine (a repository function without a Go body) that receives the
// address of the first element of a slice works on a range it derives from its other arguments and
// does no bounds checking. The call is dominated by a comparison that mentions the length of that
// slice (a guard such as len(a) != len(b) -> panic, n == 0 -> return, len(a) < 2*m -> generic path),
// or the slice was allocated in the function with a length it controls.
// ---------------------------------------------------------------------------------------------
func asmCallBounds(p *Program, fn *ssa.Function) (int, []Finding) {
	var hits []Finding
	n := 0
	// values that denote len(s) for each slice value s (by description)
	for _, b := range fn.Blocks {
		for _, in := range b.Instrs {
			call, ok := in.(*ssa.Call)
			if !ok {
				continue
			}
			callee := call.Call.StaticCallee()
			if callee == nil || callee.Blocks != nil || !strings.HasPrefix(fnPkgPath(callee), modPath) {
				continue
			}
			// only range kernels: the stub takes a count / index argument (element-wise stubs such as
			// Butterfly(a, b *Element) touch exactly the elements whose addresses they get)
			hasCount := false
			for i := 0; i < callee.Signature.Params().Len(); i++ {
				if bt, ok := callee.Signature.Params().At(i).Type().Underlying().(*types.Basic); ok && bt.Info()&types.IsInteger != 0 {
					hasCount = true
				}
			}
			if !hasCount {
				continue
			}
			for _, a := range call.Call.Args {
				ia, ok := a.(*ssa.IndexAddr)
				if !ok {
					continue
				}
				if _, isSlice := ia.X.Type().Underlying().(*types.Slice); !isSlice {
					continue
				}
				if k, ok := constInt(ia.Index); !ok || k != 0 {
					continue
				}
				n++
				base := stripConv(ia.X)
				if _, fresh := base.(*ssa.MakeSlice); fresh {
					continue
				}
				want := descValue(base, 0)
				if lengthGuarded(fn, call, base, want) {
					continue
				}
				hits = append(hits, Finding{fn, call.Pos(), "asm-range-guarded(" + callee.Name() + ":" + want + ")",
					fmt.Sprintf("%s: passes &%s[0] to the assembly routine %s without any dominating test of len(%s): the routine works on a range derived from its other arguments and does no bounds checking", funcKey(fn), want, callee.Name(), want)})
			}
		}
	}
	return n, hits
}

// lengthGuarded: some If that dominates the call has a condition whose expression mentions
// len(base) (same SSA value, or a value with the same description).
func lengthGuarded(fn *ssa.Function, call *ssa.Call, base ssa.Value, desc string) bool {
	mentionsLen := func(v ssa.Value) bool {
		seen := map[ssa.Value]bool{}
		var rec func(v ssa.Value, d int) bool
		rec = func(v ssa.Value, d int) bool {
			if d > 8 || v == nil || seen[v] {
				return false
			}
			seen[v] = true
			if c, ok := v.(*ssa.Call); ok {
				if bi, ok := c.Call.Value.(*ssa.Builtin); ok && bi.Name() == "len" && len(c.Call.Args) == 1 {
					x := stripConv(c.Call.Args[0])
					if x == base || descValue(x, 0) == desc {
						return true
					}
				}
			}
			if in, ok := v.(ssa.Instruction); ok {
				switch v.(type) {
				case *ssa.BinOp, *ssa.UnOp, *ssa.Convert, *ssa.Phi, *ssa.ChangeType:
					for _, op := range in.Operands(nil) {
						if op != nil && rec(*op, d+1) {
							return true
						}
					}
				}
			}
			return false
		}
		return rec(v, 0)
	}
	for d := call.Block(); d != nil; d = d.Idom() {
		id := d.Idom()
		if id == nil {
			break
		}
		if iff, ok := id.Instrs[len(id.Instrs)-1].(*ssa.If); ok {
			// short-circuit chains: the condition may itself be a phi of comparisons
			if mentionsLen(iff.Cond) {
				return true
			}
		}
	}
	return false
}

// ---------------------------------------------------------------------------------------------
// DEAD-CHECK-VALUE: in a verifier, a local that is only ever the destination of arithmetic
// (Set / ScalarMultiplication / Add ... with the local as receiver) and is never compared, passed
// on or returned is a check that was prepared and then forgotten (e.g. a folded commitment that
// is computed and dropped: the corresponding input of the proof is not bound to anything).
// ---------------------------------------------------------------------------------------------
func deadAccumulators(p *Program, fn *ssa.Function) (int, []Finding) {
	return deadAccumulatorsMin(p, fn, 1)
}

func deadAccumulatorsMin(p *Program, fn *ssa.Function, minSteps int) (int, []Finding) {
	var hits []Finding
	n := 0
	for _, b := range fn.Blocks {
		for _, in := range b.Instrs {
			a, ok := in.(*ssa.Alloc)
			if !ok || a.Referrers() == nil {
				continue
			}
			if _, isStruct := a.Type().(*types.Pointer).Elem().Underlying().(*types.Struct); !isStruct {
				if _, isArr := a.Type().(*types.Pointer).Elem().Underlying().(*types.Array); !isArr {
					continue
				}
			}
			// aliases: the alloc and results of fluent calls on it
			alias := map[ssa.Value]bool{a: true}
			for changed := true; changed; {
				changed = false
				for v := range alias {
					if v.Referrers() == nil {
						continue
					}
					for _, r := range *v.Referrers() {
						if c, ok := r.(*ssa.Call); ok && len(c.Call.Args) > 0 && c.Call.Args[0] == v && types.Identical(c.Type(), a.Type()) && !alias[c] {
							alias[c] = true
							changed = true
						}
					}
				}
			}
			defs, used := 0, false
			for v := range alias {
				if v.Referrers() == nil {
					continue
				}
				for _, r := range *v.Referrers() {
					switch x := r.(type) {
					case *ssa.Call:
						if len(x.Call.Args) > 0 && alias[x.Call.Args[0]] && types.Identical(x.Type(), a.Type()) {
							defs++ // fluent arithmetic with the local as destination (it may also read itself)
							continue
						}
						used = true
					case *ssa.DebugRef:
					default:
						used = true
					}
				}
			}
			if defs < minSteps {
				continue
			}
			n++
			if !used {
				hits = append(hits, Finding{fn, a.Pos(), "computed-value-used(" + allocName(a) + ")",
					fmt.Sprintf("%s: the local %s is computed (%d arithmetic steps) and then never compared, passed on or returned: a check of the scheme was prepared and dropped", funcKey(fn), allocName(a), defs)})
			}
		}
	}
	return n, hits
}

// ---------------------------------------------------------------------------------------------
// STALE-CAPACITY: s[:n] with n beyond len(s) exposes whatever the backing array held before
// (elements of an earlier, longer value). The library never extends a slice into its spare
// capacity — cap() is not used anywhere on the reference tree —; a reslice whose bound is cap(s)
// or is compared with cap(s) is reported unless the exposed part is cleared (clear builtin) before
// any other use in the same block.
// ---------------------------------------------------------------------------------------------
func staleCapacityReslices(p *Program, fn *ssa.Function) (int, []Finding) {
	isCap := func(v ssa.Value) bool {
		c, ok := stripConv(v).(*ssa.Call)
		if !ok {
			return false
		}
		b, ok := c.Call.Value.(*ssa.Builtin)
		return ok && b.Name() == "cap"
	}
	var mentionsCap func(v ssa.Value, d int) bool
	mentionsCap = func(v ssa.Value, d int) bool {
		if v == nil || d > 4 {
			return false
		}
		if isCap(v) {
			return true
		}
		if b, ok := stripConv(v).(*ssa.BinOp); ok {
			return mentionsCap(b.X, d+1) || mentionsCap(b.Y, d+1)
		}
		return false
	}
	n := 0
	var hits []Finding
	for _, b := range fn.Blocks {
		for i, in := range b.Instrs {
			sl, ok := in.(*ssa.Slice)
			if !ok || sl.High == nil || !isSliceType(sl.X.Type()) {
				continue
			}
			n++
			viaCap := mentionsCap(sl.High, 0)
			if !viaCap {
				// any comparison of the bound with a capacity in the function (the usual shape is
				// `if cap(buf) < n { buf = make(...) }; buf = buf[:n]`, where the test does not dominate)
				for _, ob := range fn.Blocks {
					iff, ok := ob.Instrs[len(ob.Instrs)-1].(*ssa.If)
					if !ok {
						continue
					}
					g := atomOf(iff.Cond)
					if g.Kind == "cmp" && ((sameValue(g.X, sl.High, 0) && mentionsCap(g.Y, 0)) || (sameValue(g.Y, sl.High, 0) && mentionsCap(g.X, 0))) {
						viaCap = true
					}
				}
			}
			if !viaCap {
				continue
			}
			cleared := false
			for _, nx := range b.Instrs[i+1:] {
				if c, ok := nx.(*ssa.Call); ok {
					if bi, ok := c.Call.Value.(*ssa.Builtin); ok && bi.Name() == "clear" && len(c.Call.Args) == 1 {
						cleared = true
					}
				}
			}
			if cleared {
				continue
			}
			// a buffer the caller hands in for this very call (an operand other than the receiver,
			// or a field of a by-value configuration struct) is the caller's memory: reusing its
			// capacity as documented output space keeps no state of the library across calls
			if callerProvidedBuffer(fn, sl.X) {
				continue
			}
			hits = append(hits, Finding{fn, sl.Pos(), "reslice-into-capacity(" + descValue(sl.X, 0) + ")",
				funcKey(fn) + ": " + descValue(sl.X, 0) + " is resliced up to a bound taken from its capacity: the elements beyond its length are whatever the backing array held before (a value that was longer once), they become part of the result without being cleared"})
		}
	}
	return n, hits
}

// ---------------------------------------------------------------------------------------------
// RANGE-OFFSET: `for i := range s[k:]` (k != 0) numbers the elements of the sub-slice from 0; the
// body that then indexes the BASE slice with the bare loop index (s[i] instead of s[k+i]) visits
// the wrong elements: the first k are processed again, the last k never. Reported when the loop
// index of a range over a sub-slice with a non-zero low bound indexes the slice the sub-slice was
// taken from.
// ---------------------------------------------------------------------------------------------
func rangeOffsetMisuse(p *Program, fn *ssa.Function) (int, []Finding) {
	n := 0
	var hits []Finding
	for _, b := range fn.Blocks {
		// rangeindex loop header: phi [-1, idx], idx = phi + 1, if idx < len(t)
		if len(b.Instrs) < 3 {
			continue
		}
		iff, ok := b.Instrs[len(b.Instrs)-1].(*ssa.If)
		if !ok {
			continue
		}
		a := atomOf(iff.Cond)
		if a.Kind != "cmp" || a.Op != token.LSS {
			continue
		}
		idx, ok := a.X.(*ssa.BinOp)
		if !ok || idx.Op != token.ADD {
			continue
		}
		ph, ok := idx.X.(*ssa.Phi)
		if !ok || ph.Block() != b {
			continue
		}
		if k, ok := constInt(idx.Y); !ok || k != 1 {
			continue
		}
		init := false
		for _, e := range ph.Edges {
			if k, ok := constInt(e); ok && k == -1 {
				init = true
			}
		}
		if !init {
			continue
		}
		l := lenOf(a.Y)
		if l == nil {
			continue
		}
		sub, ok := stripConv(l).(*ssa.Slice)
		if !ok || sub.Low == nil {
			continue
		}
		if k, isConst := constInt(sub.Low); isConst && k == 0 {
			continue
		}
		n++
		base := sub.X
		if idx.Referrers() == nil {
			continue
		}
		// `for i := range s[1:] { ... s[i] ... s[i+1] ... }` walks adjacent pairs on purpose: the
		// base is also indexed with index+low
		adjacent := false
		for _, r := range *idx.Referrers() {
			if ad, ok := r.(*ssa.BinOp); ok && ad.Op == token.ADD && ad.Referrers() != nil {
				other := ad.Y
				if ad.Y == ssa.Value(idx) {
					other = ad.X
				}
				if sameValue(other, sub.Low, 0) {
					for _, rr := range *ad.Referrers() {
						if ia, ok := rr.(*ssa.IndexAddr); ok && (ia.X == base || sameLoadOrValue(ia.X, base)) {
							adjacent = true
						}
					}
				}
			}
		}
		if adjacent {
			continue
		}
		for _, r := range *idx.Referrers() {
			ia, ok := r.(*ssa.IndexAddr)
			if !ok || ia.Index != ssa.Value(idx) {
				continue
			}
			if ia.X == base || sameLoadOrValue(ia.X, base) {
				hits = append(hits, Finding{fn, ia.Pos(), "range-index-on-base(" + descValue(base, 0) + ")",
					fmt.Sprintf("%s: the loop ranges over %s[%s:] but indexes %s with the loop index itself: the index counts from the start of the sub-slice, so the first element(s) are visited again and the last never (use base[low+i] or the range value)", funcKey(fn), descValue(base, 0), descValue(sub.Low, 0), descValue(base, 0))})
			}
		}
	}
	return n, hits
}

func sameLoadOrValue(a, b ssa.Value) bool {
	if a == b {
		return true
	}
	return sameLoad(a, b)
}

// ---------------------------------------------------------------------------------------------
// SHARED-FIELD-STORAGE: a constructor (or setter) that stores one and the same slice value into
// two different fields of an object makes the two fields views of one array: a later in-place
// update of one (copy into it, append(f[:0], ...)) changes the other. Reported for pairs of stores
// of the same slice-typed SSA value into distinct fields of the same object.
// ---------------------------------------------------------------------------------------------
func sharedFieldStorage(p *Program, fn *ssa.Function) (int, []Finding) {
	type fstore struct {
		obj   ssa.Value
		field string
		pos   token.Pos
	}
	byVal := map[ssa.Value][]fstore{}
	var direct []Finding
	n := 0
	for _, b := range fn.Blocks {
		for _, in := range b.Instrs {
			st, ok := in.(*ssa.Store)
			if !ok {
				continue
			}
			if _, isSlice := st.Val.Type().Underlying().(*types.Slice); !isSlice {
				continue
			}
			fa, ok := st.Addr.(*ssa.FieldAddr)
			if !ok {
				continue
			}
			if c, isConst := st.Val.(*ssa.Const); isConst && c.Value == nil {
				continue
			}
			n++
			byVal[st.Val] = append(byVal[st.Val], fstore{fa.X, fieldName(fa.X.Type(), fa.Field), st.Pos()})
			// the slice held by another field of the same object (or a reslice of it) copied into
			// this field: `h.state = h.iv`
			src := st.Val
			for {
				if sl, ok := src.(*ssa.Slice); ok {
					src = sl.X
					continue
				}
				break
			}
			if ld, ok := src.(*ssa.UnOp); ok && ld.Op == token.MUL {
				if fb, ok := ld.X.(*ssa.FieldAddr); ok && sameObject(fb.X, fa.X) && fb.Field != fa.Field {
					f1, f2 := fieldName(fa.X.Type(), fa.Field), fieldName(fb.X.Type(), fb.Field)
					if f2 < f1 {
						f1, f2 = f2, f1
					}
					direct = append(direct, Finding{fn, st.Pos(), "shared-storage(" + f1 + "," + f2 + ")",
						fmt.Sprintf("%s: the slice held by the field %s is stored in the field %s of the same object: they share a backing array, an in-place update of one is an update of the other", funcKey(fn), fieldName(fb.X.Type(), fb.Field), fieldName(fa.X.Type(), fa.Field))})
				}
			}
		}
	}
	hits := direct
	for v, ss := range byVal {
		for i := 0; i < len(ss); i++ {
			for j := i + 1; j < len(ss); j++ {
				if ss[i].obj == ss[j].obj && ss[i].field != ss[j].field {
					f1, f2 := ss[i].field, ss[j].field
					if f2 < f1 {
						f1, f2 = f2, f1
					}
					hits = append(hits, Finding{fn, ss[j].pos, "shared-storage(" + f1 + "," + f2 + ")",
						fmt.Sprintf("%s: the same slice (%s) is stored in the fields %s and %s of one object: they share a backing array, an in-place update of one is an update of the other", funcKey(fn), descValue(v, 0), f1, f2)})
				}
			}
		}
	}
	return n, hits
}

// ---------------------------------------------------------------------------------------------
// CHUNK-REMAINDER: a number of chunks obtained by the floor division n / size that bounds a loop
// which starts one goroutine per chunk and rebuilds positions as k*size covers only (n/size)*size
// elements. Unless n is known to
// be a multiple of size, the function has to treat the remainder: it uses n % size, computes the
// count as a ceiling division, or clamps an end position against n. Reported: a floor-divided
// trip count, multiplied back by the divisor in the loop, in a function with none of the three.
// ---------------------------------------------------------------------------------------------
func chunkRemainderDropped(p *Program, fn *ssa.Function) (int, []Finding) {
	n := 0
	var hits []Finding
	loops := loopsOf(fn)
	if len(loops) == 0 {
		return 0, nil
	}
	for _, b := range fn.Blocks {
		for _, in := range b.Instrs {
			q, ok := in.(*ssa.BinOp)
			if !ok || q.Op != token.QUO || !isInteger(q.Type()) {
				continue
			}
			if k, isConst := constInt(q.Y); isConst && k <= 1 {
				continue
			}
			if _, isConst := constInt(q.X); isConst {
				continue
			}
			// ceiling form (a + b - 1) / b or (a - 1)/b + 1
			if num, ok := stripConv(q.X).(*ssa.BinOp); ok && (num.Op == token.SUB || num.Op == token.ADD) {
				if inner, ok := stripConv(num.X).(*ssa.BinOp); ok && inner.Op == token.ADD && (sameValue(inner.Y, q.Y, 0) || sameValue(inner.X, q.Y, 0)) {
					continue
				}
				if num.Op == token.ADD {
					if k, ok := constInt(num.Y); ok && k > 0 && sameValueOrConstMinus1(num.Y, q.Y) {
						continue
					}
				}
			}
			// is q the bound of a loop counter?
			var loop *loopInfo
			for _, l := range loops {
				iff, ok := l.header.Instrs[len(l.header.Instrs)-1].(*ssa.If)
				if !ok {
					continue
				}
				a := atomOf(iff.Cond)
				if a.Kind != "cmp" {
					continue
				}
				if sameValue(stripConv(a.Y), q, 0) || sameValue(stripConv(a.X), q, 0) {
					loop = l
				}
			}
			if loop == nil {
				continue
			}
			// positions rebuilt as k*size inside the loop
			mulBack := false
			for bi := range loop.blocks {
				for _, li := range fn.Blocks[bi].Instrs {
					if m, ok := li.(*ssa.BinOp); ok && m.Op == token.MUL && (sameValue(m.X, q.Y, 0) || sameValue(m.Y, q.Y, 0)) {
						mulBack = true
					}
				}
			}
			// the chunks are handed to goroutines (a sequential loop over n/2 butterflies of a
			// power-of-two sized vector is not a work partition)
			spawns := false
			for bi := range loop.blocks {
				for _, li := range fn.Blocks[bi].Instrs {
					if _, isGo := li.(*ssa.Go); isGo {
						spawns = true
					}
				}
			}
			if !mulBack || !spawns {
				continue
			}
			n++
			// remainder treatment anywhere in the function
			treated := false
			for _, ob := range fn.Blocks {
				for _, oi := range ob.Instrs {
					switch x := oi.(type) {
					case *ssa.BinOp:
						if x.Op == token.REM && sameValue(x.X, q.X, 0) && sameValue(x.Y, q.Y, 0) {
							treated = true
						}
						// n - q*size, or a comparison of a position with n
						if x.Op == token.SUB && sameValue(x.X, q.X, 0) {
							treated = true
						}
						if (x.Op == token.LSS || x.Op == token.GTR || x.Op == token.LEQ || x.Op == token.GEQ || x.Op == token.NEQ || x.Op == token.EQL) && x != nil {
							if (sameValue(x.X, q.X, 0) || sameValue(x.Y, q.X, 0)) && !sameValue(x.X, q, 0) && !sameValue(x.Y, q, 0) {
								// a position compared with n (clamp / tail test), not the loop test itself
								if _, isPhi := stripConv(x.X).(*ssa.Phi); !isPhi {
									if _, isPhi2 := stripConv(x.Y).(*ssa.Phi); !isPhi2 {
										treated = true
									}
								}
							}
						}
					case *ssa.Call:
						if bi, ok := x.Call.Value.(*ssa.Builtin); ok && bi.Name() == "min" {
							for _, a := range x.Call.Args {
								if sameValue(a, q.X, 0) {
									treated = true
								}
							}
						}
					case *ssa.Slice:
						// the tail s[q*size:] handled after the loop
						if x.Low != nil && x.High == nil {
							if m, ok := stripConv(x.Low).(*ssa.BinOp); ok && m.Op == token.MUL && (sameValue(m.X, q, 0) || sameValue(m.Y, q, 0)) {
								treated = true
							}
						}
					}
				}
			}
			if !treated {
				hits = append(hits, Finding{fn, q.Pos(), "floor-divided-chunk-count(" + descValue(q, 0) + ")",
					fmt.Sprintf("%s: the loop runs %s times and rebuilds positions by multiplying with the divisor, and nothing in the function looks at the remainder (no %%, no ceiling division, no clamp against the total): when the total is not a multiple of the chunk size the last partial chunk is never processed", funcKey(fn), descValue(q, 0))})
			}
		}
	}
	return n, hits
}

func sameValueOrConstMinus1(a, b ssa.Value) bool { return false }

// strideRemainderDropped: `for i := a; i+k <= n; i += k { go work(i, i+k) }` hands out full strides
// only: unless the function looks at n again (a clamp `if end > n`, a tail after the loop, n % k)
// the last n - a mod k positions are never processed.
func strideRemainderDropped(p *Program, fn *ssa.Function) (int, []Finding) {
	n := 0
	var hits []Finding
	for _, l := range loopsOf(fn) {
		if len(l.header.Instrs) == 0 {
			continue
		}
		iff, ok := l.header.Instrs[len(l.header.Instrs)-1].(*ssa.If)
		if !ok {
			continue
		}
		a := atomOf(iff.Cond)
		if a.Kind != "cmp" || (a.Op != token.LEQ && a.Op != token.LSS) {
			continue
		}
		sum, ok := stripConv(a.X).(*ssa.BinOp)
		if !ok || sum.Op != token.ADD {
			continue
		}
		var phi *ssa.Phi
		var k ssa.Value
		for _, pr := range [][2]ssa.Value{{sum.X, sum.Y}, {sum.Y, sum.X}} {
			if ph, isPhi := stripConv(pr[0]).(*ssa.Phi); isPhi && ph.Block() == l.header {
				phi, k = ph, pr[1]
			}
		}
		if phi == nil {
			continue
		}
		if _, isConst := constInt(k); isConst {
			continue // i+1 < n and the like: element loops, not strides
		}
		// the counter advances by the same k
		adv := false
		for _, e := range phi.Edges {
			if inc, ok := stripConv(e).(*ssa.BinOp); ok && inc.Op == token.ADD {
				if (stripConv(inc.X) == ssa.Value(phi) && sameValue(inc.Y, k, 0)) || (stripConv(inc.Y) == ssa.Value(phi) && sameValue(inc.X, k, 0)) {
					adv = true
				}
			}
		}
		if !adv {
			continue
		}
		spawns := false
		for bi := range l.blocks {
			for _, li := range fn.Blocks[bi].Instrs {
				if _, isGo := li.(*ssa.Go); isGo {
					spawns = true
				}
			}
		}
		if !spawns {
			continue
		}
		n++
		bound := stripConv(a.Y)
		treated := false
		for _, ob := range fn.Blocks {
			// only what happens inside the loop (a clamp) or after it (a tail) treats the remainder
			if !l.blocks[ob.Index] && !(l.header.Dominates(ob) && ob != l.header) {
				continue
			}
			for _, oi := range ob.Instrs {
				switch x := oi.(type) {
				case *ssa.BinOp:
					if x == iff.Cond {
						continue
					}
					switch x.Op {
					case token.LSS, token.GTR, token.LEQ, token.GEQ, token.NEQ, token.EQL:
						if sameValue(x.X, bound, 0) || sameValue(x.Y, bound, 0) {
							treated = true
						}
					case token.REM:
						if sameValue(x.Y, k, 0) {
							treated = true
						}
					case token.SUB:
						if sameValue(x.X, bound, 0) && !l.blocks[ob.Index] {
							treated = true
						}
					}
				case *ssa.Call:
					if bi, ok := x.Call.Value.(*ssa.Builtin); ok && bi.Name() == "min" {
						for _, arg := range x.Call.Args {
							if sameValue(arg, bound, 0) {
								treated = true
							}
						}
					}
				}
			}
		}
		if !treated {
			hits = append(hits, Finding{fn, iff.Cond.Pos(), "stride-remainder(" + descValue(bound, 0) + ")",
				fmt.Sprintf("%s: the loop hands a full stride to a goroutine while %s, and nothing else in the function looks at %s (no clamp of the end position, no tail, no remainder): the positions after the last full stride are never processed", funcKey(fn), descValue(iff.Cond, 0), descValue(bound, 0))})
		}
	}
	return n, hits
}

// ---------------------------------------------------------------------------------------------
// NARROW-BEFORE-REDUCE: `T(v) % m` with T narrower than the type of v reduces v mod 2^bits first:
// the residue is wrong for every v >= 2^bits unless m divides 2^bits. Accepted: a source already
// known to fit (a remainder, a mask, a right shift leaving at most `bits` bits, a constant, a
// narrower source widened before).
// ---------------------------------------------------------------------------------------------
func narrowBeforeReduce(p *Program, fn *ssa.Function) (int, []Finding) {
	n := 0
	var hits []Finding
	bitsOf := func(t types.Type) int {
		b, ok := t.Underlying().(*types.Basic)
		if !ok || b.Info()&types.IsInteger == 0 {
			return 0
		}
		switch b.Kind() {
		case types.Int8, types.Uint8:
			return 8
		case types.Int16, types.Uint16:
			return 16
		case types.Int32, types.Uint32:
			return 32
		}
		return 64
	}
	var fits func(v ssa.Value, bits int, d int) bool
	fits = func(v ssa.Value, bits int, d int) bool {
		if d > 6 {
			return false
		}
		if k, ok := constInt(v); ok {
			return bits >= 63 || (k >= 0 && k < int64(1)<<uint(bits))
		}
		if bw := bitsOf(v.Type()); bw != 0 && bw <= bits {
			return true
		}
		switch x := v.(type) {
		case *ssa.Convert:
			return fits(x.X, bits, d+1)
		case *ssa.BinOp:
			switch x.Op {
			case token.REM:
				if k, ok := constInt(x.Y); ok && k > 0 && (bits >= 63 || k <= int64(1)<<uint(bits)) {
					return true
				}
				return fits(x.Y, bits, d+1)
			case token.AND:
				return fits(x.X, bits, d+1) || fits(x.Y, bits, d+1)
			case token.SHR:
				if k, ok := constInt(x.Y); ok && int(k) >= bitsOf(x.X.Type())-bits {
					return true
				}
			}
		case *ssa.Phi:
			for _, e := range x.Edges {
				if !fits(e, bits, d+1) {
					return false
				}
			}
			return true
		}
		return false
	}
	for _, b := range fn.Blocks {
		for _, in := range b.Instrs {
			r, ok := in.(*ssa.BinOp)
			if !ok || r.Op != token.REM {
				continue
			}
			if bitsOf(r.Type()) == 0 {
				continue
			}
			n++ // every integer remainder is looked at
			cv, ok := r.X.(*ssa.Convert)
			if !ok {
				continue
			}
			to, from := bitsOf(cv.Type()), bitsOf(cv.X.Type())
			if to == 0 || from == 0 || to >= from {
				continue
			}
			// a power-of-two modulus dividing 2^bits commutes with the truncation
			if k, ok := constInt(r.Y); ok && k > 0 && k&(k-1) == 0 {
				continue
			}
			if fits(cv.X, to, 0) {
				continue
			}
			hits = append(hits, Finding{fn, r.Pos(), "narrowed-before-reduction(" + descValue(cv.X, 0) + ")",
				fmt.Sprintf("%s: the %d-bit value %s is converted to %d bits and reduced afterwards: for values of 2^%d and above the residue is that of the truncated value, not of the value", funcKey(fn), from, descValue(cv.X, 0), to, to)})
		}
	}
	return n, hits
}

// ---------------------------------------------------------------------------------------------
// ELEMENT-ALIAS: a function that takes a pointer a *T and a slice s []T (or is a method of a
// slice-of-T type) and writes elements of s must not read *a after such a write: a may point at
// an element of s (vector.ScalarMul(v, &v[0]); MulAccE4(&res[0], scale, res)). The library's
// idiom is a snapshot `aCopy := *a` taken before the first write; code paths of the same operation
// that differ in taking it give different results (assembly loads its scalar operand once).
// ---------------------------------------------------------------------------------------------
func elementAliasHazard(p *Program, fn *ssa.Function) (int, []Finding) {
	if len(fn.Blocks) == 0 {
		return 0, nil
	}
	elemOfSlice := func(t types.Type) types.Type {
		if pt, ok := t.Underlying().(*types.Pointer); ok {
			t = pt.Elem()
		}
		if st, ok := t.Underlying().(*types.Slice); ok {
			return st.Elem()
		}
		return nil
	}
	n := 0
	var hits []Finding
	for _, a := range fn.Params {
		pt, ok := a.Type().Underlying().(*types.Pointer)
		if !ok {
			continue
		}
		if _, isStruct := pt.Elem().Underlying().(*types.Struct); !isStruct {
			if _, isArr := pt.Elem().Underlying().(*types.Array); !isArr {
				continue
			}
		}
		for _, s := range fn.Params {
			if s == a {
				continue
			}
			et := elemOfSlice(s.Type())
			if et == nil || !types.Identical(et, pt.Elem()) {
				continue
			}
			n++
			// an unexported helper every caller of which hands it the address of a local variable
			// (foldRange(bottom, top, &r, ...) with r a by-value parameter of the caller) cannot
			// receive a pointer into the slice
			if sites, closed := callSitesInPkg(fn); closed && len(sites) > 0 {
				ai := -1
				for i, pa := range fn.Params {
					if pa == a {
						ai = i
					}
				}
				allLocal := ai >= 0
				for _, cs := range sites {
					args := cs.Common().Args
					if ai >= len(args) {
						allLocal = false
						break
					}
					switch addrBase(args[ai]).(type) {
					case *ssa.Alloc, *ssa.FreeVar:
						// a local variable, or a variable captured by a closure (captured by reference:
						// the free variable *is* the variable's address)
					default:
						allLocal = false
					}
				}
				if allLocal {
					continue
				}
			}
			// addresses of elements of s
			elem := map[ssa.Value]bool{}
			base := map[ssa.Value]bool{s: true}
			for changed := true; changed; {
				changed = false
				for _, b := range fn.Blocks {
					for _, in := range b.Instrs {
						v, isVal := in.(ssa.Value)
						if !isVal || elem[v] || base[v] {
							continue
						}
						switch x := in.(type) {
						case *ssa.UnOp:
							if x.Op == token.MUL && base[x.X] {
								if _, isSl := x.Type().Underlying().(*types.Slice); isSl {
									base[v] = true
									changed = true
								}
							}
						case *ssa.Slice:
							if base[x.X] {
								base[v] = true
								changed = true
							}
						case *ssa.ChangeType:
							if base[x.X] {
								base[v] = true
								changed = true
							}
						case *ssa.IndexAddr:
							if base[x.X] {
								elem[v] = true
								changed = true
							}
						case *ssa.FieldAddr:
							if elem[x.X] {
								elem[v] = true
								changed = true
							}
						}
					}
				}
			}
			// addresses derived from a
			fromA := map[ssa.Value]bool{a: true}
			for changed := true; changed; {
				changed = false
				for _, b := range fn.Blocks {
					for _, in := range b.Instrs {
						v, isVal := in.(ssa.Value)
						if !isVal || fromA[v] {
							continue
						}
						switch x := in.(type) {
						case *ssa.FieldAddr:
							if fromA[x.X] {
								fromA[v] = true
								changed = true
							}
						case *ssa.IndexAddr:
							if fromA[x.X] {
								fromA[v] = true
								changed = true
							}
						}
					}
				}
			}
			var writes, reads []ssa.Instruction
			for _, b := range fn.Blocks {
				for _, in := range b.Instrs {
					switch x := in.(type) {
					case *ssa.Store:
						if elem[x.Addr] {
							writes = append(writes, in)
						}
					case *ssa.UnOp:
						if x.Op == token.MUL && fromA[x.X] {
							reads = append(reads, in)
						}
					case ssa.CallInstruction:
						com := x.Common()
						w, r := false, false
						for _, arg := range com.Args {
							if elem[arg] && (com.IsInvoke() || callMayWriteArg(fn, x, arg)) {
								w = true
							}
							if fromA[arg] {
								r = true
							}
						}
						// an instruction that does both is fine by itself (the callee is judged on its
						// own; assembly is trusted to load first) but its write precedes later reads,
						// and inside a loop it precedes its own next execution
						if w {
							writes = append(writes, in)
						}
						if r {
							reads = append(reads, in)
						}
					}
				}
			}
			reported := false
			for _, w := range writes {
				for _, r := range reads {
					if reported || !instrMayPrecede(fn, w, r) {
						continue
					}
					reported = true
					hits = append(hits, Finding{fn, r.Pos(), "element-alias(" + a.Name() + "," + s.Name() + ")",
						fmt.Sprintf("%s: *%s is read (%s) after an element of %s may have been written (%s): when %s points at an element of %s the later reads see the updated value — take a copy of *%s before the first write, as the other code paths of this operation do",
							funcKey(fn), a.Name(), p.Pos(r.Pos()), s.Name(), p.Pos(w.Pos()), a.Name(), s.Name(), a.Name())})
				}
			}
		}
	}
	return n, hits
}

// callerProvidedBuffer: the slice value is a non-receiver parameter of fn or a field read out of
// a by-value struct parameter (not reached through the receiver or any pointer kept elsewhere).
func callerProvidedBuffer(fn *ssa.Function, v ssa.Value) bool {
	first := 0
	if fn.Signature.Recv() != nil {
		first = 1
	}
	isOperand := func(x ssa.Value) bool {
		for i := first; i < len(fn.Params); i++ {
			if x == ssa.Value(fn.Params[i]) {
				return true
			}
		}
		return false
	}
	for d := 0; d < 8; d++ {
		switch x := v.(type) {
		case *ssa.Parameter:
			return isOperand(x)
		case *ssa.Field:
			v = x.X
		case *ssa.Slice:
			v = x.X
		case *ssa.ChangeType:
			v = x.X
		case *ssa.UnOp:
			// load of a field of a by-value struct parameter spilled to a local cell
			fa, ok := x.X.(*ssa.FieldAddr)
			if !ok {
				return false
			}
			al, ok := fa.X.(*ssa.Alloc)
			if !ok || al.Referrers() == nil {
				return false
			}
			for _, r := range *al.Referrers() {
				if st, ok := r.(*ssa.Store); ok && st.Addr == ssa.Value(al) {
					return isOperand(st.Val)
				}
			}
			return false
		default:
			return false
		}
	}
	return false
}
