package main

import (
	"regexp"
	"strings"

	"golang.org/x/tools/go/ssa"
)

func init() {
	register("C03", checkC03)
	register("C06", checkC06)
}

// kernelRules runs the structural scalar/exponent rules (L-ABS, L-SCAN) over fns.
func kernelRules(c *Ctx, p *Program, prop string, fns []*ssa.Function, what string, floorMag, floorScan int) {
	registerScanProgram(p)
	c.Rule(prop+".sign", "L-ABS: math/big's Bytes/Bits/BitLen/Bit/FillBytes return the magnitude only; a "+what+" routine that scans them also consults the sign of that value (Sign/Cmp), scans a value computed from one whose sign was consulted (k.Neg(s), k.Set(s)), or a value non-negative by construction (Abs, Mod, SetBytes, Element.BigInt). For unexported helpers the obligation may be met by every caller (call graph)", floorMag)
	c.Rule(prop+".scan", "L-SCAN: a descending loop that reads several local operands at the loop index (k1[i], k2[i]) starts from an index whose backward data-flow slice contains every one of those operands (or from a constant top index); otherwise the top words of the operand left out are never processed; and when the operands are fixed-size limb arrays the start index is not computed from an unbounded length ((*big.Int).BitLen, len(Bits())) — it would index past the limbs for a long scalar", floorScan)
	for _, fn := range fns {
		n, hits := signDiscipline(p, fn)
		c.Instance(prop+".sign", n)
		reportFindings(c, p, prop+".sign", nil, hits, "")
		if n > 0 && len(hits) == 0 {
			c.Ob(prop+".sign", relPkg(fnPkgPath(fn)), funcKey(fn), "magnitude-reads-sign-consulted", p.Pos(fn.Pos()), true, "")
		}
		m, h2 := scanLoopBounds(p, fn)
		c.Instance(prop+".scan", m)
		reportFindings(c, p, prop+".scan", nil, h2, "")
		if m > 0 && len(h2) == 0 {
			c.Ob(prop+".scan", relPkg(fnPkgPath(fn)), funcKey(fn), "scan-start-covers-all-operands", p.Pos(fn.Pos()), true, "")
		}
	}
}

func checkC03(c *Ctx) {
	p := mustLoad(c, K1)
	eff := NewEffects(p)
	argRoleLint(c, p, "ecc/*", "ecc/*/twistededwards", "ecc/*/bandersnatch")
	pkRe := regexp.MustCompile(`^ecc(/[a-z0-9-]+(/twistededwards|/bandersnatch)?)?$`)
	var fns []*ssa.Function
	for _, fn := range libFuncs(p) {
		if pkRe.MatchString(relPkg(fnPkgPath(fn))) {
			fns = append(fns, fn)
		}
	}
	kernelRules(c, p, "C03", fns, "scalar-multiplication", 30, 15)

	c.Rule("C03.def", "DEFASSIGN: every scalar-multiplication entry point defines all coordinates of its receiver on every return and does not read the receiver's previous value", 100)
	c.Rule("C03.zero", "ZERO: in the twisted-Edwards kernels (where the zero value of the point types is not a curve point) the local that the doubling loop updates is set to the identity before the loop (setInfinity / Set(&infinity) / whole-value store); short-Weierstrass kernels need nothing: the zero value of the Jacobian types is the point at infinity", 16)
	name := regexp.MustCompile(`\)\.(ScalarMultiplication|ScalarMultiplicationBase|JointScalarMultiplication|JointScalarMultiplicationBase|mulWindowed|mulGLV|scalarMulWindowed|scalarMulGLV)$`)
	for _, fn := range fluentMethods(p, regexp.MustCompile(`^ecc/`)) {
		k := funcKey(fn)
		if !name.MatchString(k) || !pkRe.MatchString(relPkg(fnPkgPath(fn))) {
			continue
		}
		checkSetterDef(c, p, eff, "C03.def", fn)
		// accumulator initialisation: only for kernels with a loop. For short-Weierstrass points
		// the zero value of the Jacobian / extended-Jacobian types IS the point at infinity (Z = 0),
		// so nothing is required there; on twisted Edwards curves the zero value (0,0,0) is not a
		// point and the accumulator has to be set to the identity explicitly.
		if len(loopsOf(fn)) == 0 || !strings.Contains(relPkg(fnPkgPath(fn)), "/") {
			continue
		}
		if pk := relPkg(fnPkgPath(fn)); !(strings.HasSuffix(pk, "/twistededwards") || strings.HasSuffix(pk, "/bandersnatch")) {
			continue
		}
		// accumulators: locals that are the receiver of a doubling inside a loop
		inLoop := map[int]bool{}
		for _, li := range loopsOf(fn) {
			for b := range li.blocks {
				inLoop[b] = true
			}
		}
		accs := map[*ssa.Alloc]bool{}
		for _, b := range fn.Blocks {
			if !inLoop[b.Index] {
				continue
			}
			for _, in := range b.Instrs {
				if call, isCall := in.(*ssa.Call); isCall && strings.HasPrefix(calleeOf(&call.Call).Name, "Double") && len(call.Call.Args) > 0 {
					if a, isLocal := stripConv(call.Call.Args[0]).(*ssa.Alloc); isLocal {
						accs[a] = true
					}
				}
			}
		}
		if len(accs) == 0 {
			continue
		}
		c.Instance("C03.zero", 1)
		ok := true
		for a := range accs {
			init := false
			for _, r := range *a.Referrers() {
				switch x := r.(type) {
				case *ssa.Call:
					cl := calleeOf(&x.Call)
					if len(x.Call.Args) == 0 || stripConv(x.Call.Args[0]) != ssa.Value(a) || inLoop[x.Block().Index] {
						continue
					}
					if strings.ToLower(cl.Name) == "setinfinity" {
						init = true
					}
					if cl.Name == "Set" && len(x.Call.Args) == 2 {
						if g, isG := x.Call.Args[1].(*ssa.Global); isG && strings.Contains(strings.ToLower(g.Name()), "infinity") {
							init = true
						}
					}
				case *ssa.Store:
					// res = <identity value> (whole-struct store before the loop)
					if x.Addr == ssa.Value(a) && !inLoop[x.Block().Index] {
						if ld, isLd := x.Val.(*ssa.UnOp); isLd {
							if g, isG := ld.X.(*ssa.Global); isG && (strings.Contains(strings.ToLower(g.Name()), "infinity") || strings.Contains(strings.ToLower(g.Name()), "identity")) {
								init = true
							}
						}
					}
				}
			}
			if !init {
				ok = false
			}
		}
		c.Ob("C03.zero", relPkg(fnPkgPath(fn)), k, "accumulator-starts-at-identity", p.Pos(fn.Pos()), ok, k+": the local that the doubling loop updates is not set to the identity (setInfinity / Set(&infinity) / whole-value store) before the loop; its zero value (0,0,0) is not a point of a twisted Edwards curve")
	}
	for t := range eff.Trusted {
		c.Trust(t)
	}
	c.Assume("lattice decomposition (SplitScalar), digit recoding and the table layout are value-level: agreement of [s]P with repeated addition is not decided; BatchScalarMultiplication's digit partition is covered by C04.bounds")
}

// in-place tower operations: they read their receiver by design
var c06InPlace = regexp.MustCompile(`\)\.(MulBy\d+|MulAssign|MulByNonResidue\w*)$`)

// tower operations that by their documentation define only part of the receiver
var c06Partial = map[string]string{
	"CyclotomicSquareCompressed": "Karabina's compressed squaring: only the four compressed coordinates are defined (documented); the others are recovered by DecompressKarabina",
	"SetString":                  "decoder with an error return: C08 domain",
	"Clone":                      "returns a fresh element, the receiver is the source",
}

func checkC06(c *Ctx) {
	p := mustLoad(c, K1)
	eff := NewEffects(p)
	pkRe := regexp.MustCompile(`^(ecc/[a-z0-9-]+/internal/fptower|field/[a-z]+/extensions)$`)
	var fns []*ssa.Function
	for _, fn := range libFuncs(p) {
		if pkRe.MatchString(relPkg(fnPkgPath(fn))) {
			fns = append(fns, fn)
		}
	}
	kernelRules(c, p, "C06", fns, "exponentiation", 20, 4)

	c.Rule("C06.def", "DEFASSIGN: every extension-field operation that returns its receiver defines the whole receiver on every return (exceptions: the documented partial operations listed in the checker) and, unless it is an in-place operation (MulBy*, MulAssign), never reads the receiver's previous value", 500)
	for _, fn := range fluentMethods(p, regexp.MustCompile(`^(ecc/[a-z0-9-]+/internal/fptower|field/[a-z]+/extensions)\.\(\*E\d+D?\)\.`)) {
		k := funcKey(fn)
		if _, ok := c06Partial[fn.Name()]; ok {
			continue
		}
		if fn.Object() != nil && !fn.Object().Exported() && fn.Name() != "mulTower" && fn.Name() != "mulMontgomery6" {
			// a helper carved out of an operation: no documented contract of its own (see C02.def)
			c.Note(k + ": unexported helper without a documented contract, judged through its callers")
			continue
		}
		c.Instance("C06.def", 1)
		full, exposed := setterVerdict(eff, fn)
		pk := relPkg(fnPkgPath(fn))
		msg := ""
		if !full {
			msg = k + ": on some return the receiver is not completely written (definitely written: " + strings.Join(sortedLocs(eff.Must(fn).MustAcc), " ") + ")"
		}
		c.Ob("C06.def", pk, k, "receiver-fully-defined", p.Pos(fn.Pos()), full, msg)
		if !c06InPlace.MatchString(k) {
			msg = ""
			if len(exposed) > 0 {
				if len(exposed) > 6 {
					exposed = append(exposed[:6], "…")
				}
				msg = k + ": reads its receiver (" + strings.Join(exposed, " ") + ") before writing it although it is not an in-place operation"
			}
			c.Ob("C06.def", pk, k, "destination-not-read-before-written", p.Pos(fn.Pos()), len(exposed) == 0, msg)
		}
	}

	c.Rule("C06.special", "SPECIAL-CASES: Exp/CyclotomicExp/ExpGLV invert / conjugate the base exactly under a negative-exponent test (the inversion of the by-value base is reachable only on the Sign(k) == -1 edge)", 15)
	for _, pk := range p.FamilyPkgs("ecc/*/internal/fptower") {
		for _, recv := range []string{"E6", "E12", "E24"} {
			for _, name := range []string{"Exp", "CyclotomicExp", "ExpGLV"} {
				fn := p.Func(pk, recv, name)
				if fn == nil {
					continue
				}
				var inv []ssa.Instruction
				for _, b := range fn.Blocks {
					for _, in := range b.Instrs {
						if call, ok := in.(*ssa.Call); ok {
							n := calleeOf(&call.Call).Name
							if (n == "Inverse" || n == "Conjugate") && call.Block() != nil {
								// only the base inversion (receiver is the spilled by-value parameter x)
								if len(call.Call.Args) == 2 && stripConv(call.Call.Args[0]) == stripConv(call.Call.Args[1]) {
									inv = append(inv, in)
								}
							}
						}
					}
				}
				RequireFactsAtInstr(c, p, "C06.special", fn, inv, "base-inverted", []Req{{"negative-exponent", `Int\.Sign\(p1\)`}})
				okE, msgE := scannedExponentIsParameter(fn)
				c.Ob("C06.special", relPkg(fnPkgPath(fn)), funcKey(fn), "scanned-exponent-is-the-parameter", p.Pos(fn.Pos()), okE, funcKey(fn)+": "+msgE)
			}
		}
	}
	c.Rule("C06.member", "GUARD: the target-group membership test IsInSubGroup of every tower returns true only on a path where the element was tested to be non-zero (all its Frobenius / product equalities hold trivially for 0)", 7)
	for _, pk := range p.FamilyPkgs("ecc/*/internal/fptower") {
		for _, recv := range []string{"E6", "E12", "E24"} {
			if fn := p.Func(pk, recv, "IsInSubGroup"); fn != nil {
				RequireFacts(c, p, "C06.member", fn, AcceptTrueBool, nil, []Req{{"non-zero", `^not E\d+\.IsZero\(pr\)$`}})
			}
		}
	}
	c.Rule("C06.subalias", "SUB-OBJECT ALIASING: an operand whose type is the type of a coordinate of the receiver (z.MulByElement(x, y *Element), z.MulBy01(c0, c1 *E2)) may point into the receiver; the operation never reads such an operand after it has written a receiver coordinate of that type (it reads first or works on a copy) — found and fixed: small-field MulByElement, sparse products MulBy01/MulBy014", 60)
	{
		n := 0
		var hits []Finding
		for _, fn := range fns {
			if fn.Parent() != nil || fn.Object() == nil || !fn.Object().Exported() {
				continue
			}
			k, h := subObjectHazards(p, eff, fn)
			n += k
			hits = append(hits, h...)
		}
		c.Instance("C06.subalias", n)
		reportFindings(c, p, "C06.subalias", nil, hits, "")
		c.Ob("C06.subalias", "-", "-", "component-typed-operands-analysed", "-", n >= 60, "fewer component-typed operands found than confirmed on the reference tree")
	}
	c.Rule("C06.zerouse", "L-ZEROUSE (belief contradiction): on the branch where P.IsZero() returned true, P is never an operand of Mul/Square/Inverse/Div: a product with a quantity known to vanish means the test looks at another coordinate than the arithmetic (this is how the g3/g5 confusion of E12.DecompressKarabina shows in the code)", 60)
	c.Rule("C06.divisor", "GUARDED-DIVISOR: in (Batch)DecompressKarabina the coordinate whose vanishing selects the fallback formula is an operand of the divisor computed on the other branch (the test guards the quantity that is actually divided by)", 8)
	for _, fn := range fns {
		n, hits := zeroKnownOperands(p, fn)
		c.Instance("C06.zerouse", n)
		reportFindings(c, p, "C06.zerouse", nil, hits, "")
		if n > 0 && len(hits) == 0 {
			c.Ob("C06.zerouse", relPkg(fnPkgPath(fn)), funcKey(fn), "no-zero-known-operand", p.Pos(fn.Pos()), true, "")
		}
		if fn.Name() == "DecompressKarabina" || fn.Name() == "BatchDecompressKarabina" {
			c.Instance("C06.divisor", 1)
			ok, msg := guardedDivisor(fn)
			c.Ob("C06.divisor", relPkg(fnPkgPath(fn)), funcKey(fn), "tested-coordinate-feeds-divisor", p.Pos(fn.Pos()), ok, funcKey(fn)+": "+msg)
		}
	}
	for t := range eff.Trusted {
		c.Trust(t)
	}
	c.Assume("that Karatsuba/Chung-Hasan products, sparse products, cyclotomic squarings, Frobenius tables and the assembly kernels compute the ring operations of the documented quotient rings is value-level and not decided; C06 decides exponent handling, definite assignment, special-case guards and agreement between the generated instances (C06.sibling)")
}

// guardedDivisor: see rule C06.divisor.
func guardedDivisor(fn *ssa.Function) (bool, string) {
	// divisor cell
	key := ""
	for _, b := range fn.Blocks {
		for _, in := range b.Instrs {
			call, ok := in.(*ssa.Call)
			if !ok {
				continue
			}
			cl := calleeOf(&call.Call)
			if cl.Name == "Div" && len(call.Call.Args) == 3 {
				key = descValue(call.Call.Args[2], 0)
			}
			if strings.HasPrefix(cl.Name, "BatchInvert") && len(call.Call.Args) == 1 {
				key = descValue(call.Call.Args[0], 0) + "[*]"
			}
		}
	}
	if key == "" {
		return true, "" // the division was moved elsewhere: no contradiction visible in this function
	}
	// first test of a parameter coordinate
	for _, b := range fn.Blocks {
		if len(b.Instrs) == 0 {
			continue
		}
		iff, ok := b.Instrs[len(b.Instrs)-1].(*ssa.If)
		if !ok {
			continue
		}
		call, ok := iff.Cond.(*ssa.Call)
		if !ok || calleeOf(&call.Call).Name != "IsZero" {
			continue
		}
		tested := descValue(call.Call.Args[0], 0)
		if !strings.HasPrefix(tested, "p0") {
			continue
		}
		els := b.Succs[1]
		found := false
		var ops []string
		for _, d := range fn.Blocks {
			if !(d == els || els.Dominates(d)) || d == b {
				continue
			}
			// stay inside the branch: blocks dominated by the else successor that do not post-dominate the join
			if len(els.Preds) != 1 {
				continue
			}
			for _, in := range d.Instrs {
				c2, ok := in.(*ssa.Call)
				if !ok || len(c2.Call.Args) < 2 || descValue(c2.Call.Args[0], 0) != key {
					continue
				}
				for _, a := range c2.Call.Args[1:] {
					da := descValue(a, 0)
					ops = append(ops, da)
					if da == tested {
						found = true
					}
				}
			}
		}
		if found {
			return true, ""
		}
		return false, "the fallback branch is selected by " + tested + ".IsZero() but the divisor " + key + " computed on the other branch is built from [" + strings.Join(ops, " ") + "]: the test does not guard the quantity divided by"
	}
	// the test sits in a helper (or the function was restructured): the rule is a contradiction rule,
	// it reports a test and a divisor that disagree, not their absence
	return true, ""
}
