package main

import (
	"fmt"
	"go/ast"
	"go/constant"
	"go/types"
	"strings"

	"golang.org/x/tools/go/ssa"
)

func init() { register("C14", checkC14) }

func checkC14(c *Ctx) {
	p := mustLoad(c, K1)
	indexLints(c, p, "ecc/*/fr/mimc", "ecc/*/fr/poseidon2", "field/*/poseidon2", "ecc/*/fr/sis", "field/*/sis", "hash")
	eff := NewEffects(p)
	aliasDyn = eff.dynCallees
	mimcPkgs := p.FamilyPkgs("ecc/*/fr/mimc")
	pos2 := p.FamilyPkgs("ecc/*/fr/poseidon2", "field/*/poseidon2")
	sisPkgs := p.FamilyPkgs("ecc/*/fr/sis", "field/*/sis")

	c.Rule("C14.bounds", "BOUNDS (L12): every slice / index / array conversion applied to the caller's byte slice in Write, WriteString, SetState, Compress and SIS Hash is justified by dominating comparisons with its length (no panic, no read of spare capacity outside the given slice)", 30)
	c.Rule("C14.guard", "GUARD: MiMC Write returns a nil error only after the length is a multiple of the block size and every block was parsed by the canonical ByteOrder.Element with its error tested; SetState only with the exact length and a canonical value; Poseidon2 Compress only with both halves of the required length and canonical elements; SIS Hash only with len(res) == Degree and len(v) within the capacity", 8*2+11)
	c.Rule("C14.state", "STATE: SetState redefines every field of the hasher that Reset redefines (restoring a state discards buffered, not yet absorbed input), and both write the chaining value", 8)
	c.Rule("C14.alias", "ALIAS (L10): MiMC Sum/State return freshly allocated slices, Write/SetState do not retain the caller's slice; Poseidon2 Compress writes neither of its input slices and returns a slice that shares storage with none of them; the Merkle-Damgard wrapper of package hash returns fresh slices from Sum/State and keeps neither the IV nor a restored state of the caller", 8)
	c.Rule("C14.lazy", "LAZY-INIT (L17): the MiMC round constants, initialised under sync.Once, are read only after a dominating once.Do in the reader or in every caller", 8)
	c.Rule("C14.registry", "REGISTRY (L15): every constant of hash.Hash below maxHash is registered exactly once (RegisterHash call with that constant), in the package named after it; the digestSize table has an entry for every constant and the entry equals the digest size of the registered hasher (BlockSize constant of the MiMC package / Width/2*Bytes of the default Poseidon2 parameters); String() covers every constant; hash/all imports every registering package", 19)

	for _, pk := range mimcPkgs {
		for _, name := range []string{"Write", "SetState", "WriteString"} {
			if fn := p.Func(pk, "digest", name); fn != nil {
				sites, hits := unguardedAccesses(p, fn)
				c.Instance("C14.bounds", 1)
				_ = sites
				reportFindings(c, p, "C14.bounds", []*ssa.Function{fn}, hits, "accesses-guarded")
			}
		}
		if w := p.Func(pk, "digest", "Write"); w != nil {
			RequireFacts(c, p, "C14.guard", w, AcceptNilErr, nil, []Req{
				{"Canonical(block)", `^noerr ByteOrder\.Element\(`},
				{"LenMultipleOfBlock", `^0 == \(len\(.*\)%\d+\)$|^\(len\(.*\)%\d+\) == 0$|^len\(.*\) == phi|^phi.* == len\(|^\(\(len\(.*\)/\d+\)\*\d+\) == len\(|^len\(.*\) == \(\(len\(.*\)/\d+\)\*\d+\)$`},
			})
		} else {
			c.Undecided("anchor %s digest.Write not found", pk)
		}
		ss, rs := p.Func(pk, "digest", "SetState"), p.Func(pk, "digest", "Reset")
		if ss != nil && rs != nil {
			RequireFacts(c, p, "C14.guard", ss, AcceptNilErr, nil, []Req{
				{"LenEq", `^\d+ == len\(p0\)$`},
				{"Canonical(state)", `^noerr Element\.SetBytesCanonical\(pr\.h,p0\)$`},
			})
			c.Instance("C14.state", 1)
			mr, msr := eff.Must(rs), eff.Must(ss)
			ok := true
			var missing []string
			for l := range mr.MustAll {
				if l.Root != 0 {
					continue
				}
				// compare at field level
				el := splitPath(l.Path)
				if len(el) == 0 {
					continue
				}
				f := Loc{0, el[0]}
				if !covered(ss, msr.MustAcc, f, 0) {
					ok = false
					missing = append(missing, el[0])
				}
			}
			if len(mr.MustAll) == 0 {
				ok = false
				missing = append(missing, "(Reset writes nothing?)")
			}
			c.Ob("C14.state", pk, funcKey(ss), "SetState-covers-Reset", p.Pos(ss.Pos()), ok,
				fmt.Sprintf("%s: SetState leaves field(s) %v untouched although Reset redefines them: input written before SetState is still absorbed afterwards", funcKey(ss), uniq(missing)))
		} else {
			c.Undecided("anchor %s digest.SetState/Reset not found", pk)
		}
		// aliasing
		c.Instance("C14.alias", 1)
		for _, name := range []string{"Sum", "State"} {
			if fn := p.Func(pk, "digest", name); fn != nil {
				checkReturnedSlicesFresh(c, p, "C14.alias", fn)
			}
		}
		for _, name := range []string{"Write", "SetState"} {
			if fn := p.Func(pk, "digest", name); fn != nil {
				checkNoRetainedParamSlices(c, p, "C14.alias", fn)
			}
		}
	}
	// ---- a refused Write leaves the hasher unchanged, and reports at most len(p)
	c.Rule("C14.atomic", "ATOMIC (L11): in Write of the MiMC digests and of the Merkle-Damgard wrapper no store to the receiver's state (buffered elements, chaining value) can be followed by a return with a non-nil error: the digest is a function of the accepted input only; and the returned count is the length of the caller's slice taken before any padding (io.Writer: 0 <= n <= len(p))", 9)
	{
		var ws []*ssa.Function
		for _, pk := range mimcPkgs {
			if fn := p.Func(pk, "digest", "Write"); fn != nil {
				ws = append(ws, fn)
			}
		}
		if fn := p.Func("hash", "merkleDamgardHasher", "Write"); fn != nil {
			ws = append(ws, fn)
		}
		for _, fn := range ws {
			c.Instance("C14.atomic", 1)
			recv := fn.Params[0]
			idx := resultIndex(fn, AcceptNilErr)
			var writes []ssa.Instruction
			for _, b := range fn.Blocks {
				for _, in := range b.Instrs {
					if st, ok := in.(*ssa.Store); ok && addrDerivedFrom(st.Addr, recv, "...") {
						writes = append(writes, in)
					}
				}
			}
			ok := true
			msg, pos := "", p.Pos(fn.Pos())
			for _, b := range fn.Blocks {
				ret, isRet := b.Instrs[len(b.Instrs)-1].(*ssa.Return)
				if !isRet || b.Comment == "recover" || mayBeNilErr(retValue(ret, idx), b, 0) {
					continue
				}
				for _, w := range writes {
					if instrMayPrecede(fn, w, ret) {
						ok = false
						pos = p.Pos(instrPos(w))
						msg = funcKey(fn) + ": the hasher's state is written at " + pos + " on a path that ends in the error return at " + p.Pos(instrPos(ret)) + ": a rejected write changes later digests"
					}
				}
			}
			c.Ob("C14.atomic", relPkg(fnPkgPath(fn)), funcKey(fn), "state-unchanged-on-error", pos, ok, msg)
			// count: on accepting returns result #0 is len(p0) evaluated on the parameter itself
			okN := true
			for _, b := range fn.Blocks {
				ret, isRet := b.Instrs[len(b.Instrs)-1].(*ssa.Return)
				if !isRet || !mayBeNilErr(retValue(ret, idx), b, 0) {
					continue
				}
				if !countWithinInput(ret.Results[0], fn.Params[1], 0) {
					okN = false
					pos = p.Pos(instrPos(ret))
				}
			}
			c.Ob("C14.atomic", relPkg(fnPkgPath(fn)), funcKey(fn), "count-at-most-len(p)", pos, okN, funcKey(fn)+": the count returned at "+pos+" is not derived from the length of the caller's slice alone (a padded or block-rounded length exceeds len(p): io.Copy panics with 'invalid Write count')")
		}
	}
	// the generic Merkle-Damgard wrapper of package hash (used by every Poseidon2 hasher)
	c.Instance("C14.alias", 1)
	for _, name := range []string{"Sum", "State"} {
		if fn := p.Func("hash", "merkleDamgardHasher", name); fn != nil {
			checkReturnedSlicesFresh(c, p, "C14.alias", fn)
		} else {
			c.Undecided("anchor hash.merkleDamgardHasher.%s not found", name)
		}
	}
	for _, name := range []string{"SetState", "Write"} {
		if fn := p.Func("hash", "merkleDamgardHasher", name); fn != nil {
			checkNoRetainedParamSlices(c, p, "C14.alias", fn)
		}
	}
	if fn := p.Func("hash", "", "NewMerkleDamgardHasher"); fn != nil {
		checkNoRetainedParamSlices(c, p, "C14.alias", fn)
	}
	for _, pk := range pos2 {
		if fn := p.Func(pk, "Permutation", "Compress"); fn != nil {
			sites, hits := unguardedAccesses(p, fn)
			_ = sites
			c.Instance("C14.bounds", 1)
			reportFindings(c, p, "C14.bounds", []*ssa.Function{fn}, hits, "accesses-guarded")
			if strings.HasPrefix(pk, "field/") {
				RequireFacts(c, p, "C14.guard", fn, AcceptNilErr, nil, []Req{
					{"LenEq(left)", `len\(p0\) == |== len\(p0\)`},
					{"LenEq(right)", `len\(p1\) == |== len\(p1\)`},
					{"Canonical(elements)", `^noerr Element\.SetBytesCanonical\(`},
					{"permutation-ok", `^noerr Permutation\.Permutation\(`},
				})
			} else {
				// width-2 specialisation: SetBytesCanonical enforces the exact length of each half
				RequireFacts(c, p, "C14.guard", fn, AcceptNilErr, nil, []Req{
					{"Width==2", `^2 == pr\.params\.Width$`},
					{"Canonical(left)", `^noerr Element\.SetBytesCanonical\(.*,p0\)$`},
					{"Canonical(right)", `^noerr Element\.SetBytesCanonical\(.*,p1\)$`},
					{"permutation-ok", `^noerr Permutation\.Permutation\(`},
				})
			}
			// the compression function is pure on its inputs: the chaining value handed in by the
			// Merkle-Damgard wrapper (which may still alias the IV or a saved state) is not written,
			// and the result does not share storage with an input
			c.Instance("C14.alias", 1)
			{
				s := eff.Summary(fn)
				okW := true
				msg := ""
				for i := 1; i < len(fn.Params); i++ {
					if w := s.WritesRoot(i); len(w) > 0 {
						okW = false
						msg = funcKey(fn) + ": writes its input " + fn.Params[i].Name() + " (" + joinStr(w) + "): the Merkle-Damgard wrapper passes its chaining value, which may alias the IV or a state returned to the caller"
					}
				}
				c.Ob("C14.alias", pk, funcKey(fn), "inputs-unmodified", p.Pos(fn.Pos()), okW, msg)
				checkReturnedSlicesFresh(c, p, "C14.alias", fn)
			}
			// Compressor contract: BlockSize() is the length Compress requires for each half
			if bs := p.Func(pk, "Permutation", "BlockSize"); bs != nil {
				c.Instance("C14.guard", 1)
				want := ""
				for _, b := range bs.Blocks {
					if ret, ok := b.Instrs[len(b.Instrs)-1].(*ssa.Return); ok && len(ret.Results) == 1 {
						want = descValue(ret.Results[0], 0)
					}
				}
				ok := false
				acc, _ := acceptReturns(fn, AcceptNilErr)
				if strings.HasPrefix(pk, "field/") {
					sig := guardSignature(fn, AcceptNilErr)
					for f := range sig.Facts {
						if f == want+" == len(p0)" || f == "len(p0) == "+want {
							ok = true
						}
					}
				} else if exp, okE := expectedDigestSize(p, pk, "poseidon2"); okE && len(acc) > 0 {
					ok = want == fmt.Sprint(exp)
				}
				c.Ob("C14.guard", pk, funcKey(bs), "BlockSize-equals-length-required-by-Compress", p.Pos(bs.Pos()), ok,
					fmt.Sprintf("%s returns %s, which is not the length Compress requires for each half: every Write of the Merkle-Damgard hasher built on this permutation then fails or mis-frames its input", funcKey(bs), want))
			}
		} else {
			c.Undecided("anchor %s Permutation.Compress not found", pk)
		}
	}
	for _, pk := range sisPkgs {
		if fn := p.Func(pk, "RSis", "Hash"); fn != nil {
			RequireFacts(c, p, "C14.guard", fn, AcceptNilErr, nil, []Req{
				{"LenEq(res,Degree)", `^len\(p1\) == pr\.Degree$|^pr\.Degree == len\(p1\)$`},
				{"LenLE(v,capacity)", `^len\(p0\) <= pr\.(maxNbElementsToHash|capacity)`},
			})
		}
	}
	// lazy init
	{
		var fns []*ssa.Function
		for _, pk := range mimcPkgs {
			fns = append(fns, libFuncs(p, pk)...)
		}
		inits, sites, hits := lazyInitViolations(p, eff, fns)
		c.Instance("C14.lazy", len(inits))
		_ = sites
		reportFindings(c, p, "C14.lazy", nil, hits, "")
		c.Ob("C14.lazy", "-", "-", "once-initialised-globals-found", "-", len(inits) >= len(mimcPkgs), "the lazily initialised MiMC constants were not recognised (rule would be vacuous)")
	}
	checkHashRegistry(c, p)
	for t := range eff.Trusted {
		c.Trust(t)
	}
}

func uniq(xs []string) []string {
	m := map[string]bool{}
	var out []string
	for _, x := range xs {
		if !m[x] {
			m[x] = true
			out = append(out, x)
		}
	}
	return out
}

// checkHashRegistry: L15 on package hash.
func checkHashRegistry(c *Ctx, p *Program) {
	hp := p.ByPath[modPath+"/hash"]
	if hp == nil {
		c.Undecided("package hash not loaded")
		return
	}
	scope := hp.Types.Scope()
	hashT, _ := scope.Lookup("Hash").(*types.TypeName)
	maxC, _ := scope.Lookup("maxHash").(*types.Const)
	if hashT == nil || maxC == nil {
		c.Undecided("hash.Hash / maxHash not found")
		return
	}
	max, _ := constant.Int64Val(maxC.Val())
	names := map[int64]string{}
	for _, n := range scope.Names() {
		if k, ok := scope.Lookup(n).(*types.Const); ok && k.Type() == hashT.Type() && k.Name() != "maxHash" {
			v, _ := constant.Int64Val(k.Val())
			names[v] = k.Name()
		}
	}
	c.Instance("C14.registry", len(names))
	// registrations
	type reg struct {
		pkg string
		pos string
	}
	regs := map[int64][]reg{}
	for _, fn := range p.RepoFuncs() {
		for _, b := range fn.Blocks {
			for _, in := range b.Instrs {
				call, ok := in.(*ssa.Call)
				if !ok {
					continue
				}
				cl := calleeOf(&call.Call)
				if cl.Name != "RegisterHash" || cl.Pkg != modPath+"/hash" {
					continue
				}
				if k, ok := constInt(call.Call.Args[0]); ok {
					regs[k] = append(regs[k], reg{relPkg(fnPkgPath(fn)), p.Pos(instrPos(in))})
				}
			}
		}
	}
	// digestSize literal and String() switch, from the AST
	sizes := map[string]int64{}
	stringCases := map[string]bool{}
	for _, f := range hp.Syntax {
		ast.Inspect(f, func(n ast.Node) bool {
			switch x := n.(type) {
			case *ast.ValueSpec:
				// the table of digest sizes: a package-level literal keyed by the Hash constants whose
				// entries are integer constants, or records with one integer constant (the size next to
				// the constructor) — found by what it is, whatever its name
				if len(x.Names) == 1 && len(x.Values) == 1 {
					if cl, ok := x.Values[0].(*ast.CompositeLit); ok {
						for _, e := range cl.Elts {
							kv, ok := e.(*ast.KeyValueExpr)
							if !ok {
								continue
							}
							id, ok := kv.Key.(*ast.Ident)
							if !ok {
								continue
							}
							if k, isConst := hp.TypesInfo.Uses[id].(*types.Const); !isConst || !strings.HasSuffix(k.Type().String(), "hash.Hash") {
								continue
							}
							if tv, ok := hp.TypesInfo.Types[kv.Value]; ok && tv.Value != nil && tv.Value.Kind() == constant.Int {
								v, _ := constant.Int64Val(tv.Value)
								sizes[id.Name] = v
							} else if rec, ok := kv.Value.(*ast.CompositeLit); ok {
								n := 0
								var sz int64
								for _, re := range rec.Elts {
									val := re
									if rkv, ok := re.(*ast.KeyValueExpr); ok {
										val = rkv.Value
									}
									if tv, ok := hp.TypesInfo.Types[val]; ok && tv.Value != nil && tv.Value.Kind() == constant.Int {
										sz, _ = constant.Int64Val(tv.Value)
										n++
									}
								}
								if n == 1 {
									sizes[id.Name] = sz
								}
							}
						}
					}
				}
			case *ast.FuncDecl:
				if x.Name.Name == "String" && x.Recv != nil {
					ast.Inspect(x, func(m ast.Node) bool {
						if cc, ok := m.(*ast.CaseClause); ok {
							for _, e := range cc.List {
								if id, ok := e.(*ast.Ident); ok {
									stringCases[id.Name] = true
								}
							}
						}
						return true
					})
				}
			}
			return true
		})
	}
	// imports of hash/all
	allImports := map[string]bool{}
	if ap := p.ByPath[modPath+"/hash/all"]; ap != nil {
		for path := range ap.Imports {
			allImports[relPkg(path)] = true
		}
	}
	for v := int64(0); v < max; v++ {
		name, ok := names[v]
		if !ok {
			c.Ob("C14.registry", "hash", "hash.Hash", fmt.Sprintf("const#%d-named", v), "-", false, "a value below maxHash has no named constant")
			continue
		}
		rs := regs[v]
		okReg := len(rs) == 1
		msg := ""
		pos := "-"
		if len(rs) > 0 {
			pos = rs[0].pos
		}
		if !okReg {
			msg = fmt.Sprintf("hash.%s is registered %d times (expected exactly once)", name, len(rs))
		}
		c.Ob("C14.registry", "hash", "hash.Hash", "registered-once("+name+")", pos, okReg, msg)
		if len(rs) != 1 {
			continue
		}
		// package named after the constant
		want := strings.ToLower(name)
		want = strings.TrimPrefix(strings.TrimPrefix(want, "mimc_"), "poseidon2_")
		want = strings.ReplaceAll(want, "_", "-")
		kind := "mimc"
		if strings.HasPrefix(name, "POSEIDON2_") {
			kind = "poseidon2"
		}
		okPkg := strings.Contains(rs[0].pkg, "/"+want+"/") && strings.HasSuffix(rs[0].pkg, "/"+kind) || strings.HasPrefix(rs[0].pkg, "field/"+want+"/") && strings.HasSuffix(rs[0].pkg, "/"+kind)
		c.Ob("C14.registry", "hash", "hash.Hash", "registered-in-matching-package("+name+")", rs[0].pos, okPkg, fmt.Sprintf("hash.%s is registered by package %s, which is not the %s package of %s", name, rs[0].pkg, kind, want))
		// size table
		sz, has := sizes[name]
		exp, okExp := expectedDigestSize(p, rs[0].pkg, kind)
		c.Ob("C14.registry", "hash", "hash.Hash", "digestSize-entry("+name+")", "-", has, "digestSize has no entry for hash."+name)
		if has && okExp {
			c.Ob("C14.registry", "hash", "hash.Hash", "digestSize-matches-hasher("+name+")", "-", sz == exp, fmt.Sprintf("digestSize[%s] = %d but the hasher registered by %s produces %d-byte digests", name, sz, rs[0].pkg, exp))
		} else if has && !okExp {
			c.Undecided("C14.registry: digest size of the hasher registered by %s could not be derived from its constants", rs[0].pkg)
		}
		c.Ob("C14.registry", "hash", "hash.Hash", "String-covers("+name+")", "-", stringCases[name], "Hash.String() has no case for "+name)
		c.Ob("C14.registry", "hash/all", "hash/all", "imports("+rs[0].pkg+")", "-", allImports[rs[0].pkg], fmt.Sprintf("hash/all does not import %s: hash.%s.New() panics for users of hash/all", rs[0].pkg, name))
	}
}

// expectedDigestSize: digest size of the hasher a package registers, from its constants:
// MiMC: const BlockSize; Poseidon2 (Merkle-Damgard over the default permutation): Width/2 *
// Bytes where Width is the first constant argument of NewParameters in GetDefaultParameters.
func expectedDigestSize(p *Program, pkgRel, kind string) (int64, bool) {
	pk := p.ByPath[modPath+"/"+pkgRel]
	if pk == nil {
		return 0, false
	}
	if kind == "mimc" {
		if k, ok := pk.Types.Scope().Lookup("BlockSize").(*types.Const); ok {
			v, ok := constant.Int64Val(k.Val())
			return v, ok
		}
		return 0, false
	}
	// poseidon2: find the field package's Bytes and the default width
	var bytes int64 = -1
	for path, imp := range pk.Imports {
		if strings.HasSuffix(path, "/fr") || strings.HasPrefix(relPkg(path), "field/") && strings.Count(relPkg(path), "/") == 1 {
			if k, ok := imp.Types.Scope().Lookup("Bytes").(*types.Const); ok {
				bytes, _ = constant.Int64Val(k.Val())
			}
		}
	}
	sp := p.SSA[modPath+"/"+pkgRel]
	if sp == nil || bytes < 0 {
		return 0, false
	}
	var width int64 = -1
	for _, fn := range p.RepoFuncs() {
		if fnPkgPath(fn) != modPath+"/"+pkgRel {
			continue
		}
		root := fn
		for root.Parent() != nil {
			root = root.Parent()
		}
		if !strings.HasPrefix(root.Name(), "init") && !strings.Contains(fn.Name(), "GetDefaultParameters") {
			continue
		}
		for _, b := range fn.Blocks {
			for _, in := range b.Instrs {
				if call, ok := in.(*ssa.Call); ok && calleeOf(&call.Call).Name == "NewParameters" && len(call.Call.Args) >= 1 {
					if k, ok := constInt(call.Call.Args[0]); ok && width < 0 {
						width = k
					}
				}
			}
		}
	}
	if width < 0 {
		return 0, false
	}
	return width / 2 * bytes, true
}

// countWithinInput: v is len(par) of the parameter itself (not of a re-assigned / padded slice),
// a constant 0, or a phi / sum bounded by those.
func countWithinInput(v ssa.Value, par *ssa.Parameter, d int) bool {
	if d > 6 {
		return false
	}
	v = stripConv(v)
	switch x := v.(type) {
	case *ssa.Const:
		k, ok := constInt(x)
		return ok && k == 0
	case *ssa.Call:
		if bi, ok := x.Call.Value.(*ssa.Builtin); ok && bi.Name() == "len" && len(x.Call.Args) == 1 {
			return stripConv(x.Call.Args[0]) == ssa.Value(par)
		}
	case *ssa.Phi:
		for _, e := range x.Edges {
			if !countWithinInput(e, par, d+1) {
				return false
			}
		}
		return len(x.Edges) > 0
	case *ssa.UnOp:
		// a local holding the count
		if a, ok := x.X.(*ssa.Alloc); ok && a.Referrers() != nil {
			okAll, n := true, 0
			for _, r := range *a.Referrers() {
				if st, ok := r.(*ssa.Store); ok && st.Addr == ssa.Value(a) {
					n++
					if !countWithinInput(st.Val, par, d+1) {
						okAll = false
					}
				}
			}
			return okAll && n > 0
		}
	}
	return false
}
