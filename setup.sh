#!/bin/bash
# builds the checker from files on disk only (offline)
export GOFLAGS=-mod=mod GOPROXY=off GOSUMDB=off GOTOOLCHAIN=local GOWORK=off
cd "$(dirname "$0")/checker" || exit 2
mkdir -p ../bin ../evidence
go build -o ../bin/gcverif . 
