import random, sys
p = 21888242871839275222246405745257275088696311157297823662689037894645226208583
q = p*p
class F2:
    __slots__=('a','b')
    def __init__(s,a=0,b=0): s.a=a%p; s.b=b%p
    def __add__(s,o): return F2(s.a+o.a,s.b+o.b)
    def __sub__(s,o): return F2(s.a-o.a,s.b-o.b)
    def __neg__(s): return F2(-s.a,-s.b)
    def __mul__(s,o): return F2(s.a*o.a-s.b*o.b, s.a*o.b+s.b*o.a)
    def inv(s):
        n=pow(s.a*s.a+s.b*s.b,-1,p); return F2(s.a*n,-s.b*n)
    def iszero(s): return s.a==0 and s.b==0
    def __eq__(s,o): return s.a==o.a and s.b==o.b
    def pow(s,e):
        r=F2(1,0); b=s
        while e:
            if e&1: r=r*b
            b=b*b; e>>=1
        return r
    def __repr__(s): return "(%d,%d)"%(s.a,s.b)
ZERO=F2(0,0); ONE=F2(1,0)
XI=F2(9,1)
def rnd(): return F2(random.randrange(p),random.randrange(p))
# Fq[w]/(w^6 - xi)
def mul12(x,y):
    r=[ZERO]*11
    for i in range(6):
        if x[i].iszero(): continue
        for j in range(6):
            r[i+j]=r[i+j]+x[i]*y[j]
    out=r[:6]
    for k in range(6,11):
        out[k-6]=out[k-6]+r[k]*XI
    return out
GAMMA = XI.pow((q-1)//6)
GP=[GAMMA.pow(k) for k in range(6)]
def sigma(x): return [x[k]*GP[k] for k in range(6)]   # q-power Frobenius
def conj(x): return [x[k] if k%2==0 else -x[k] for k in range(6)]
def one12(): return [ONE]+[ZERO]*5
# polynomial utilities over Fq (lists low->high)
def ptrim(f):
    while f and f[-1].iszero(): f=f[:-1]
    return f
def padd(f,g):
    n=max(len(f),len(g)); return ptrim([(f[i] if i<len(f) else ZERO)+(g[i] if i<len(g) else ZERO) for i in range(n)])
def psub(f,g):
    n=max(len(f),len(g)); return ptrim([(f[i] if i<len(f) else ZERO)-(g[i] if i<len(g) else ZERO) for i in range(n)])
def pmul(f,g):
    if not f or not g: return []
    r=[ZERO]*(len(f)+len(g)-1)
    for i,a in enumerate(f):
        for j,b in enumerate(g):
            r[i+j]=r[i+j]+a*b
    return ptrim(r)
def pdivmod(f,g):
    f=f[:]; g=ptrim(g); qd=[ZERO]*max(0,len(f)-len(g)+1); gi=g[-1].inv()
    while len(f)>=len(g) and f:
        c=f[-1]*gi; d=len(f)-len(g); qd[d]=c
        for i,b in enumerate(g): f[i+d]=f[i+d]-c*b
        f=ptrim(f)
    return ptrim(qd),f
def pmod(f,g): return pdivmod(f,g)[1]
def pgcd(f,g):
    while g: f,g=g,pmod(f,g)
    if f:
        li=f[-1].inv(); f=[c*li for c in f]
    return f
def ppowmod(b,e,m):
    r=[ONE]; b=pmod(b,m)
    while e:
        if e&1: r=pmod(pmul(r,b),m)
        b=pmod(pmul(b,b),m); e>>=1
    return r
def roots(F):
    X=[ZERO,ONE]
    g=pgcd(F, psub(ppowmod(X,q,F),X))
    out=[]
    def split(h):
        if len(h)<=1: return
        if len(h)==2:
            out.append(-(h[0]*h[1].inv())); return
        while True:
            a=rnd()
            t=psub(ppowmod([a,ONE],(q-1)//2,h),[ONE])
            d=pgcd(h,t)
            if 1<len(d)<len(h):
                split(d); split(pdivmod(h,d)[0]); return
    split(g)
    return out
def interp(xs,ys):
    res=[]
    for i,(xi,yi) in enumerate(zip(xs,ys)):
        num=[ONE]; den=ONE
        for j,xj in enumerate(xs):
            if i==j: continue
            num=pmul(num,[-xj,ONE]); den=den*(xi-xj)
        c=yi*den.inv()
        res=padd(res,[c*n for n in num])
    return res
def build(y):
    D=mul12(sigma(y),y)
    cy=conj(y)
    X=mul12(sigma(cy),cy)
    Dt=one12(); s=D
    for j in range(5):
        s=sigma(s); Dt=mul12(Dt,s)
    return X,D,Dt
def elem(y):
    X,D,Dt=build(y)
    P=mul12(X,Dt)
    N=mul12(D,Dt)  # should be in Fq
    assert all(N[k].iszero() for k in range(1,6))
    ni=N[0].inv()
    return [c*ni for c in P]
COORD=int(sys.argv[1]) if len(sys.argv)>1 else 1
random.seed(int(sys.argv[2]) if len(sys.argv)>2 else 1)
while True:
    y0=[rnd() for _ in range(6)]; y1=[rnd() for _ in range(6)]
    xs=[F2(k,0) for k in range(1,15)]
    ys=[]
    for t in xs:
        y=[y0[k]+t*y1[k] for k in range(6)]
        X,D,Dt=build(y)
        ys.append(mul12(X,Dt)[COORD])
    F=interp(xs,ys)
    print("deg",len(F)-1,file=sys.stderr)
    rs=roots(F)
    print("roots",len(rs),file=sys.stderr)
    if rs:
        t=rs[0]
        y=[y0[k]+t*y1[k] for k in range(6)]
        x=elem(y)
        assert x[COORD].iszero()
        # sanity: x * conj(x) == 1 and sigma^2(x)*x == sigma(x)
        assert mul12(x,conj(x))==one12()
        assert mul12(sigma(sigma(x)),x)==sigma(x)
        for k in range(6): print(x[k].a, x[k].b)
        break
