#!/usr/bin/env python3
"""Writes /verif/RULES.md from the evidence files of the last run: per property the rules as
implemented (id, text, instances, obligations, floor), the assumptions and the trusted base."""
import json, os
out = ["# Rules as implemented (generated from /verif/evidence/*.json by gen_rules_doc.py)\n",
       "Every obligation is one instance `rule | package | function | construct` decided on /repo's current tree. `floor` = minimum number of instances confirmed by hand; below it the check exits 2 (UNDECIDED), never 0.\n"]
for i in range(1, 21):
    pid = "C%02d" % i
    p = "/verif/evidence/%s.json" % pid
    if not os.path.exists(p):
        continue
    d = json.load(open(p))
    c = d["coverage"]
    out.append("\n## %s  (%s tier, configurations %s, %d obligations, %.1f s)\n" % (pid, d["tier"], ",".join(c["configurations"]), c["obligations"], d["wall_s"]))
    out.append("| rule | instances | obligations | floor | text |\n|---|---|---|---|---|")
    for r in c["rules"]:
        out.append("| `%s` | %d | %d | %d | %s |" % (r["name"], r["instances"], r["obligations"], r["floor"], r["text"].replace("|", "\\|")))
    if d.get("assumptions"):
        out.append("\nNot decided / assumed:")
        for a in d["assumptions"]:
            out.append("* " + a)
    tb = c.get("trusted_base") or []
    if tb:
        out.append("\nTrusted base (%d entries, first 6):" % len(tb))
        for t in tb[:6]:
            out.append("* " + t)
open("/verif/RULES.md", "w").write("\n".join(out) + "\n")
print("RULES.md written")
