#!/bin/bash
# usage: check.sh <property-id> [quick|thorough]
# Runs the static checker for one property against /repo's current working tree.
export GOFLAGS=-mod=mod GOPROXY=off GOSUMDB=off GOTOOLCHAIN=local GOWORK=off
cd "$(dirname "$0")" || exit 2
if [ ! -x bin/gcverif ] || [ -n "$(find checker -newer bin/gcverif -name '*.go' -print -quit)" ]; then
  ./setup.sh >&2 || { echo "UNDECIDED setup failed"; exit 2; }
fi
exec bin/gcverif -prop "$1" -tier "${2:-${VERIF_TIER:-quick}}"
